/-
C18 — the execution history records every run once and queries return the exact window.

Model: `Model/Chronicle.lean` (store = files `chronicles/YYYY/MM/DD/<runid>.json`, `append` as
read-modify-write, `find` as the backwards day walk with year/month skipping) over the
calendar `Model/Cal.lean`.  `journalOf es` is the store after the messages `es` were appended
in that order to an empty store; every theorem below holds for EVERY list `es` (any completion
instants — any time of day, any day, month, year — duplicates, any run ids, any outcomes),
every window, every limit and every clock reading `now`.  A query bound is any timezone-aware
datetime: `⟨instant, offset⟩`, the instant it denotes and the UTC offset (minutes) it is written
with; the theorems speak about the instants only, whatever the offsets.

Definitions regenerated from the source on every run (`Generated/ChronicleGen.lean`): the keep
test of `_load` (strictness of both bounds, status test), the two status words, the key list of
`append`, the 1980 floor and the two `timedelta` steps of `find`, and which arguments the two
API handlers hand on.
-/
import DawgieVerif.Proofs.ChronicleB

namespace DawgieVerif.C18
open DawgieVerif.Cal DawgieVerif.Chronicle
open DawgieVerif.Generated.Chronicle (requiredKeys statusWord apiFailed apiSucceeded ApiCall
  normalisesAfter normalisesBefore)

/-! ### a concrete history used by the non-vacuity examples -/

def t (y m d hh mm : Int) : Int := instant y m d hh mm 0
def e1 : Entry := ⟨t 2024 3 9 20 0, 7, "T1", "net.alg", "success", 1⟩
def e2 : Entry := ⟨t 2024 3 10 10 0, 7, "T1", "net.alg", "success", 2⟩
def e3 : Entry := ⟨t 2024 3 11 11 0, 8, "T2", "net.alg", "failure", 3⟩
def e4 : Entry := ⟨t 2023 12 31 23 59, 5, "T2", "net.alg", "success", 4⟩
def e5 : Entry := ⟨t 2024 3 10 10 30, 7, "T0", "net.alg", "failure", 5⟩
def hist : List Entry := [e1, e2, e3, e4, e5]
def allKeys : List String :=
  ["runid", "status", "target", "task", "timing", "version", "changeset", "extra"]

/-! ### every completed unit is recorded once, nothing is lost -/

/-- An accepted `append` (all expected keys present) adds the message at the end of the file
    designated by its completion date and run id, leaves every other file as it was, and the
    multiset of everything stored grows by exactly that message. -/
theorem append_keeps (es : List Entry) (keys : List String) (e : Entry)
    (hk : requiredKeys.all (fun k => keys.contains k) = true) :
    append (journalOf es) keys e = .ok (journalOf (es ++ [e])) ∧
    readFile (journalOf (es ++ [e])) (dirOf e) e.runid
      = readFile (journalOf es) (dirOf e) e.runid ++ [e] ∧
    (∀ d r, ¬ (d = dirOf e ∧ r = e.runid) →
      readFile (journalOf (es ++ [e])) d r = readFile (journalOf es) d r) ∧
    (allEntries (journalOf (es ++ [e]))).Perm (e :: allEntries (journalOf es)) := by
  obtain ⟨_, hu, _⟩ := journalOf_ok es
  have hj : journalOf (es ++ [e]) = writeFile (journalOf es) (dirOf e) e.runid
      (readFile (journalOf es) (dirOf e) e.runid ++ [e]) := by
    simp [journalOf, List.foldl_append]
  refine ⟨?_, ?_, ?_, ?_⟩
  · simp only [append, hk, if_true]; rw [hj]
  · rw [hj]; exact readFile_writeFile_same hu _ _ _
  · intro d r hne; rw [hj]; exact readFile_writeFile_other _ _ _ _ _ hne
  · rw [hj]; exact allEntries_append_perm hu e

/-- non-vacuity: the key list is accepted; run 7 has one file per day, the second append of run 7
    on 2024-03-10 extends that day's file -/
example : requiredKeys.all (fun k => allKeys.contains k) = true ∧
    readFile (journalOf hist) (dirOf e2) 7 = [e2, e5] ∧ readFile (journalOf hist) (dirOf e1) 7 = [e1] := by
  decide +kernel

/-- A message without the expected keys is refused (`TypeError`) before anything is written. -/
theorem append_rejects (j : Journal) (keys : List String) (e : Entry)
    (hk : requiredKeys.all (fun k => keys.contains k) = false) :
    append j keys e = .error .typeError := by
  simp only [append, hk, Bool.false_eq_true, if_false]

example : requiredKeys.all (fun k => ["runid", "status"].contains k) = false := by decide +kernel

/-- The store holds exactly the appended messages, each as often as it was appended. -/
theorem history_complete (es : List Entry) : (allEntries (journalOf es)).Perm es :=
  (journalOf_ok es).2.2

/-! ### queries -/

/-- Both bounds given (any limit is ignored): exactly the recorded entries of the requested
    outcome completed strictly inside the window, newest first. -/
theorem find_window (es : List Entry) (now : Int) (a b : Bound) (limit : Option Int) (succ : Bool) :
    ∃ r, find (journalOf es) now (some a) (some b) limit succ = .ok r ∧
      r.Perm (wanted es a.instant b.instant succ) ∧ NewestFirst r := by
  refine ⟨_, ?_, (collect_full es a.instant b.instant succ).1, (collect_full es a.instant b.instant succ).2⟩
  simp [find, walk_none, normalisesAfter, normalisesBefore]

/-- non-vacuity (the replay of the repaired finding F-C18a): the entry of 03-09 20:00 lies later
    in its day than the upper bound's time of day 15:00 and is returned; the failure and the
    2023 entry are not -/
example : (find (journalOf hist) (t 2025 1 1 0 0) (some ⟨t 2024 3 1 0 0, 0⟩) (some ⟨t 2024 3 10 15 0, 0⟩)
    (some 1) true).toOption = some [e2, e1] := by decide +kernel

/-- No lower bound (only `before`, only `limit`, or both): the newest `limit` entries of the
    window `(1980-01-01, before or now)`; all of them when no limit is given. -/
theorem find_newest (es : List Entry) (now : Int) (before : Option Bound) (limit : Option Int)
    (succ : Bool) (h : before ≠ none ∨ limit ≠ none) :
    ∃ full, full.Perm (wanted es floorInstant ((before.map (·.instant)).getD now) succ) ∧ NewestFirst full ∧
      find (journalOf es) now none before limit succ =
        .ok (match limit with | none => full | some n => full.take n.toNat) := by
  refine ⟨_, (collect_full es floorInstant ((before.map (·.instant)).getD now) succ).1,
    (collect_full es floorInstant ((before.map (·.instant)).getD now) succ).2, ?_⟩
  cases limit with
  | none =>
    cases before with
    | none => simp at h
    | some b => simp [find, walk_none, normalisesAfter, normalisesBefore]
  | some n =>
    cases before with
    | none => simp [find, normalisesAfter, normalisesBefore, pyFirst_walk]
    | some b => simp [find, normalisesAfter, normalisesBefore, pyFirst_walk]

/-- non-vacuity: the newest three successes reach across nine missing months and a missing
    year directory -/
example : (find (journalOf hist) (t 2025 1 1 0 0) none none (some 3) true).toOption
    = some [e2, e1, e4] ∧
    (find (journalOf hist) (t 2025 1 1 0 0) none (some ⟨t 2024 3 10 10 0, 0⟩) (some 1) true).toOption
    = some [e1] := by decide +kernel

/-- Lower bound and limit (no upper bound): the property fixes no truncation rule here; what
    is returned is a sub-multiset of the window `(after, now)`, newest first, at most `limit`
    long — and the whole window when no limit is given. -/
theorem find_sound (es : List Entry) (now : Int) (a' : Bound) (limit : Option Int) (succ : Bool) :
    ∃ r full, find (journalOf es) now (some a') none limit succ = .ok r ∧
      full.Perm (wanted es a'.instant now succ) ∧ NewestFirst full ∧ r.Sublist full ∧ NewestFirst r ∧
      (∀ n, limit = some n → r.length ≤ n.toNat) ∧ (limit = none → r = full) := by
  obtain ⟨a, oa⟩ := a'
  have hfull := collect_full es a now succ
  cases limit with
  | none =>
    refine ⟨collect (journalOf es) a now (statusWord succ) (dayOf a) (dayOf now), _, ?_,
      hfull.1, hfull.2, List.Sublist.refl _, hfull.2, ?_, fun _ => rfl⟩
    · simp [find, walk_none, normalisesAfter, normalisesBefore]
    · intro n hn; cases hn
  | some n =>
    by_cases ho : floorInstant < a
    · have hl := pyLast_walk (journalOf es) a now n (statusWord succ)
      refine ⟨pyLast (walk (journalOf es) a now (dayOf a) (some n) (statusWord succ) now []) n, _, ?_,
        hfull.1, hfull.2, hl.1, List.Pairwise.sublist hl.1 hfull.2, ?_, ?_⟩
      · simp [find, ho, normalisesAfter, normalisesBefore]
      · intro m hm; cases hm; exact hl.2
      · intro hn; cases hn
    · refine ⟨pyFirst (walk (journalOf es) a now (dayOf a) (some n) (statusWord succ) now []) n, _, ?_,
        hfull.1, hfull.2, ?_, ?_, ?_, ?_⟩
      · simp [find, ho, normalisesAfter, normalisesBefore]
      · rw [pyFirst_walk]; exact List.take_sublist _ _
      · rw [pyFirst_walk]; exact List.Pairwise.sublist (List.take_sublist _ _) hfull.2
      · intro m hm; cases hm; rw [pyFirst_walk, List.length_take]; omega
      · intro hn; cases hn

example : (find (journalOf hist) (t 2025 1 1 0 0) (some ⟨t 2023 1 1 0 0, 0⟩) none (some 1) true).toOption
    = some [e2] ∧
    (find (journalOf hist) (t 2025 1 1 0 0) (some ⟨t 2023 1 1 0 0, 0⟩) none none false).toOption
    = some [e3, e5] := by decide +kernel

/-- The answer depends on the instants the bounds denote, not on the UTC offsets they are written
    with: `before=2024-03-10T22:00-05:00` and `before=2024-03-11T03:00+00:00` give the same list. -/
theorem find_offset_invariant (j : Journal) (now : Int) (after after' before before' : Option Bound)
    (limit : Option Int) (succ : Bool)
    (ha : after.map (·.instant) = after'.map (·.instant))
    (hb : before.map (·.instant) = before'.map (·.instant)) :
    find j now after before limit succ = find j now after' before' limit succ := by
  cases after <;> cases after' <;> simp at ha <;> cases before <;> cases before' <;> simp at hb <;>
    simp [find, normalisesAfter, normalisesBefore, *]

/-- non-vacuity (the replay of the repaired time-zone finding): the bound 22:00-05:00 on the 10th is
    03:00 UTC on the 11th; the entry of 01:00 UTC on the 11th is inside the window -/
example : (find (journalOf [⟨t 2024 3 11 1 0, 1, "T", "a.b", "success", 1⟩]) (t 2025 1 1 0 0)
    (some ⟨t 2024 3 1 0 0, 0⟩) (some ⟨t 2024 3 11 3 0, -300⟩) none true).toOption
    = some [⟨t 2024 3 11 1 0, 1, "T", "a.b", "success", 1⟩] := by decide +kernel

/-- `find` raises exactly when all three arguments are `None`. -/
theorem find_rejects (j : Journal) (now : Int) (after before : Option Bound) (limit : Option Int)
    (succ : Bool) :
    find j now after before limit succ = .error .valueError ↔
      (after = none ∧ before = none ∧ limit = none) := by
  cases after <;> cases before <;> cases limit <;> simp [find] <;> (try split) <;> (try split) <;> simp

example : find (journalOf hist) 0 none none none true = .error .valueError := by
  rw [find_rejects]; exact ⟨rfl, rfl, rfl⟩

/-- Newest first means: completion instants never increase along the answer. -/
theorem newest_first_completed (l : List Entry) (h : NewestFirst l) :
    l.Pairwise (fun x y => y.completed ≤ x.completed) := h.completed_desc

/-- The two API handlers hand `after`, `before` and `limit` on to `chronicle.find`, with the
    outcome they are named after (regenerated from `fe/api/schedule.py`). -/
theorem api_hands_on_window :
    apiFailed = ⟨true, true, true, false⟩ ∧ apiSucceeded = ⟨true, true, true, true⟩ := by
  decide

end DawgieVerif.C18
