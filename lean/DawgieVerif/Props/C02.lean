/-
C02 — reprocessing after a change is complete and minimal (scheduling clauses).

`reply g s x t .success rid news ne` is `farm.Hand._res` for a successful run of `(x, t)` that
reported the values `news` as newly authored (`ne` = the report carried at least one value).
`dependents g x news` are the direct dependents of `x` one of whose declared inputs (expanded to
value level) is among `news`; `fedBack g news` the algorithms consuming one of them as feedback.

Proved: the step clauses for EVERY state and report (`update_complete`, `update_minimal`,
`growth_has_cause`, `released_was_pending`).  Together they give "every consumer of a new value is
scheduled again for the affected target(s) after that report, and nothing is scheduled without a
cause (explicit request / version change = `organize`, timer = `defer`, new-value report)";
transitivity follows by applying them to every later report.

NOT proved (full statement, kept for the record — it needs the store model of C06/C07 and
assumptions about user code): `quiescent_fresh` : for feedback-free graphs and deterministic
algorithms whose every changed output is fresh content, at quiescence the stored results equal
those of a from-scratch run in dependency order.
-/
import DawgieVerif.Proofs.SchedInv

namespace DawgieVerif.C02
open DawgieVerif.Sched

theorem success_reply_eq (g : Graph) (s : St) (x : Name) (t : Target) (rid : Nat)
    (news : List Val) (ne : Bool) (hx : x ∈ s.que) :
    (reply g s x t .success rid news ne).1 =
      update g (complete { s with inflight := s.inflight.erase (x, t) } x t .success rid) x t rid news ne := by
  unfold reply
  simp only [hx, if_true]

/-- what the consumers of a new value must be scheduled for -/
def affected (g : Graph) (s : St) (t : Target) (d : Name) : List Target := wanted g s.targets [t] d

/-- Complete: after a success report with new values, every direct dependent that declares one
    of them as input — and every feedback consumer — has the affected target(s) pending: the
    all-targets marker for an analysis, every known target when the reporting unit was an
    all-targets run, else the reporting target; and it is in the queue. -/
theorem update_complete (g : Graph) (s : St) (x : Name) (t : Target) (rid : Nat)
    (news : List Val) (hx : x ∈ s.que) (hnews : news ≠ [])
    (d : Name) (hd : d ∈ dependents g x news ∨ d ∈ fedBack g news) :
    (∀ u ∈ affected g s t d, u ∈ ((reply g s x t .success rid news true).1.node d).todo) ∧
    (affected g s t d ≠ [] → d ∈ (reply g s x t .success rid news true).1.que) := by
  rw [success_reply_eq g s x t rid news true hx]
  unfold update
  have hne : news.isEmpty = false := by cases news <;> simp_all
  simp only [Bool.not_true, Bool.false_eq_true, if_false, hne]
  have hmem : d ∈ updNames g x news := mem_updNames.2 hd.symm
  generalize hsc : complete { s with inflight := s.inflight.erase (x, t) } x t .success rid = sc
  have htg : sc.targets = s.targets := by rw [← hsc]; rfl
  have hspec := (orgFold_spec g sc.targets [t]
    (if (fedBack g news).isEmpty then some rid else none)
    (updNames g x news) sc.node d).2.2.2.1
  have h1 : ∀ u ∈ affected g s t d,
      u ∈ ((organize g sc (updNames g x news)
        (if (fedBack g news).isEmpty then some rid else none) [t]).node d).todo := by
    intro u hu
    rw [organize_node, hspec u]
    right
    refine ⟨hmem, ?_⟩
    unfold affected at hu
    rw [htg]; exact hu
  refine ⟨h1, ?_⟩
  intro hne'
  rw [mem_organize_que]
  refine ⟨Or.inr hmem, ?_⟩
  obtain ⟨u, hu⟩ := List.exists_mem_of_ne_nil _ hne'
  have := h1 u hu
  rw [organize_node] at this
  exact live_of_work (Or.inl (List.ne_nil_of_mem this))

/-- Minimal: a success report adds pending work only to the dependents that declare one of
    the new values as input and to feedback consumers — nothing else is rescheduled. -/
theorem update_minimal (g : Graph) (s : St) (x : Name) (t : Target) (rid : Nat)
    (news : List Val) (ne : Bool) (hx : x ∈ s.que) (n : Name) (u : Target)
    (hnew : u ∈ ((reply g s x t .success rid news ne).1.node n).todo) (hold : u ∉ (s.node n).todo) :
    n ∈ dependents g x news ∨ n ∈ fedBack g news := by
  rw [success_reply_eq g s x t rid news ne hx] at hnew
  unfold update at hnew
  generalize hsc : complete { s with inflight := s.inflight.erase (x, t) } x t .success rid = sc at hnew
  have hct : (sc.node n).todo = (s.node n).todo := by rw [← hsc]; exact complete_todo _ x t _ rid n
  split at hnew
  · rw [hct] at hnew; exact absurd hnew hold
  · split at hnew
    · rw [organize_node] at hnew
      have := (orgFold_spec g sc.targets [] (if (fedBack g news).isEmpty then some rid else none) [] sc.node n).2.2.2.1 u
      rw [this, hct] at hnew
      simp at hnew
      exact absurd hnew hold
    · rw [organize_node] at hnew
      have := (orgFold_spec g sc.targets [t] (if (fedBack g news).isEmpty then some rid else none) (updNames g x news) sc.node n).2.2.2.1 u
      rw [this, hct] at hnew
      rcases hnew with c | c
      · exact absurd c hold
      · exact (mem_updNames.1 c.1).symm

/-- Every growth of anybody's pending work in any step has one of the three causes the property
    allows: an explicit request / version change (`organize` naming it), a timer event naming it,
    or a success report with a new value it consumes. -/
theorem growth_has_cause (g : Graph) (s : St) (op : Op) (n : Name) (u : Target)
    (hnew : u ∈ ((step g s op).node n).todo) (hold : u ∉ (s.node n).todo) :
    (∃ names rid targets, op = .organize names rid targets ∧ n ∈ names) ∨
    (∃ per, op = .defer per ∧ ∃ k, (n, k) ∈ per) ∨
    (∃ x t rid news ne, op = .reply x t .success rid news ne ∧
        (n ∈ dependents g x news ∨ n ∈ fedBack g news)) := by
  cases op with
  | organize names rid targets =>
    left
    refine ⟨names, rid, targets, rfl, ?_⟩
    simp only [step] at hnew
    rw [organize_node] at hnew
    have := (orgFold_spec g s.targets targets rid names s.node n).2.2.2.1 u
    rw [this] at hnew
    rcases hnew with c | c
    · exact absurd c hold
    · exact c.1
  | dispatch =>
    exfalso
    simp only [step] at hnew
    have hr := releaseAll_rel g s s.que
    unfold dispatch at hnew
    split at hnew
    · exact hold hnew
    · simp only at hnew
      rw [(foldl_putJob_spec g _ _).2.2 n |>.1] at hnew
      exact hold (hr.todo n u hnew)
  | reply x t o rid news ne =>
    simp only [step] at hnew
    by_cases hx : x ∈ s.que
    · cases o with
      | success =>
        right; right
        exact ⟨x, t, rid, news, ne, rfl, update_minimal g s x t rid news ne hx n u hnew hold⟩
      | failure =>
        exfalso
        unfold reply at hnew
        simp only [hx, if_true] at hnew
        have := purge_todo_sub g _ x t n u hnew
        rw [complete_todo] at this
        exact hold this
      | invalid =>
        exfalso
        unfold reply at hnew
        simp only [hx, if_true] at hnew
        have := purge_todo_sub g _ x t n u hnew
        rw [complete_todo] at this
        exact hold this
    · exfalso
      unfold reply at hnew
      simp only [hx, if_false] at hnew
      exact hold hnew
  | defer per =>
    right; left
    refine ⟨per, rfl, ?_⟩
    simp only [step] at hnew
    exact defer_growth g s per n u hnew hold
  | pause b => exact absurd hnew hold
  | addTarget t => exact absurd hnew hold

/-- Only pending work is ever released: a unit the farm starts was in `todo`. -/
theorem released_was_pending (g : Graph) (s : St) (x : Name) (t : Target)
    (h : (x, t) ∈ (dispatch g s).2) : t ∈ (s.node x).todo := by
  unfold dispatch at h
  split at h
  · simp at h
  · obtain ⟨s', r, hs, ht⟩ := releaseAll_released_rel g s s.que x t h
    exact hs.todo x t (available_sub_todo g s' x t ht)


/-! non-vacuity: chain 0 → 1 → 2 with value-level inputs (node 1 consumes value 0, node 2
    consumes value 1); the root reports value 0 new for target 1: exactly node 1 is rescheduled. -/
def chain : Graph :=
  { kind := fun _ => .task
    children := fun n => if n = 0 then [1] else if n = 1 then [2] else []
    desc := fun n => if n = 0 then [0, 1, 2] else if n = 1 then [1, 2] else [n]
    ancestry := fun n => if n = 1 then [0] else if n = 2 then [0, 1] else []
    consumes := fun n => if n = 1 then [0] else if n = 2 then [1] else []
    feedbackTo := fun _ => none
    level := fun n => n }

example : dependents chain 0 [0] = [1] ∧ fedBack chain [0] = [] := by decide +kernel

example :
    let s := run chain (St.init [1]) [.organize [0] none [1], .dispatch]
    0 ∈ s.que ∧ affected chain s 1 1 = [1] ∧
    ((reply chain s 0 1 .success 7 [0] true).1.node 1).todo = [1] ∧
    ((reply chain s 0 1 .success 7 [0] true).1.node 2).todo = [] ∧
    (reply chain s 0 1 .success 7 [0] true).1.que = [1] := by
  decide +kernel

end DawgieVerif.C02
