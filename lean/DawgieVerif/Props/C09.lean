/-
C09 — the derived task graph is faithful to the declared dependencies.

`construct e` is the model of `dag.Construct(factories)` (`Model/Dag.lean`); `g.children l`,
`g.treeTags l`, `g.ancestryAt`, `g.feedbacks` are what `tt` (l = 1), `at` (l = 2), `svt`
(l = 3) expose, `g.kids`, `g.ancV` the value tree `vt`.  Every theorem holds for EVERY engine
(any number of packages, algorithms, state vectors, values, references) that is well formed
(`WF`: what the compliance gate checks) and acyclic (`Acyclic`: the property's hypothesis).

`Declares e a b` : the algorithm producing value `b` declares value `a` as input after `as_vref`.
`edgeAt e l p c` : some `a`, `b` with `trim l a = p`, `trim l b = c`, `Declares e a b`.

Without acyclicity the Python `_ancestry` loop does not terminate; the model then returns
`Err.diverges` and `construct_ok` is where acyclicity buys termination.
-/
import DawgieVerif.Proofs.DagDemo

namespace DawgieVerif.C09
open DawgieVerif.Dag Relation

section
variable {α : Type} [DecidableEq α]

/-- For a well-formed acyclic engine the construction succeeds: no `KeyError` in `_feedback`
    and the `_ancestry` loop terminates for every node. -/
theorem construct_ok (e : Engine α) (hwf : WF e) (hac : Acyclic e) : ∃ g, construct e = .ok g :=
  construct_ok' hwf hac

example : ∃ g, construct demo = .ok g := construct_ok demo demo_wf demo_acyclic

/-- The error branches: `Construct` raises `KeyError` only for a fed-back name that is not a
    node of `_flat`, and the only other failure is an `_ancestry` loop that does not finish
    (which `construct_ok` excludes for acyclic engines). -/
theorem construct_error_branches (e : Engine α) (err : Err α) (h : construct e = .error err) :
    (∃ k n, err = .keyError n ∧ k ∈ (buildFlat e).tbl.keys ∧ n ∈ e.feedbackOf k ∧
      n ∉ (buildFlat e).tbl.keys) ∨
    (∃ st k, err = .diverges k ∧ feedbackPass e (buildFlat e).tbl.keys = .ok st ∧
      ancestryOf (mkGraph (buildFlat e) st).parents (mkGraph (buildFlat e) st).keys k = none) :=
  construct_error h

example : construct bad = .error (.keyError [0, 1, 0, 7]) := rfl

/-- Exactly one algorithm-level node per algorithm: the tags of `at` are a permutation of the
    algorithms' names (which are distinct). -/
theorem at_nodes (e : Engine α) (g : Graph α) (hwf : WF e) (hac : Acyclic e)
    (h : construct e = .ok g) : (g.treeTags Generated.Dag.atLevel).Perm (e.algs.map Alg.id) :=
  (List.perm_ext_iff_of_nodup (nodup_dedup _) hwf.ids_nodup).2 (atTags_iff hwf hac h)

example : ∃ g, construct demo = .ok g ∧ (g.treeTags 2).Perm [[0, 0], [0, 1], [1, 2]] := by
  obtain ⟨g, hg⟩ := construct_ok demo demo_wf demo_acyclic
  exact ⟨g, hg, at_nodes demo g demo_wf demo_acyclic hg⟩

/-- The nodes of the tree of any granularity `l` are the trimmed names of the declared values
    (`l = 1` packages, `l = 3` state vectors). -/
theorem tree_nodes (e : Engine α) (g : Graph α) (hwf : WF e) (hac : Acyclic e)
    (h : construct e = .ok g) (l : Nat) (p : Name α) :
    p ∈ g.treeTags l ↔ ∃ A, A ∈ e.algs ∧ ∃ x, x ∈ algValues A ∧ trim l x = p :=
  treeTags_iff hwf hac h l p

/-- An edge exactly where an algorithm declares a value of another algorithm as input, at
    granularity `l` (1 = task tree, 2 = algorithm tree, 3 = state-vector tree). -/
theorem edge_iff (e : Engine α) (g : Graph α) (hwf : WF e) (hac : Acyclic e)
    (h : construct e = .ok g) (l : Nat) (p c : Name α) :
    c ∈ g.children l p ↔ ∃ a b, trim l a = p ∧ trim l b = c ∧ Declares e a b :=
  children_iff hwf hac h l p c

example : ∃ g, construct demo = .ok g ∧ [1, 2] ∈ g.children 2 [0, 0] ∧ [1, 2, 0] ∈ g.children 3 [0, 0, 0]
    ∧ [1] ∈ g.children 1 [0] ∧ [0, 0] ∉ g.children 2 [1, 2] := by
  obtain ⟨g, hg⟩ := construct_ok demo demo_wf demo_acyclic
  have hd : Declares demo [0, 0, 0, 1] [1, 2, 0, 0] := ⟨A2, by decide, by decide, by decide⟩
  refine ⟨g, hg, ?_, ?_, ?_, ?_⟩
  · exact (edge_iff demo g demo_wf demo_acyclic hg 2 _ _).2 ⟨_, _, rfl, rfl, hd⟩
  · exact (edge_iff demo g demo_wf demo_acyclic hg 3 _ _).2 ⟨_, _, rfl, rfl, hd⟩
  · exact (edge_iff demo g demo_wf demo_acyclic hg 1 _ _).2 ⟨_, _, rfl, rfl, hd⟩
  · intro hc
    have he : edgeAt demo 2 [1, 2] [0, 0] := (edge_iff demo g demo_wf demo_acyclic hg 2 _ _).1 hc
    exact demo_acyclic [0, 0] (TransGen.tail (TransGen.single ⟨_, _, rfl, rfl, hd⟩) he)

/-- Value granularity (`vt`): the children of a value node are exactly the values whose
    algorithm declares it as input.  Needs no hypothesis on the engine. -/
theorem edge_iff_value (e : Engine α) (g : Graph α) (h : construct e = .ok g) (a b : Name α) :
    b ∈ g.kids a ↔ Declares e a b := by
  obtain ⟨st, _, rfl⟩ := construct_eq h
  exact mkGraph_kids st a b

example : ∃ g, construct demo = .ok g ∧ [0, 1, 0, 0] ∈ g.kids [0, 0, 0, 0] := by
  obtain ⟨g, hg⟩ := construct_ok demo demo_wf demo_acyclic
  exact ⟨g, hg, (edge_iff_value demo g hg _ _).2 ⟨A1, by decide, by decide, by decide⟩⟩

/-- The `parents` attribute of an algorithm node is the set of its direct predecessors. -/
theorem parents_edge (e : Engine α) (g : Graph α) (hwf : WF e) (hac : Acyclic e)
    (h : construct e = .ok g) (m n : Name α) : m ∈ g.parentsAt n ↔ edgeAt e 2 m n :=
  parentsAt_iff hwf hac h m n

/-- Each algorithm node's ancestor set is the transitive closure of the algorithm-level edges. -/
theorem ancestry_closure (e : Engine α) (g : Graph α) (hwf : WF e) (hac : Acyclic e)
    (h : construct e = .ok g) (m n : Name α) :
    m ∈ g.ancestryAt n ↔ TransGen (edgeAt e 2) m n :=
  ancestryAt_iff hwf hac h m n

example : ∃ g, construct demo = .ok g ∧ [0, 0] ∈ g.ancestryAt [1, 2] ∧ [1, 2] ∉ g.ancestryAt [0, 0] := by
  obtain ⟨g, hg⟩ := construct_ok demo demo_wf demo_acyclic
  have h01 : edgeAt demo 2 [0, 0] [0, 1] :=
    ⟨[0, 0, 0, 0], [0, 1, 0, 0], rfl, rfl, A1, by decide, by decide, by decide⟩
  have h12 : edgeAt demo 2 [0, 1] [1, 2] :=
    ⟨[0, 1, 0, 0], [1, 2, 0, 0], rfl, rfl, A2, by decide, by decide, by decide⟩
  refine ⟨g, hg, (ancestry_closure demo g demo_wf demo_acyclic hg _ _).2
    (TransGen.tail (TransGen.single h01) h12), ?_⟩
  intro hc
  have := (ancestry_closure demo g demo_wf demo_acyclic hg _ _).1 hc
  exact demo_acyclic _ (TransGen.trans this (TransGen.tail (TransGen.single h01) h12))

/-- The same at value granularity: the `ancestry` of a value node is the transitive closure of
    the value-level edges. -/
theorem ancestry_closure_value (e : Engine α) (g : Graph α) (hwf : WF e) (hac : Acyclic e)
    (h : construct e = .ok g) (m x : Name α) :
    m ∈ g.ancV x ↔ TransGen (Declares e) m x :=
  ancV_iff hwf hac h m x

/-- Feedback references never create ordering edges: the engine with every `feedback()` erased
    yields the same children at every granularity, the same value-level edges and the same
    ancestry. -/
theorem feedback_no_edge (e : Engine α) (g : Graph α) (hwf : WF e) (hac : Acyclic e)
    (h : construct e = .ok g) :
    ∃ g', construct e.noFeedback = .ok g' ∧
      (∀ l p c, c ∈ g.children l p ↔ c ∈ g'.children l p) ∧
      (∀ a b, b ∈ g.kids a ↔ b ∈ g'.kids a) ∧
      (∀ n m, m ∈ g.ancestryAt n ↔ m ∈ g'.ancestryAt n) := by
  obtain ⟨g', hg'⟩ := construct_ok' (wf_noFeedback hwf) (acyclic_noFeedback hac)
  refine ⟨g', hg', ?_, ?_, ?_⟩
  · intro l p c
    rw [children_iff hwf hac h, children_iff (wf_noFeedback hwf) (acyclic_noFeedback hac) hg',
      edgeAt_noFeedback]
  · intro a b
    rw [edge_iff_value e g h, edge_iff_value _ g' hg', declares_noFeedback]
  · intro n m
    rw [ancestryAt_iff hwf hac h, ancestryAt_iff (wf_noFeedback hwf) (acyclic_noFeedback hac) hg',
      edgeAt_noFeedback_eq]

example : ∃ g g', construct demo = .ok g ∧ construct demo.noFeedback = .ok g' ∧
    (∀ l p c, c ∈ g.children l p ↔ c ∈ g'.children l p) ∧ demo.noFeedback.algs ≠ demo.algs := by
  obtain ⟨g, hg⟩ := construct_ok demo demo_wf demo_acyclic
  obtain ⟨g', hg', hc, _, _⟩ := feedback_no_edge demo g demo_wf demo_acyclic hg
  exact ⟨g, g', hg, hg', hc, by decide⟩

/-- Every fed-back value is mapped to a consumer: `Construct.feedbacks` has an entry for it and
    the entry is a value node of an algorithm that declares it as feedback. -/
theorem feedbacks_total (e : Engine α) (g : Graph α) (hwf : WF e) (h : construct e = .ok g)
    (B : Alg α) (hB : B ∈ e.algs) (v : Name α) (hv : v ∈ expand e B.feedback) :
    ∃ c, g.feedbacks.get? v = some c ∧
      ∃ C, C ∈ e.algs ∧ c ∈ algValues C ∧ v ∈ expand e C.feedback := by
  obtain ⟨h1, h2, _⟩ := feedbacks_spec hwf h
  have := h2 B hB v hv
  cases hc : g.feedbacks.get? v with
  | none => rw [hc] at this; cases this
  | some c => exact ⟨c, rfl, h1 v c hc⟩

example : ∃ g, construct demo = .ok g ∧ ∃ c, g.feedbacks.get? [1, 2, 0, 0] = some c ∧ trim 2 c = [0, 0] := by
  obtain ⟨g, hg⟩ := construct_ok demo demo_wf demo_acyclic
  obtain ⟨c, hc, C, hC, hcC, hv⟩ :=
    feedbacks_total demo g demo_wf hg A0 (by decide) [1, 2, 0, 0] (by decide)
  refine ⟨g, hg, c, hc, ?_⟩
  rw [trim2_value hcC]
  have hC' : C = A0 ∨ C = A1 ∨ C = A2 := by simpa [demo] using hC
  rcases hC' with rfl | rfl | rfl
  · rfl
  · exact absurd hv (by decide)
  · exact absurd hv (by decide)

/-- Nothing else is in `Construct.feedbacks`: every entry maps a value to a value node of an
    algorithm that declares it as feedback. -/
theorem feedbacks_sound (e : Engine α) (g : Graph α) (hwf : WF e) (h : construct e = .ok g)
    (v c : Name α) (hvc : g.feedbacks.get? v = some c) :
    ∃ C, C ∈ e.algs ∧ c ∈ algValues C ∧ v ∈ expand e C.feedback :=
  (feedbacks_spec hwf h).1 v c hvc

/-- Exported for the scheduler properties: the ancestry of the constructed graph is transitively
    closed and contains the algorithm of every declared input. -/
theorem anc_closed (e : Engine α) (g : Graph α) (hwf : WF e) (hac : Acyclic e)
    (h : construct e = .ok g) : AncClosed e g.ancestryAt := by
  constructor
  · intro x a b ha hb
    rw [ancestryAt_iff hwf hac h] at ha hb ⊢
    exact TransGen.trans hb ha
  · intro a b hd
    rw [ancestryAt_iff hwf hac h]
    exact TransGen.single ⟨a, b, rfl, rfl, hd⟩

example : ∃ g, construct demo = .ok g ∧ AncClosed demo g.ancestryAt := by
  obtain ⟨g, hg⟩ := construct_ok demo demo_wf demo_acyclic
  exact ⟨g, hg, anc_closed demo g demo_wf demo_acyclic hg⟩

end

end DawgieVerif.C09
