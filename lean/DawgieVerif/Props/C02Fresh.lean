/-
C02, consequence clause — "whenever changed values have content never stored before, the stored
results at quiescence equal those of a from-scratch run in dependency order".

World (`Model/Reprocess.lean`): the scheduler of `Model/Sched.lean` plus what the released units
do to the store.  A unit's execution is three separate steps — `read` (the loads of `Task.do`),
`write` (`ds.update()`: every output becomes the latest content; a value is reported new iff the
digest of its content was not in the store), `reply` (`farm.Hand._res`: `complete` + `update` with
that report) — which interleave freely with requests, timers, source-data changes (`poke`) and
the steps of every other unit, including units released while a descendant is still executing.

Assumptions, all explicit:
* `SemOk`: algorithms are deterministic functions of their source data and of the stored contents
  of their declared inputs only (`loc`); one author per value (`own`); no algorithm declares an
  own output as input (`noself`); a declared input is an edge (`edge`, which is `C09.edge_iff`);
  tasks only (`tasks`: no aspects/analyses, so every unit is (algorithm, real target)).
* `ValidW`: workers load, store and report only for units they were given, in this order
  (`WOk` of `read`/`write`/`reply`), every run succeeds, they store what the algorithm computes
  from what they loaded, and the premise of the clause, `Novel`: a changed value has content
  whose digest is not in the store (and that no other value written by the same run has).
  Loads (`WOk` of `read`): `Interface._load` goes by run id (the version stored under the unit's
  own run id if there is one, else the latest); versions are NOT modelled.  The hypothesis is
  that a load finds the latest stored content of every declared input, or — when it found an
  older version — the unit is pending again (`Pend`).  The driver evaluates this hypothesis on
  every real history of the correspondence run; it is what the repair `b49fd37` of
  `schedule.organize` (pending work never goes back to an older run id) restored: before it, a
  slow sibling root of an older run made a consumer run once with the older run id, load the
  older version of an input and leave a stale result at quiescence (replay in
  `known_findings.json`, "fixed").
* `Quiet`: the queue is empty, nothing is in flight and no algorithm's source data changed
  after it last loaded it (the "sequence of root re-runs" has caught up with the data).

Then, for EVERY such history of any length: at quiescence the latest stored content of every
value equals what a from-scratch run of the algorithms in dependency order computes from the
current source data, for every target of the initial full request.
-/
import DawgieVerif.Proofs.Reprocess

namespace DawgieVerif.C02
open DawgieVerif.Sched DawgieVerif.Reprocess

/-- The invariant behind the clause, for every reachable state: each unit's stored outputs are
    what its algorithm computes from what is stored now, or its re-run is certain — its source
    data is marked changed, it is released and has not stored yet, it is pending, or a report
    that makes it pending is on its way. -/
theorem stale_is_scheduled (g : Graph) (sem : Sem) (T : List Target) (hs : SemOk g sem)
    (hT : ALL ∉ T) (w0 : W) (h0 : Inv3 g sem T w0) (ops : List WOp) (hv : ValidW g sem w0 ops)
    (c : Name) (t : Target) (ht : t ∈ T) :
    let w := runW g sem.outs w0 ops
    Fresh sem w c t ∨ (c, t) ∈ w.dirty ∨ ((c, t) ∈ w.s.inflight ∧ (c, t) ∉ keys w.done) ∨
      t ∈ (w.s.node c).todo ∨ Caused g w c t :=
  (runW_inv3 g sem T w0 ops hs hT h0 hv).main c t ht

/-- The clause, from any state satisfying the invariant. -/
theorem quiescent_fresh_from (g : Graph) (sem : Sem) (T : List Target) (order : List Name)
    (hs : SemOk g sem) (hT : ALL ∉ T) (htopo : Topo g sem order)
    (w0 : W) (h0 : Inv3 g sem T w0) (ops : List WOp) (hv : ValidW g sem w0 ops)
    (hq : Quiet (runW g sem.outs w0 ops)) (st0 : Val → Content) :
    ∀ t ∈ T, ∀ c ∈ order, ∀ v ∈ sem.outs c,
      (runW g sem.outs w0 ops).store v t =
        scratch sem.outs sem.F (runW g sem.outs w0 ops).source t order st0 v := by
  intro t ht
  have hinv := runW_inv3 g sem T w0 ops hs hT h0 hv
  have hfresh := quiet_fresh g sem T _ hinv hq
  exact fresh_unique g sem hs (runW g sem.outs w0 ops).source t
    (fun v => (runW g sem.outs w0 ops).store v t) _ order htopo
    (fun c _ => hfresh c t ht)
    (scratch_fresh g sem hs _ t order st0 htopo)

/-- The clause as stated: start from an idle scheduler on ANY store contents, request every
    algorithm for every target; then after every valid history that ends quiescent, the store
    holds exactly the results of a from-scratch run in dependency order (started from any
    store `st0`). -/
theorem quiescent_fresh (g : Graph) (sem : Sem) (T : List Target) (names order : List Name)
    (hs : SemOk g sem) (hT : ALL ∉ T) (hall : ∀ c, c ∉ names → sem.outs c = [])
    (htopo : Topo g sem order)
    (source : Name → Target → Content) (store : Val → Target → Content) (seen : List Content)
    (ops : List WOp) (hv : ValidW g sem (requested g T names source store seen) ops)
    (hq : Quiet (runW g sem.outs (requested g T names source store seen) ops))
    (st0 : Val → Content) :
    ∀ t ∈ T, ∀ c ∈ order, ∀ v ∈ sem.outs c,
      (runW g sem.outs (requested g T names source store seen) ops).store v t =
        scratch sem.outs sem.F
          (runW g sem.outs (requested g T names source store seen) ops).source t order st0 v :=
  quiescent_fresh_from g sem T order hs hT htopo _
    (requested_inv3 g sem hs T names hT hall source store seen) ops hv hq st0

/-- ... and nothing runs without a cause afterwards: at quiescence a dispatch tick releases
    nothing and leaves the whole world as it is (so the store stays equal to the from-scratch
    result until new source data or a request arrives). -/
theorem quiet_dispatch_noop (g : Graph) (outs : Name → List Val) (w : W) (hq : Quiet w) :
    (dispatch g w.s).2 = [] ∧ (stepW g outs w (.sched .dispatch)).s = w.s ∧
    (stepW g outs w (.sched .dispatch)).store = w.store := by
  obtain ⟨hque, _, _⟩ := hq
  have h1 : dispatch g w.s = (w.s, []) := by
    unfold dispatch
    split
    · rfl
    · simp [hque, releaseAll, dedupNames, byLevel]
  refine ⟨by rw [h1], ?_, rfl⟩
  simp only [stepW, step, h1]

/-- The from-scratch result does not depend on what was in the store before. -/
theorem scratch_independent (g : Graph) (sem : Sem) (hs : SemOk g sem) (order : List Name)
    (htopo : Topo g sem order) (source : Name → Target → Content) (t : Target)
    (st0 st1 : Val → Content) :
    ∀ c ∈ order, ∀ v ∈ sem.outs c,
      scratch sem.outs sem.F source t order st0 v = scratch sem.outs sem.F source t order st1 v :=
  fresh_unique g sem hs source t _ _ order htopo
    (scratch_fresh g sem hs source t order st0 htopo)
    (scratch_fresh g sem hs source t order st1 htopo)

/-- Run ids (the repaired decision of `schedule.organize`): a node that still has pending work
    and is organised again — by a report carrying run id `a` while it is set to run as `b` —
    runs as the newer of the two, never as the older. -/
theorem pending_keeps_newest_run (g : Graph) (s : St) (names : List Name) (a b : Nat)
    (targets : List Target) (m : Name) (hm : m ∈ names) (ht : (s.node m).todo ≠ [])
    (hb : (s.node m).runid = some b) :
    ((organize g s names (some a) targets).node m).runid = some (max a b) := by
  rw [organize_node]
  exact (orgFold_runid g s.targets targets a names s.node m b hm ht hb).1

/-- ... and a request for a fresh run id is never overridden by a report while the work is
    pending (one located node). -/
theorem pending_fresh_request_stays (g : Graph) (all targets : List Target) (rid : Option Nat)
    (n : Name) (nd : Node) (ht : nd.todo ≠ []) (hb : nd.runid = none) :
    (organizeNode g all targets rid n nd).runid = none := by
  simp only [organizeNode, mergeRid, hb]
  cases h : nd.todo with
  | nil => exact absurd h ht
  | cons _ _ => cases rid <;> simp

/-! non-vacuity: the chain 0 → 1 (node 0 writes value 10 from its source data, node 1 writes
    value 11 from value 10), target 1.  Full request, both units run, the source data of node 0
    changes, node 0 is re-run, node 1 follows because value 10 was reported new. -/

def g2 : Graph :=
  { kind := fun _ => .task
    children := fun n => if n = 0 then [1] else []
    desc := fun n => if n = 0 then [0, 1] else [n]
    ancestry := fun n => if n = 1 then [0] else []
    consumes := fun n => if n = 1 then [10] else []
    feedbackTo := fun _ => none
    level := fun n => n }

def sem2 : Sem :=
  { outs := fun n => if n = 0 then [10] else if n = 1 then [11] else []
    F := fun x _ src rd _ => if x = 0 then src + 1 else if x = 1 then 2 * rd 10 + 1 else 0 }

theorem sem2_ok : SemOk g2 sem2 := by
  refine ⟨?_, ?_, ?_, ?_, ?_⟩
  · intro x t src r r' h v
    by_cases hx : x = 0
    · simp [sem2, hx]
    · by_cases h1 : x = 1
      · subst h1
        have := h 10 (by simp [g2])
        simp [sem2, this]
      · simp [sem2, hx, h1]
  · intro x y v hx hy
    simp only [sem2] at hx hy
    by_cases hx0 : x = 0 <;> by_cases hx1 : x = 1 <;> by_cases hy0 : y = 0 <;>
      by_cases hy1 : y = 1 <;> simp_all
  · intro x v hv
    simp only [sem2, g2] at *
    by_cases hx0 : x = 0 <;> by_cases hx1 : x = 1 <;> simp_all
  · intro x c v hv hc
    simp only [sem2, g2] at *
    by_cases hx0 : x = 0 <;> by_cases hx1 : x = 1 <;> by_cases hc1 : c = 1 <;> simp_all
  · intro n; simp [g2]

example : Topo g2 sem2 [0, 1] := by
  simp [Topo, TopoFrom, g2, sem2]

def w2 : W := requested g2 [1] [0, 1] (fun _ _ => 5) (fun _ _ => 0) []

def ops2 : List WOp :=
  [ .sched .dispatch, .read 0 1 (fun _ => 0), .write 0 1 (fun _ => 6), .reply 0 1 7,
    .sched .dispatch, .read 1 1 (fun _ => 6), .write 1 1 (fun _ => 13), .reply 1 1 8,
    .poke 0 1 9, .sched (.organize [0] none [1]),
    .sched .dispatch, .read 0 1 (fun _ => 0), .write 0 1 (fun _ => 10), .reply 0 1 9,
    .sched .dispatch, .read 1 1 (fun _ => 10), .write 1 1 (fun _ => 21), .reply 1 1 10 ]

/-- the history meets every hypothesis of the theorem (workers follow the protocol, store what
    the algorithms compute, and every changed content is novel) -/
example : ValidW g2 sem2 w2 ops2 := by decide +kernel

/-- the end state is quiescent, node 1 was re-run by the report alone, and the store holds the
    from-scratch results for the new source data -/
example :
    let w := runW g2 sem2.outs w2 ops2
    w.s.que = [] ∧ w.s.inflight = [] ∧ w.dirty = [] ∧ w.done = [] ∧
    w.store 10 1 = 10 ∧ w.store 11 1 = 21 ∧
    scratch sem2.outs sem2.F w.source 1 [0, 1] (fun _ => 0) 10 = 10 ∧
    scratch sem2.outs sem2.F w.source 1 [0, 1] (fun _ => 0) 11 = 21 := by
  decide +kernel

/-- halfway (node 0 has stored its new result, the report is still on its way) node 1 is stale
    and exactly the `Caused` disjunct of the invariant holds for it -/
example :
    let w := runW g2 sem2.outs w2 (ops2.take 13)
    w.store 10 1 = 10 ∧ w.store 11 1 = 13 ∧ (w.s.node 1).todo = [] ∧
    w.done = [((0, 1), [10])] ∧ dependents g2 0 [10] = [1] := by
  decide +kernel

/-! The premise is needed: the source data of node 0 goes back to its first value, node 0 writes
    content 6 again, whose digest is already in the store, so the value is not reported new,
    node 1 is not re-run and the quiescent store differs from a from-scratch run.  Exactly the
    `Novel` hypothesis of that write fails (the history is valid up to it). -/
def ops3 : List WOp :=
  ops2 ++ [ .poke 0 1 5, .sched (.organize [0] none [1]), .sched .dispatch,
            .read 0 1 (fun _ => 0), .write 0 1 (fun _ => 6), .reply 0 1 11 ]

example :
    let w := runW g2 sem2.outs w2 ops3
    w.s.que = [] ∧ w.s.inflight = [] ∧ w.dirty = [] ∧ w.done = [] ∧
    w.store 10 1 = 6 ∧ w.store 11 1 = 21 ∧
    scratch sem2.outs sem2.F w.source 1 [0, 1] (fun _ => 0) 11 = 13 ∧
    ValidW g2 sem2 w2 (ops3.take 22) ∧ ¬ ValidW g2 sem2 w2 (ops3.take 23) ∧
    novelB (sem2.outs 0) (runW g2 sem2.outs w2 (ops3.take 22)) 1 (fun _ => 6) = false := by
  decide +kernel

/-- a later report of an older run (3) does not move the pending node back from run 7 -/
example :
    let s := organize g2 (St.init [1]) [1] (some 7) [1]
    (s.node 1).runid = some 7 ∧ ((organize g2 s [1] (some 3) [1]).node 1).runid = some 7 := by
  decide +kernel

end DawgieVerif.C02
