/-
C02, consequence clause — "whenever changed values have content never stored before, the stored
results at quiescence equal those of a from-scratch run in dependency order".

World (`Model/Reprocess.lean`): the scheduler of `Model/Sched.lean` plus what the released units
do to the store.  A unit's execution is three separate steps — `read` (the loads of `Task.do`),
`write` (`ds.update()`: every output becomes the latest content; a value is reported new iff the
digest of its content was not in the store), `reply` (`farm.Hand._res`: `complete` + `update` with
that report) — which interleave freely with requests, timers, source-data changes (`poke`) and
the steps of every other unit, including units released while a descendant is still executing.

Assumptions, all explicit:
* `SemOk`: algorithms are deterministic functions of their source data and of the stored contents
  of their declared inputs only (`loc`: a task unit reads its inputs on its own target and the
  results of analyses under the all-targets marker; an analysis reads its inputs on every
  target); one author per value (`own`); no algorithm declares an own output as input
  (`noself`); a declared input is an edge (`edge`, which is `C09.edge_iff`).  Units are
  (task algorithm, target) and (analysis, all-targets marker); the target set is fixed.
* `ValidW`: workers load, store and report only for units they were given, in this order
  (`WOk` of `read`/`write`/`reply`), every run succeeds, they store what the algorithm computes
  from what they loaded, and the premise of the clause, `Novel`: a changed value has content
  whose digest is not in the store (and that no other value written by the same run has).
  Loads (`WOk` of `read`): `Interface._load` goes by run id (the version stored under the unit's
  own run id if there is one, else the latest); versions are NOT modelled.  The hypothesis is
  that a load finds the latest stored content of every declared input, or — when it found an
  older version — the unit is pending again (`Pend`).  The driver evaluates this hypothesis on
  every real history of the correspondence run; it is what the repair `b49fd37` of
  `schedule.organize` (pending work never goes back to an older run id) restored: before it, a
  slow sibling root of an older run made a consumer run once with the older run id, load the
  older version of an input and leave a stale result at quiescence (replay in
  `known_findings.json`, "fixed").
* `Quiet`: the queue is empty, nothing is in flight and no algorithm's source data changed
  after it last loaded it (the "sequence of root re-runs" has caught up with the data).

Then, for EVERY such history of any length: at quiescence the latest stored content of every
value equals what a from-scratch run of the algorithms in dependency order computes from the
current source data, for every target of the initial full request.
-/
import DawgieVerif.Proofs.Reprocess

namespace DawgieVerif.C02
open DawgieVerif.Sched DawgieVerif.Reprocess

/-- The invariant behind the clause, for every reachable state: each unit's stored outputs are
    what its algorithm computes from what is stored now, or its re-run is certain — its source
    data is marked changed, it is released and has not stored yet, it is pending, or a report
    that makes it pending is on its way.  Units: (task algorithm, target) and (analysis, ALL). -/
theorem stale_is_scheduled (g : Graph) (sem : Sem) (T : List Target) (hs : SemOk g T sem)
    (w0 : W) (h0 : Inv3 g sem T w0) (ops : List WOp) (hv : ValidW g sem T w0 ops)
    (c : Name) (u : Target) (hu : u ∈ unitsOf g T c) :
    let w := runW g sem.outs w0 ops
    Fresh sem w c u ∨ (c, u) ∈ w.dirty ∨ ((c, u) ∈ w.s.inflight ∧ (c, u) ∉ keys w.done) ∨
      u ∈ (w.s.node c).todo ∨ Caused g w c u :=
  (runW_inv3 g sem T w0 ops hs h0 hv).main c u hu

/-- The clause, from any state satisfying the invariant. -/
theorem quiescent_fresh_from (g : Graph) (sem : Sem) (T : List Target) (order : List Name)
    (hs : SemOk g T sem) (htopo : Topo g sem order)
    (w0 : W) (h0 : Inv3 g sem T w0) (ops : List WOp) (hv : ValidW g sem T w0 ops)
    (hq : Quiet (runW g sem.outs w0 ops)) (st0 : Val → Target → Content) :
    ∀ c ∈ order, ∀ u ∈ unitsOf g T c, ∀ v ∈ sem.outs c,
      (runW g sem.outs w0 ops).store v u =
        scratch g T sem.outs sem.F (runW g sem.outs w0 ops).source order st0 v u := by
  have hinv := runW_inv3 g sem T w0 ops hs h0 hv
  have hfresh := quiet_fresh g sem T _ hinv hq
  exact fresh_unique g T sem hs (runW g sem.outs w0 ops).source
    (runW g sem.outs w0 ops).store _ order htopo
    (fun c _ u hu => hfresh c u hu)
    (scratch_fresh g T sem hs _ order st0 htopo)

/-- The clause as stated: start from an idle scheduler on ANY store contents, request every
    algorithm for every target; then after every valid history that ends quiescent, the store
    holds exactly the results of a from-scratch run in dependency order (started from any
    store `st0`) — for every value of every task on every target and of every analysis. -/
theorem quiescent_fresh (g : Graph) (sem : Sem) (T : List Target) (names order : List Name)
    (hs : SemOk g T sem) (hT : ALL ∉ T) (hall : ∀ c, c ∉ names → sem.outs c = [])
    (htopo : Topo g sem order)
    (source : Name → Target → Content) (store : Val → Target → Content) (seen : List Content)
    (ops : List WOp) (hv : ValidW g sem T (requested g T names source store seen) ops)
    (hq : Quiet (runW g sem.outs (requested g T names source store seen) ops))
    (st0 : Val → Target → Content) :
    ∀ c ∈ order, ∀ u ∈ unitsOf g T c, ∀ v ∈ sem.outs c,
      (runW g sem.outs (requested g T names source store seen) ops).store v u =
        scratch g T sem.outs sem.F
          (runW g sem.outs (requested g T names source store seen) ops).source order st0 v u :=
  quiescent_fresh_from g sem T order hs htopo _
    (requested_inv3 g sem T names hT hall source store seen) ops hv hq st0

/-- ... and nothing runs without a cause afterwards: at quiescence a dispatch tick releases
    nothing and leaves the whole world as it is (so the store stays equal to the from-scratch
    result until new source data or a request arrives). -/
theorem quiet_dispatch_noop (g : Graph) (outs : Name → List Val) (w : W) (hq : Quiet w) :
    (dispatch g w.s).2 = [] ∧ (stepW g outs w (.sched .dispatch)).s = w.s ∧
    (stepW g outs w (.sched .dispatch)).store = w.store := by
  obtain ⟨hque, _, _⟩ := hq
  have h1 : dispatch g w.s = (w.s, []) := by
    unfold dispatch
    split
    · rfl
    · simp [hque, releaseAll, dedupNames, byLevel]
  refine ⟨by rw [h1], ?_, rfl⟩
  simp only [stepW, step, h1]

/-- The from-scratch result does not depend on what was in the store before. -/
theorem scratch_independent (g : Graph) (sem : Sem) (T : List Target) (hs : SemOk g T sem)
    (order : List Name) (htopo : Topo g sem order) (source : Name → Target → Content)
    (st0 st1 : Val → Target → Content) :
    ∀ c ∈ order, ∀ u ∈ unitsOf g T c, ∀ v ∈ sem.outs c,
      scratch g T sem.outs sem.F source order st0 v u =
        scratch g T sem.outs sem.F source order st1 v u :=
  fresh_unique g T sem hs source _ _ order htopo
    (scratch_fresh g T sem hs source order st0 htopo)
    (scratch_fresh g T sem hs source order st1 htopo)

/-- Run ids (the repaired decision of `schedule.organize`): a node that still has pending work
    and is organised again — by a report carrying run id `a` while it is set to run as `b` —
    runs as the newer of the two, never as the older. -/
theorem pending_keeps_newest_run (g : Graph) (s : St) (names : List Name) (a b : Nat)
    (targets : List Target) (m : Name) (hm : m ∈ names) (ht : (s.node m).todo ≠ [])
    (hb : (s.node m).runid = some b) :
    ((organize g s names (some a) targets).node m).runid = some (max a b) := by
  rw [organize_node]
  exact (orgFold_runid g s.targets targets a names s.node m b hm ht hb).1

/-- ... and a request for a fresh run id is never overridden by a report while the work is
    pending (one located node). -/
theorem pending_fresh_request_stays (g : Graph) (all targets : List Target) (rid : Option Nat)
    (n : Name) (nd : Node) (ht : nd.todo ≠ []) (hb : nd.runid = none) :
    (organizeNode g all targets rid n nd).runid = none := by
  simp only [organizeNode, mergeRid, hb]
  cases h : nd.todo with
  | nil => exact absurd h ht
  | cons _ _ => cases rid <;> simp

/-! non-vacuity: the chain 0 → 1 (node 0 writes value 10 from its source data, node 1 writes
    value 11 from value 10), target 1.  Full request, both units run, the source data of node 0
    changes, node 0 is re-run, node 1 follows because value 10 was reported new. -/

def g2 : Graph :=
  { kind := fun _ => .task
    children := fun n => if n = 0 then [1] else []
    desc := fun n => if n = 0 then [0, 1] else [n]
    ancestry := fun n => if n = 1 then [0] else []
    consumes := fun n => if n = 1 then [10] else []
    feedbackTo := fun _ => none
    level := fun n => n }

def sem2 : Sem :=
  { outs := fun n => if n = 0 then [10] else if n = 1 then [11] else []
    prodA := fun _ => false
    F := fun x u src rd _ => if x = 0 then src + 1 else if x = 1 then 2 * rd 10 u + 1 else 0 }

theorem sem2_ok : SemOk g2 [1] sem2 := by
  refine ⟨?_, ?_, ?_, ?_, ?_⟩
  · intro x u src r r' h v
    by_cases hx : x = 0
    · simp [sem2, hx]
    · by_cases h1 : x = 1
      · subst h1
        have := h 10 (by simp [g2]) u (by simp [readsT, sem2, g2])
        simp [sem2, this]
      · simp [sem2, hx, h1]
  · intro x y v hx hy
    simp only [sem2] at hx hy
    by_cases hx0 : x = 0 <;> by_cases hx1 : x = 1 <;> by_cases hy0 : y = 0 <;>
      by_cases hy1 : y = 1 <;> simp_all
  · intro x v hv
    simp only [sem2, g2] at *
    by_cases hx0 : x = 0 <;> by_cases hx1 : x = 1 <;> simp_all
  · intro x c v hv hc
    simp only [sem2, g2] at *
    by_cases hx0 : x = 0 <;> by_cases hx1 : x = 1 <;> by_cases hc1 : c = 1 <;> simp_all
  · intro x v _; simp [sem2, g2]

example : Topo g2 sem2 [0, 1] := by
  simp [Topo, TopoFrom, g2, sem2]

def w2 : W := requested g2 [1] [0, 1] (fun _ _ => 5) (fun _ _ => 0) []

def ops2 : List WOp :=
  [ .sched .dispatch, .read 0 1 (fun _ _ => 0), .write 0 1 (fun _ => 6), .reply 0 1 7,
    .sched .dispatch, .read 1 1 (fun _ _ => 6), .write 1 1 (fun _ => 13), .reply 1 1 8,
    .poke 0 1 9, .sched (.organize [0] none [1]),
    .sched .dispatch, .read 0 1 (fun _ _ => 0), .write 0 1 (fun _ => 10), .reply 0 1 9,
    .sched .dispatch, .read 1 1 (fun _ _ => 10), .write 1 1 (fun _ => 21), .reply 1 1 10 ]

/-- the history meets every hypothesis of the theorem (workers follow the protocol, store what
    the algorithms compute, and every changed content is novel) -/
example : ValidW g2 sem2 [1] w2 ops2 := by decide +kernel

/-- the end state is quiescent, node 1 was re-run by the report alone, and the store holds the
    from-scratch results for the new source data -/
example :
    let w := runW g2 sem2.outs w2 ops2
    w.s.que = [] ∧ w.s.inflight = [] ∧ w.dirty = [] ∧ w.done = [] ∧
    w.store 10 1 = 10 ∧ w.store 11 1 = 21 ∧
    scratch g2 [1] sem2.outs sem2.F w.source [0, 1] (fun _ _ => 0) 10 1 = 10 ∧
    scratch g2 [1] sem2.outs sem2.F w.source [0, 1] (fun _ _ => 0) 11 1 = 21 := by
  decide +kernel

/-- halfway (node 0 has stored its new result, the report is still on its way) node 1 is stale
    and exactly the `Caused` disjunct of the invariant holds for it -/
example :
    let w := runW g2 sem2.outs w2 (ops2.take 13)
    w.store 10 1 = 10 ∧ w.store 11 1 = 13 ∧ (w.s.node 1).todo = [] ∧
    w.done = [((0, 1), [10])] ∧ dependents g2 0 [10] = [1] ∧ wanted g2 w.s.targets [1] 1 = [1] := by
  decide +kernel

/-! The premise is needed: the source data of node 0 goes back to its first value, node 0 writes
    content 6 again, whose digest is already in the store, so the value is not reported new,
    node 1 is not re-run and the quiescent store differs from a from-scratch run.  Exactly the
    `Novel` hypothesis of that write fails (the history is valid up to it). -/
def ops3 : List WOp :=
  ops2 ++ [ .poke 0 1 5, .sched (.organize [0] none [1]), .sched .dispatch,
            .read 0 1 (fun _ _ => 0), .write 0 1 (fun _ => 6), .reply 0 1 11 ]

example :
    let w := runW g2 sem2.outs w2 ops3
    w.s.que = [] ∧ w.s.inflight = [] ∧ w.dirty = [] ∧ w.done = [] ∧
    w.store 10 1 = 6 ∧ w.store 11 1 = 21 ∧
    scratch g2 [1] sem2.outs sem2.F w.source [0, 1] (fun _ _ => 0) 11 1 = 13 ∧
    ValidW g2 sem2 [1] w2 (ops3.take 22) ∧ ¬ ValidW g2 sem2 [1] w2 (ops3.take 23) ∧
    novelB (sem2.outs 0) (runW g2 sem2.outs w2 (ops3.take 22)) 1 (fun _ => 6) = false := by
  decide +kernel

/-! non-vacuity with an analysis: task 0 (per target) → analysis 1 (over both targets, result
    under the all-targets marker) → task 2 (per target, reads the analysis).  New source data
    for task 0 on target 2 only: the analysis is re-run, and then task 2 on BOTH targets. -/
def g3 : Graph :=
  { kind := fun n => if n = 1 then .analysis else .task
    children := fun n => if n = 0 then [1] else if n = 1 then [2] else []
    desc := fun n => if n = 0 then [0, 1, 2] else if n = 1 then [1, 2] else [n]
    ancestry := fun n => if n = 1 then [0] else if n = 2 then [0, 1] else []
    consumes := fun n => if n = 1 then [10] else if n = 2 then [11] else []
    feedbackTo := fun _ => none
    level := fun n => n }

def sem3 : Sem :=
  { outs := fun n => if n = 0 then [10] else if n = 1 then [11] else if n = 2 then [12] else []
    prodA := fun v => v == 11
    F := fun x u src rd _ =>
      if x = 0 then src + 1 else if x = 1 then rd 10 1 + rd 10 2 else if x = 2 then 2 * rd 11 ALL + u
      else 0 }

theorem sem3_ok : SemOk g3 [1, 2] sem3 := by
  refine ⟨?_, ?_, ?_, ?_, ?_⟩
  · intro x u src r r' h v
    by_cases hx : x = 0
    · simp [sem3, hx]
    · by_cases h1 : x = 1
      · subst h1
        have a := h 10 (by simp [g3]) 1 (by simp [readsT, sem3, g3])
        have b := h 10 (by simp [g3]) 2 (by simp [readsT, sem3, g3])
        simp [sem3, a, b]
      · by_cases h2 : x = 2
        · subst h2
          have a := h 11 (by simp [g3]) ALL (by simp [readsT, sem3, g3])
          simp [sem3, a]
        · simp [sem3, hx, h1, h2]
  · intro x y v hx hy
    simp only [sem3] at hx hy
    by_cases hx0 : x = 0 <;> by_cases hx1 : x = 1 <;> by_cases hx2 : x = 2 <;>
      by_cases hy0 : y = 0 <;> by_cases hy1 : y = 1 <;> by_cases hy2 : y = 2 <;> simp_all
  · intro x v hv
    simp only [sem3, g3] at *
    by_cases hx0 : x = 0 <;> by_cases hx1 : x = 1 <;> by_cases hx2 : x = 2 <;> simp_all
  · intro x c v hv hc
    simp only [sem3, g3] at *
    by_cases hx0 : x = 0 <;> by_cases hx1 : x = 1 <;> by_cases hx2 : x = 2 <;>
      by_cases hc1 : c = 1 <;> by_cases hc2 : c = 2 <;> simp_all
  · intro x v hv
    simp only [sem3, g3] at *
    by_cases hx0 : x = 0 <;> by_cases hx1 : x = 1 <;> by_cases hx2 : x = 2 <;> simp_all

def w3 : W := requested g3 [1, 2] [0, 1, 2] (fun _ t => 5 + 10 * t) (fun _ _ => 0) []

def snap3 (a b c : Content) : Val → Target → Content :=
  fun v t => if v = 10 ∧ t = 1 then a else if v = 10 ∧ t = 2 then b else if v = 11 ∧ t = ALL then c else 0

def ops3a : List WOp :=
  [ .sched .dispatch,
    .read 0 1 (snap3 0 0 0), .write 0 1 (fun _ => 16), .reply 0 1 1,
    .read 0 2 (snap3 16 0 0), .write 0 2 (fun _ => 26), .reply 0 2 1,
    .sched .dispatch,
    .read 1 ALL (snap3 16 26 0), .write 1 ALL (fun _ => 42), .reply 1 ALL 2,
    .sched .dispatch,
    .read 2 1 (snap3 16 26 42), .write 2 1 (fun _ => 85), .reply 2 1 3,
    .read 2 2 (snap3 16 26 42), .write 2 2 (fun _ => 86), .reply 2 2 3,
    .poke 0 2 30, .sched (.organize [0] none [2]), .sched .dispatch,
    .read 0 2 (snap3 16 26 42), .write 0 2 (fun _ => 31), .reply 0 2 4,
    .sched .dispatch,
    .read 1 ALL (snap3 16 31 42), .write 1 ALL (fun _ => 47), .reply 1 ALL 5,
    .sched .dispatch,
    .read 2 2 (snap3 16 31 47), .write 2 2 (fun _ => 96), .reply 2 2 6,
    .read 2 1 (snap3 16 31 47), .write 2 1 (fun _ => 95), .reply 2 1 6 ]

example : Topo g3 sem3 [0, 1, 2] := by simp [Topo, TopoFrom, g3, sem3]

example : ValidW g3 sem3 [1, 2] w3 ops3a := by decide +kernel

example :
    let w := runW g3 sem3.outs w3 ops3a
    w.s.que = [] ∧ w.s.inflight = [] ∧ w.dirty = [] ∧
    w.store 11 ALL = 47 ∧ w.store 12 1 = 95 ∧ w.store 12 2 = 96 ∧
    scratch g3 [1, 2] sem3.outs sem3.F w.source [0, 1, 2] (fun _ _ => 0) 12 1 = 95 ∧
    scratch g3 [1, 2] sem3.outs sem3.F w.source [0, 1, 2] (fun _ _ => 0) 11 ALL = 47 := by
  decide +kernel

/-- a later report of an older run (3) does not move the pending node back from run 7 -/
example :
    let s := organize g2 (St.init [1]) [1] (some 7) [1]
    (s.node 1).runid = some 7 ∧ ((organize g2 s [1] (some 3) [1]).node 1).runid = some 7 := by
  decide +kernel

end DawgieVerif.C02
