/-
C05 (and the reply step of C01–C04), tie by translation: the node-local bodies of
`schedule.complete` and `schedule._purge`, regenerated from their source on every run
(`Generated/SchedGen.lean`), ARE `completeNode` / `purgeNode` of the hand-written scheduler model
the containment theorems are about.  (`_purge`'s recursion over the children and the `_prune()`
calls are shape-checked by the translator; the model's `purge` applies `purgeNode` to every
descendant and prunes.)
-/
import DawgieVerif.Generated.SchedGen

namespace DawgieVerif.C05
open DawgieVerif.Sched DawgieVerif.Generated

private theorem filter_ne_of_not_mem (l : List Target) (t : Target) (h : t ∉ l) :
    l.filter (fun u => u != t) = l := by
  apply List.filter_eq_self.mpr
  intro a ha
  simp only [bne_iff_ne, ne_eq]
  rintro rfl
  exact h ha

/-- the regenerated body of `_purge` is the model's `purgeNode`, for every node and target -/
theorem purgeNode_is_model (t : Target) (nd : Node) : SchedGen.purgeNode t nd = purgeNode t nd := by
  cases nd with
  | mk todo doing do_ status runid =>
    simp only [SchedGen.purgeNode, purgeNode, Node.running]
    by_cases h1 : t ∈ do_ <;> by_cases h2 : t ∈ doing <;> by_cases h3 : t ∈ todo <;>
      cases status <;> simp [h1, h2, h3, filter_ne_of_not_mem]

/-- the regenerated node part of `schedule.complete` is the model's `completeNode` -/
theorem completeNode_is_model (t : Target) (nd : Node) :
    SchedGen.completeNode t nd = completeNode t nd := by
  cases nd with
  | mk todo doing do_ status runid =>
    simp only [SchedGen.completeNode, completeNode]
    by_cases ht : t = ALL
    · simp [ht]
    · by_cases h2 : t ∈ doing <;> simp [ht, h2, filter_ne_of_not_mem] <;> split <;> rfl

/-! non-vacuity: the two definitions do something on a node that executes and awaits `t = 3` -/
example : purgeNode 3 ⟨[3, 4], [3], [3], .waiting, none⟩ = ⟨[4], [], [], .waiting, none⟩ := by decide
example : purgeNode 3 ⟨[3, 4], [3], [3], .running, none⟩ = ⟨[4], [3], [], .running, none⟩ := by decide
example : completeNode 3 ⟨[4], [3], [], .running, none⟩ = ⟨[4], [], [], .waiting, none⟩ := by decide

end DawgieVerif.C05
