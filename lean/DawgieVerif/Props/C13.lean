/-
C13 — the database lock is exclusive, survives client crashes, is eventually granted.

Model: `Model/Lock.lean` (`dawgie.context.db_lock` + the flags of every `comms.Worker`).
All theorems quantify over every list of events (acquire, poll, release, disconnect, delayed
stop) on any number of connections; none needs the client protocol as a hypothesis unless it
says so.  `Props/C13Live.lean` holds the statement over infinite fair schedules.
-/
import DawgieVerif.Proofs.Lock

namespace DawgieVerif.C13
open DawgieVerif.Lock
open DawgieVerif.Generated.Lock

/-- **Mutual exclusion.**  In every reachable state at most one connection owns the lock, and
    the lock bit is set exactly when some connection owns it. -/
theorem mutex (ops : List Op) :
    (∀ c d, holds (run init ops) c → holds (run init ops) d → c = d) ∧
    ((run init ops).lock = true ↔ ∃ c, holds (run init ops) c) := by
  have h := inv_run inv_init ops
  exact ⟨h.uniq, h.lockHolder, fun ⟨c, hc⟩ => h.holderLock c hc⟩

/-- The same, counted: among any duplicate-free list of connections at most one owns the lock. -/
theorem mutex_count (ops : List Op) (cs : List Nat) (hnd : cs.Nodup) :
    (cs.filter (fun c => ((run init ops).conn c).hasLock)).length ≤ 1 := by
  have h := inv_run inv_init ops
  generalize run init ops = s at h
  induction cs with
  | nil => simp
  | cons a cs ih =>
    have hnd' := (List.nodup_cons.mp hnd)
    cases ha : (s.conn a).hasLock with
    | false => simp only [List.filter_cons, ha]; exact ih hnd'.2
    | true =>
      have : cs.filter (fun c => (s.conn c).hasLock) = [] := by
        rw [List.filter_eq_nil_iff]
        intro b hb hbl
        have := h.uniq a b ha hbl
        subst this
        exact hnd'.1 hb
      simp [ha, this]

/-- non-vacuity: two connections ask, the first is granted, the second is not; after the hand-off
    the second owns the lock -/
example :
    let s := run init [.acquire 0 true, .acquire 1 true, .tick 1]
    holds s 0 ∧ ¬ holds s 1 ∧ s.lock = true := by decide
example :
    let s := run init [.acquire 0 true, .acquire 1 true, .release 0 true, .tick 1]
    holds s 1 ∧ ¬ holds s 0 ∧ s.lock = true := by decide

/-- **Told only when true.**  From any state, an event that sends a connection the status the
    blocking client waits for ("the lock is yours") leaves that connection owner of the lock,
    with the lock bit set. -/
theorem told_true (s : St) (op : Op) (h : yours ∈ (step s op).2.msgs) :
    holds (step s op).1 op.client ∧ (step s op).1.lock = true :=
  step_told h

/-- Conversely a connection becomes owner only in an event of its own in which it is told so. -/
theorem granted_is_told (s : St) (op : Op) (c : Nat) (h0 : ¬ holds s c)
    (h1 : holds (step s op).1 c) : toldYours c (op, (step s op).2) := by
  have h0' : (s.conn c).hasLock = false := by
    cases hh : (s.conn c).hasLock with
    | false => rfl
    | true => exact absurd hh h0
  exact step_new_owner h0' h1

/-- While the lock is taken a polling waiter is sent the other status, nothing changes. -/
theorem denied_when_held (s : St) (c : Nat) (hl : s.lock = true) (hw : waiting s c) :
    step s (.tick c) = (s, { msgs := [.status (statusOf true)] }) ∧
    Msg.status (statusOf true) ≠ yours := by
  refine ⟨?_, deny_ne_yours⟩
  simp only [step, hw.1, if_true, poll_deny hw.2.1 hw.2.2 hl]

example : yours ∈ (step init (.acquire 3 false)).2.msgs := by decide
example : let s := run init [.acquire 0 true, .acquire 1 true]
    s.lock = true ∧ waiting s 1 := by decide

/-- **Crash release.**  When the connection of `c` drops in any reachable state: `c` no longer
    owns the lock; if it owned it the lock is free; and whatever happens afterwards `c` is never
    owner again and is never sent "yours". -/
theorem crash_release (ops : List Op) (c : Nat) :
    let s := run init ops
    let s' := (step s (.disconnect c)).1
    ¬ holds s' c ∧ (holds s c → s'.lock = false) ∧
    ∀ ops', ¬ holds (run s' ops') c ∧ ∀ e ∈ trace s' ops', ¬ toldYours c e := by
  intro s s'
  have hd : Dead s' c := lost_dead s c
  refine ⟨by unfold holds; rw [hd.2]; simp, ?_, ?_⟩
  · intro hh
    show (connectionLost s c).lock = false
    rw [connectionLost_eq]
    unfold holds at hh
    simp [hh]
  · intro ops'
    obtain ⟨hd', hn⟩ := dead_run hd ops'
    exact ⟨by unfold holds; rw [hd'.2]; simp, hn⟩

/-- A waiter that drops abandons its request: from then on each of its polls is a no-op that
    writes nothing (the poller itself is stopped by the delayed stop, see `stop_never_fails`). -/
theorem crash_abandons (s : St) (c : Nat) (hl : (s.conn c).lost = true) :
    step s (.tick c) = (s, {}) := by
  simp only [step]
  split
  · rw [poll_silent (Or.inr hl)]
  · rfl

/-- The drop of a connection does not disturb the others: their records are unchanged, and the
    lock bit changes only if the dropped connection owned the lock. -/
theorem crash_keeps_others (s : St) (c : Nat) :
    (∀ d, d ≠ c → ((step s (.disconnect c)).1.conn d) = s.conn d) ∧
    (¬ holds s c → (step s (.disconnect c)).1.lock = s.lock) := by
  refine ⟨fun d hd => step_other s _ (by simpa [Op.client] using hd), ?_⟩
  intro hh
  show (connectionLost s c).lock = s.lock
  rw [connectionLost_eq]
  unfold holds at hh
  simp [hh]

/-- non-vacuity: the owner drops while another waits; the waiter is granted at its next poll;
    the dropped connection polls in vain -/
example :
    let s := run init [.acquire 0 true, .acquire 1 true, .disconnect 0, .tick 0, .tick 1]
    holds s 1 ∧ ¬ holds s 0 := by decide
example :
    let s := run init [.acquire 0 true, .acquire 1 true, .disconnect 1, .release 0 true, .tick 1]
    s.lock = false ∧ ¬ holds s 1 := by decide

/-- **Granted when free.**  From any state: if the lock is free, the poll of a live waiter
    makes it owner, sets the lock bit and sends it exactly "yours". -/
theorem granted_when_free (s : St) (c : Nat) (hf : s.lock = false) (hw : waiting s c) :
    let r := step s (.tick c)
    holds r.1 c ∧ r.1.lock = true ∧ r.2.msgs = [yours] ∧ r.2.err = .none := by
  intro r
  have : r = _ := tick_grants hf hw
  rw [this]
  simp [holds]

/-- A request on a fresh, live connection while the lock is free is granted at once (Twisted
    runs the first poll inside `LoopingCall.start`). -/
theorem acquire_when_free (s : St) (c : Nat) (w : Bool) (hf : s.lock = false)
    (hr : (s.conn c).running = false) (hs : (s.conn c).stopped = false)
    (hl : (s.conn c).lost = false) :
    let r := step s (.acquire c w)
    holds r.1 c ∧ r.1.lock = true ∧ r.2.msgs = [yours] ∧ r.2.err = .none := by
  intro r
  have hp := poll_grant (s := ⟨s.lock, upd s.conn c { s.conn c with running := true }⟩) (c := c)
    (by simpa using hs) (by simpa using hl) hf
  simp only [r, step, hr, Bool.false_eq_true, if_false, hp]
  simp [holds]

example : let s := run init [.acquire 0 true, .acquire 1 true, .release 0 true]
    s.lock = false ∧ waiting s 1 := by decide

/-- **No starvation (the form of DESIGN 7/C13).**  In a reachable state with the lock free and
    `c` a live waiter: after any events that are not polls and do not drop `c` (releases by
    anybody, drops of other connections, delayed stops), the next poll of `c` is a grant.
    Hence whenever the lock is free the first waiter to poll is granted. -/
theorem no_starvation (pre : List Op) (c : Nat)
    (hf : (run init pre).lock = false) (hw : waiting (run init pre) c)
    (ops : List Op) (hq : ∀ op ∈ ops, Quiet c op) :
    let r := step (run (run init pre) ops) (.tick c)
    holds r.1 c ∧ r.1.lock = true ∧ r.2.msgs = [yours] := by
  intro r
  have hi := inv_run inv_init pre
  obtain ⟨hf', hw'⟩ := quiet_run hi hf hw ops hq
  have := granted_when_free _ c hf' hw'
  exact ⟨this.1, this.2.1, this.2.2.1⟩

/-- Once the owner releases or dies the lock is free, so (by `no_starvation`) the next waiter to
    poll is granted: the owner `d` leaves, other non-poll events happen, `c` polls and owns. -/
theorem release_then_granted (pre : List Op) (c d : Nat) (hd : holds (run init pre) d)
    (hw : waiting (run init pre) c) (op : Op)
    (hop : (∃ w, op = .release d w) ∨ op = .disconnect d)
    (ops : List Op) (hq : ∀ op ∈ ops, Quiet c op) :
    let r := step (run (run init pre) (op :: ops)) (.tick c)
    holds r.1 c ∧ r.1.lock = true ∧ r.2.msgs = [yours] := by
  intro r
  have hi := inv_run inv_init pre
  have hcd : c ≠ d := by
    intro hcd; subst hcd
    have := (hi.holderFlags c hd).1
    rw [hw.2.1] at this; cases this
  obtain ⟨hfree, hsame⟩ := owner_leaves hd hop
  have hw1 : waiting (step (run init pre) op).1 c := by
    unfold waiting; rw [hsame c hcd]; exact hw
  obtain ⟨hf', hw'⟩ := quiet_run (inv_step hi op) hfree hw1 ops hq
  have := granted_when_free _ c hf' hw'
  exact ⟨this.1, this.2.1, this.2.2.1⟩

example : Quiet 1 (.release 0 true) ∧ Quiet 1 (.stopTimer 0) ∧ Quiet 1 (.disconnect 0) ∧
    ¬ Quiet 1 (.disconnect 1) := by decide
example :
    let s := run init [.acquire 0 true, .acquire 1 true, .acquire 2 false, .release 0 true,
      .stopTimer 0, .disconnect 0, .tick 2]
    holds s 2 ∧ waiting s 1 := by decide

/-- The delayed `LoopingCall.stop` never hits its assertion, for any event list: a stop is
    outstanding only while the poller runs (so a dropped waiter's poller is stopped). -/
theorem stop_never_fails (ops : List Op) (c : Nat) :
    (step (run init ops) (.stopTimer c)).2.err = .none ∧
    ((step (run init ops) (.stopTimer c)).1.conn c).pending = 0 ∧
    (((run init ops).conn c).pending ≠ 0 →
      ((step (run init ops) (.stopTimer c)).1.conn c).running = false) := by
  have h := (inv_run inv_init ops).pend c
  generalize run init ops = s at h ⊢
  by_cases h0 : (s.conn c).pending = 0
  · simp [step, h0]
  · have h1 : (s.conn c).pending = 1 := by omega
    have hr := (h.2 h1).1
    simp [step, h1, hr]

example : ((run init [.acquire 0 true, .disconnect 0]).conn 0).pending = 1 := by decide

/-- **Malformed stream, branch 1.**  A second `acquire` on a connection whose poller runs is
    rejected by the assertion of `LoopingCall.start`; the lock state is untouched. -/
theorem second_acquire_rejected (s : St) (c : Nat) (w : Bool) (hr : (s.conn c).running = true) :
    (step s (.acquire c w)).1 = s ∧ (step s (.acquire c w)).2.err = .startRunning ∧
    (step s (.acquire c w)).2.msgs = [] := by
  simp [step, hr]

/-- **Malformed stream, branch 2.**  A `release` by a connection that does not own the lock is
    answered `False` and changes nothing (over the wire the connection is closed). -/
theorem release_by_nonholder (s : St) (c : Nat) (w : Bool) (hh : ¬ holds s c) :
    step s (.release c w) = (s, { msgs := [.reply false], close := w }) := by
  unfold holds at hh
  simp [step, doRelease, hh, reply_free, closes_release]

/-- **Malformed stream, branch 3.**  An `acquire` on a connection whose poller has been told to
    stop (it was granted before, or it dropped) or that has dropped restarts the poller but is
    never answered and never granted. -/
theorem acquire_after_stop_silent (s : St) (c : Nat) (w : Bool) (hr : (s.conn c).running = false)
    (hs : (s.conn c).stopped = true ∨ (s.conn c).lost = true) :
    (step s (.acquire c w)).2.msgs = [] ∧ (step s (.acquire c w)).1.lock = s.lock ∧
    ((step s (.acquire c w)).1.conn c).hasLock = (s.conn c).hasLock := by
  simp only [step, hr, Bool.false_eq_true, if_false]
  rw [poll_silent (by simpa using hs)]
  simp

example : (step (run init [.acquire 0 true]) (.acquire 0 true)).2.err = .startRunning := by decide
example : (step (run init [.acquire 0 true]) (.release 1 true)).2.msgs = [.reply false] := by
  decide

/-- **Well-formed streams raise nothing.**  If every connection sends at most one `acquire` and
    `release` is sent only by the connection that owns the lock (i.e. that was told so,
    `told_true`/`granted_is_told`), then no event raises, and every release is answered `True`
    and frees the lock. -/
theorem wellformed_no_error (ops : List Op)
    (hacq : ∀ c, ops.countP (isAcq c) ≤ 1)
    (hrel : ∀ pre c w post, ops = pre ++ .release c w :: post → holds (run init pre) c) :
    ∀ e ∈ trace init ops, e.2.err = .none ∧
      (∀ c w, e.1 = .release c w → e.2.msgs = [.reply true]) := by
  have gen : ∀ (ops : List Op) (s : St), Inv s →
      (∀ c, ops.countP (isAcq c) ≤ 1) →
      (∀ c w, Op.acquire c w ∈ ops → (s.conn c).running = false) →
      (∀ pre c w post, ops = pre ++ .release c w :: post → holds (run s pre) c) →
      ∀ e ∈ trace s ops, e.2.err = .none ∧
        (∀ c w, e.1 = .release c w → e.2.msgs = [.reply true]) := by
    intro ops
    induction ops with
    | nil => intro s _ _ _ _ e he; simp [trace] at he
    | cons op ops ih =>
      intro s hi hacq hrun hrel e he
      simp only [trace, List.mem_cons] at he
      rcases he with rfl | he
      · -- the head event
        cases op with
        | acquire c w =>
          have hr := hrun c w (by simp)
          refine ⟨by simp [step, hr], fun c' w' h => by cases h⟩
        | tick c =>
          refine ⟨?_, fun c' w' h => by cases h⟩
          simp only [step]; split <;> rfl
        | release c w =>
          have hh : holds s c := hrel [] c w ops rfl
          unfold holds at hh
          refine ⟨by simp [step], fun c' w' h => ?_⟩
          cases h
          simp [step, doRelease, hh, reply_held]
        | disconnect c => exact ⟨rfl, fun c' w' h => by cases h⟩
        | stopTimer c =>
          refine ⟨?_, fun c' w' h => by cases h⟩
          have hp := hi.pend c
          simp only [step]
          split
          · rfl
          · rename_i hne
            have h1 : (s.conn c).pending = 1 := by omega
            simp [(hp.2 h1).1]
      · -- the tail
        apply ih (step s op).1 (inv_step hi op)
        · intro c
          have := hacq c
          rw [List.countP_cons] at this
          omega
        · intro c w hmem
          have hcnt := hacq c
          rw [List.countP_cons] at hcnt
          have hpos : 0 < ops.countP (isAcq c) :=
            List.countP_pos_iff.mpr ⟨_, hmem, by simp [isAcq]⟩
          have hop : isAcq c op = false := by
            cases hx : isAcq c op with
            | false => rfl
            | true =>
              rw [hx] at hcnt
              have h1 : (if true = true then 1 else 0) = 1 := rfl
              rw [h1] at hcnt; omega
          have hr : (s.conn c).running = false := by
            exact hrun c w (by simp [hmem])
          exact running_mono hop hr
        · intro pre c w post hops
          have := hrel (op :: pre) c w post (by simp [hops])
          simpa [run] using this
        · exact he
  exact gen ops init inv_init hacq (fun _ _ _ => rfl) hrel

/-- non-vacuity: a complete two-client hand-off obeys the protocol -/
example : ∀ e ∈ trace init [.acquire 0 true, .acquire 1 true, .release 0 true, .disconnect 0,
    .stopTimer 0, .tick 1, .release 1 true], e.2.err = .none := by decide

end DawgieVerif.C13
