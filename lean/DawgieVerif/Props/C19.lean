/-
C19 (first half) — no request path can make the static file service return a file outside the
configured site roots.  Access decision theorems: `Props/C19Sanction.lean`.

`World` (see `Model/Static.lean`) is an arbitrary oracle for `Path.resolve`, `is_dir`, `is_file`
and `is_relative_to`: the statements hold for every file system, every symlink layout, every
request string and any number of roots.
-/
import DawgieVerif.Proofs.Static

namespace DawgieVerif.C19
open DawgieVerif.Static

variable {Root Req Path : Type}

/-- Whenever `_static` returns the content of a path `p`, there is a configured root `d` such
    that `p` is exactly the final, fully resolved path computed for `d` (after the
    `index.html` step and its second `resolve`) and that very `p` passed
    `is_relative_to(d)`; nothing is appended or resolved between the check and `open(p)`. -/
theorem served_within (w : World Root Req Path) (roots : List Root) (fn : Req) (p : Path)
    (h : static w roots fn = .served p) :
    ∃ d ∈ roots, candidate w d fn = .ok p ∧ w.within p d = true
      ∧ w.isFile p = some true ∧ w.isFileAgain p = some true := by
  obtain ⟨hs, hf2⟩ := static_served w roots fn p h
  obtain ⟨d, hd, hc, hw, hf⟩ := scan_found w fn roots none p hs
  exact ⟨d, hd, hc, hw, hf, hf2⟩

/-- Contrapositive, as the property words it: a request whose resolved target lies outside
    every root (for each root, whatever the candidate is, it is not relative to that root)
    is never answered with file content. -/
theorem escape_never_served (w : World Root Req Path) (roots : List Root) (fn : Req)
    (hout : ∀ d ∈ roots, ∀ q, candidate w d fn = .ok q → w.within q d = false) (p : Path) :
    static w roots fn ≠ .served p := by
  intro h
  obtain ⟨d, hd, hc, hw, _⟩ := served_within w roots fn p h
  have := hout d hd p hc
  simp [hw] at this

/-- Down to the file that is really read: if `resolve` returns real locations (L1) and the
    lexical test is containment on real locations (L2), the location the operating system reads
    for a served path is inside a configured root. -/
theorem served_really_inside (w : World Root Req Path) (t : Truth Root Path)
    (h1 : ResolveCanonical w t) (h2 : WithinSound w t)
    (roots : List Root) (fn : Req) (p : Path) (h : static w roots fn = .served p) :
    ∃ d ∈ roots, t.inside (t.real p) d = true := by
  obtain ⟨d, hd, hc, hw, _⟩ := served_within w roots fn p h
  have hreal := candidate_canonical w t h1 d fn p hc
  exact ⟨d, hd, by rw [hreal]; exact h2 p d hreal hw⟩

/-- L1 is necessary, and it is the law CPython 3.12 breaks when a request path crosses a
    symlink loop with a NON-strict resolve (`(fe/'loop/../out').resolve()` returns `fe/out`,
    still a symlink): with L2 intact and the control flow of `_static` unchanged, a file outside
    every root is read.  This is why the code resolves with `strict=True` (a loop then raises
    and the root is skipped); the harness keeps the loop shapes in its corpus and reports the
    escape under the signature `C19:static-escape:symlink-loop`. -/
theorem half_resolved_path_escapes :
    ∃ (w : World Nat Nat Nat) (t : Truth Nat Nat) (fn p : Nat),
      WithinSound w t ∧ static w [0, 1] fn = .served p ∧ ∀ d ∈ [0, 1], t.inside (t.real p) d = false :=
  ⟨quirk, quirkTruth, 0, 0, by intro p d h; simp [quirkTruth] at h; simp [quirk, ← h], by decide, by decide⟩

/-- The first file opened by a call is inside a root; further files opened by the
    style-sheet inlining of the deprecated site are a function of the served file (and `bdir`)
    only — two different requests that are answered from the same file open the same paths,
    i.e. the request has no influence on them beyond selecting `p`. -/
theorem opened_first_within (w : World Root Req Path) (inl : Inliner Root Path)
    (roots : List Root) (isdep : Bool) (bdir : Root) (fn : Req) (q : Path)
    (h : (opened w inl roots isdep bdir fn).head? = some q) :
    ∃ d ∈ roots, candidate w d fn = .ok q ∧ w.within q d = true := by
  unfold opened at h
  cases hs : static w roots fn with
  | served p =>
    simp only [hs, List.head?_cons, Option.some.injEq] at h
    subst h
    obtain ⟨d, hd, hc, hw, _⟩ := served_within w roots fn p hs
    exact ⟨d, hd, hc, hw⟩
  | notFound => simp [hs] at h
  | raised => simp [hs] at h

theorem inlined_reads_not_request_controlled (w : World Root Req Path) (inl : Inliner Root Path)
    (roots : List Root) (isdep : Bool) (bdir : Root) (fn₁ fn₂ : Req) (p : Path)
    (h₁ : static w roots fn₁ = .served p) (h₂ : static w roots fn₂ = .served p) :
    opened w inl roots isdep bdir fn₁ = opened w inl roots isdep bdir fn₂ := by
  simp [opened, h₁, h₂]

/-! non-vacuity and discrimination.  Paths: 0 = fe/index.html, 1 = fe/sub (dir),
2 = /outside/secret, 3 = site/a.css; roots 0 = fe, 1 = site.  Requests: 0 = "/", 1 = "/sub",
2 = "/../secret", 3 = "/a.css".  `fe/sub/index.html` is a symlink to `/outside/secret`. -/

/-- hypotheses of `served_within` are satisfiable: files of both roots are served -/
example : static demo [0, 1] 0 = .served 0 ∧ static demo [0, 1] 3 = .served 3 := by decide

/-- the two jail-break shapes are refused by the current code … -/
example : static demo [0, 1] 2 = .notFound ∧ static demo [0, 1] 1 = .notFound := by decide

/-- a path that does not exist under any root (strict resolve fails twice) is "not found" -/
example : static demo [0, 1] 4 = .notFound := by decide

/-- … and were served by the code before the repairs (F-C19a: escaped path survives the
    loop; F-C19b: `index.html` of a directory followed out of the root): the theorem above
    does not hold for `staticOld`, so it is not true for a trivial reason. -/
theorem unrepaired_code_escapes :
    ∃ (w : World Nat Nat Nat) (fn : Nat) (p : Nat),
      staticOld w [0, 1] fn = .served p ∧ ∀ d ∈ [0, 1], w.within p d = false :=
  ⟨demo, 2, 2, by decide⟩

example : staticOld demo [0, 1] 1 = .served 2 := by decide

end DawgieVerif.C19
