/-
C05, farm side — what `farm.Hand._res` does with the worker's answer.  `clauses/dflt/pre/cmp/thenA/
elseA` are regenerated from the source of `Hand._translate` and `Hand._res` on every run
(`Generated/HandGen.lean`); `Hand.translate/res` give them meaning (`Model/Hand.lean`).  The
theorems tie that generated table (a) to the hand-written `Sched.reply` every scheduler theorem of
C01–C05 is about and (b) to the worker's clause table (`Generated/WorkerGen.lean`), so the chain
ending of the run → answer on the wire → translated state → scheduler calls is closed for every
ending.
-/
import DawgieVerif.Generated.HandGen
import DawgieVerif.Generated.WorkerGen

namespace DawgieVerif.C05
open DawgieVerif.Sched DawgieVerif.Hand DawgieVerif.Generated.HandGen

/-- the `suc=` constant the worker writes for an outcome (`True / False / None`) as the farm sees it -/
def wire : Worker.Outcome → Suc
  | .success => .yes
  | .failure => .no
  | .invalid => .none

/-- `Hand._res` as regenerated from the source IS the `reply` step of the scheduler model, in every
    state, for every unit, answer, run id and list of new values -/
theorem hand_res_is_reply (g : Graph) (s : St) (x : Name) (t : Target) (suc : Suc) (rid : Nat)
    (news : List Val) (nonempty : Bool) :
    Hand.res g pre cmp thenA elseA s x t (translate clauses dflt suc) rid news nonempty =
      Sched.reply g s x t (translate clauses dflt suc) rid news nonempty := by
  unfold Hand.res Sched.reply
  by_cases hq : x ∈ s.que
  · simp only [hq, if_true]
    cases suc <;> rfl
  · simp only [hq, if_false]

/-- the translation of the wire value -/
theorem hand_translate_table :
    translate clauses dflt .yes = .success ∧ translate clauses dflt .no = .failure ∧
    translate clauses dflt .none = .invalid := by
  decide

/-- the calls made: `complete` always and first; `update` only for a success; `purge` for
    everything else -/
theorem hand_calls (suc : Suc) :
    acts pre cmp thenA elseA (translate clauses dflt suc) =
      if suc = .yes then [.complete, .update] else [.complete, .purge] := by
  cases suc <;> decide

/-- end to end over both regenerated tables: whatever way the run ends, the worker answers, the farm
    books an outcome (`complete`), and it withdraws the dependents (`purge`) unless the run returned
    normally, in which case -- and only then -- it triggers them (`update`) -/
theorem ending_to_calls (e : Worker.Ending) :
    ∃ o, Worker.answer Generated.WorkerGen.bodyAnswer Generated.WorkerGen.handlers e = some o ∧
      acts pre cmp thenA elseA (translate clauses dflt (wire o)) =
        if e = .ok then [.complete, .update] else [.complete, .purge] := by
  cases e <;> exact ⟨_, rfl, by decide⟩

/-- and the booked state says what the ending demands -/
theorem ending_to_state (e : Worker.Ending) :
    ∃ o, Worker.answer Generated.WorkerGen.bodyAnswer Generated.WorkerGen.handlers e = some o ∧
      translate clauses dflt (wire o) =
        (match e with
         | .ok => Outcome.success
         | .invalidIn | .invalidOut => Outcome.invalid
         | _ => Outcome.failure) := by
  cases e <;> exact ⟨_, rfl, by decide⟩

/-! the model distinguishes the tables: with the two clauses of `_translate` swapped `None` is
    no longer told apart from `False`; with `update` before the branch a failure would trigger
    the dependents -/
example : translate [(.truthy, .success), (.falsy, .failure)] .invalid .none = .failure := by decide
example : acts [.complete, .update] .success [] [.purge] .failure = [.complete, .update, .purge] := by
  decide

end DawgieVerif.C05
