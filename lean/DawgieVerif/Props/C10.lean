/-
C10 — the life-cycle follows the documented state machine and always returns to rest.

Model: `Model/Fsm.lean` (callbacks hand-written, `transitions` dispatch rule assumed) over the
transition table `Generated/FsmEdges.lean` regenerated from `pl/state.dot`.  Histories are
arbitrary lists of `Event`: the triggers the code base fires from outside a callback, each with
the guard of its call site, and the completion of any outstanding background step at any time.

`Event.strayRun` is `Process.step_3`'s `running_trigger`, whose call site has NO guard.  It is
harmless as long as one submission Process is in flight at a time and `step_3` runs once per
Process (then it only fires in `gitting`, where it is `submitEnd`).  The real code breaks both
assumptions (known findings C10:legacy-double-step3, C10:submit-overlap), so:
  * statements that survive stray triggers are proved for ALL histories (`ReachAny`, any state);
  * the others are proved for `Guarded` histories (`Reach`) as `…_partial`, and the negation of
    the full statement is proved with the concrete witness (`…_fails`).
-/
import DawgieVerif.Proofs.Fsm

namespace DawgieVerif.C10
open DawgieVerif.Fsm DawgieVerif.Generated.Fsm

/-- The generated table is the documented machine of the property text: every edge of
    `pl/state.dot` is one of the documented transitions and every documented transition has an edge. -/
theorem table_is_documented :
    (∀ e ∈ edges, (e.source, e.dest) ∈ documented) ∧
    (∀ p ∈ documented, ∃ e ∈ edges, (e.source, e.dest) = p) := by
  decide

/-- Every state change is an edge of the GENERATED table: the moves made by one event (from ANY
    state, reachable or not) form a path of table edges from the old state to the new one; no
    move means the state is unchanged. -/
theorem moves_along_edges (s : St) (e : Event) :
    MovesFrom s.core.state (step s e).2.1.moves (next s e).core.state ∧
    ∀ m ∈ (step s e).2.1.moves, IsEdge m := by
  have hnoop : ∀ (s' : St) (r : Outcome), s'.core.state = s.core.state →
      MovesFrom s.core.state (noop s' r).2.1.moves (noop s' r).1.core.state ∧
      ∀ m ∈ (noop s' r).2.1.moves, IsEdge m := by
    intro s' r h
    simp [noop, Out.pure, MovesFrom, h]
  have hfire : ∀ t, MovesFrom s.core.state (fireTop t s).2.moves (fireTop t s).1.core.state ∧
      ∀ m ∈ (fireTop t s).2.moves, IsEdge m := by
    intro t
    have := (fire_ok s.core t).1
    exact ⟨this.2.1, this.2.2.1⟩
  cases e with
  | boot => exact hfire _
  | submitBegin =>
    by_cases h : s.isActive = true
    · simpa [step, next, h] using hfire .gitting
    · simpa [step, next, h] using hnoop s .refused rfl
  | submitEnd =>
    by_cases h : s.core.state = .gitting
    · simpa [step, next, h] using hfire .running
    · simpa [step, next, h] using hnoop s .refused rfl
  | dispatchArchive =>
    by_cases h : s.isActive = true ∧ s.core.archive = true
    · simpa [step, next, h] using hfire .archiving
    · simpa [step, next, h] using hnoop s .refused rfl
  | update => exact hfire _
  | strayRun => exact hfire _
  | flagArchive => simpa [step, next] using hnoop { s with core := { s.core with archive := true } } .idle rfl
  | complete i b =>
    cases hk : s.outstanding[i]? with
    | none => simpa [step, next, hk] using hnoop s .idle rfl
    | some k =>
      have := completion_ok s.core k (mem_allSteps k) b (mem_allBool b)
      simp only [step, next, hk]
      exact ⟨this.2.1, this.2.2.1⟩

/-- A trigger with no edge from the current state is rejected (`MachineError`); and a rejected
    trigger — any exception before the state changes, including the `transitioning` setter
    refusing inside a `before` callback — leaves everything as it was: state, transitioning,
    prior, flags, outstanding steps; no `reset` ran.  From ANY state. -/
theorem rejected_no_effect (s : St) (t : Trigger) :
    (findEdge t s.core.state = none → (fireTop t s).2.outcome = .rejected) ∧
    ((fireTop t s).2.outcome = .rejected →
      (fireTop t s).1 = s ∧ (fireTop t s).2.started = [] ∧ (fireTop t s).2.resets = 0) := by
  have h := fire_ok s.core t
  refine ⟨h.2.1, ?_⟩
  intro hr
  have hok : (run (.fire t) s.core).ok = false ∧ (run (.fire t) s.core).moves = [] :=
    (outcome_rejected_iff _).mp hr
  have := h.1.2.2.2 hok.1 hok.2
  obtain ⟨c, o⟩ := s
  simp only [fireTop] at *
  simp [this.1, this.2.1, this.2.2]

/-- The same at the level of events: a trigger event that is refused by the guard of its call
    site or rejected by the machine changes nothing. -/
theorem rejected_event_no_effect (s : St) (e : Event) (hc : e.isComplete = false)
    (hr : (step s e).2.2 = .rejected ∨ (step s e).2.2 = .refused) : next s e = s := by
  have hf : ∀ t, (fireTop t s).2.outcome = .rejected ∨ (fireTop t s).2.outcome = .refused →
      (fireTop t s).1 = s := by
    intro t h
    rcases h with h | h
    · exact ((rejected_no_effect s t).2 h).1
    · exact absurd h (outcome_ne_refused _)
  cases e with
  | boot => exact hf _ hr
  | submitBegin =>
    by_cases h : s.isActive = true
    · simp only [step, next, h] at hr ⊢
      exact hf _ hr
    · simp [step, next, h, noop]
  | submitEnd =>
    by_cases h : s.core.state = .gitting
    · simp only [step, next, h] at hr ⊢
      exact hf _ hr
    · simp [step, next, h, noop]
  | dispatchArchive =>
    by_cases h : s.isActive = true ∧ s.core.archive = true
    · simp only [step, next, h] at hr ⊢
      exact hf _ hr
    · simp [step, next, h, noop]
  | update => exact hf _ hr
  | strayRun => exact hf _ hr
  | flagArchive => simp [step, noop] at hr
  | complete i b => simp [Event.isComplete] at hc

/-- The well-founded measure: in a state reached by a guarded history the completion of ANY
    outstanding step succeeds and strictly decreases `mu` (completions still needed). -/
theorem complete_decreases_partial {s : St} (hs : Reach s) (i : Nat) (b : Bool)
    (hi : i < s.outstanding.length) :
    (step s (.complete i b)).2.2 = .ok ∧ mu (next s (.complete i b)) < mu s := by
  have h := inv_of_reach hs
  have hne : s.outstanding ≠ [] := by
    intro h0
    simp [h0] at hi
  exact complete_ok h hne i b hi

/-- From every state reached by a guarded history that has left `starting` — i.e. after any
    interleaving of triggers and completions — completing the outstanding steps in ANY order
    (`pick`) reaches rest within `mu s` completions: nothing outstanding, in `running` or
    `gitting`, `transitioning = active`.
    Full statement (fails, see below): `∀ s, ReachAny s → s.core.state ≠ .starting → ReturnsToRest s`. -/
theorem returns_to_rest_partial {s : St} (hs : Reach s) (hb : s.core.state ≠ .starting)
    (pick : Nat → Nat × Bool) : (drain pick (mu s) s).atRest = true :=
  drain_rest pick (mu s) s (inv_of_reach hs) hb (Nat.le_refl _)

/-- witness of the known findings: an archive excursion from `running`, a stray
    `running_trigger` (second `step_3`) leaves `archiving` with `transitioning = entering`, a
    waiter fires `update_trigger` (state changes, `reload` is refused by the setter), the archive
    completes and `_archive_done` cannot go back: stuck in `updating` with nothing outstanding -/
def strayWitness : List Event :=
  [.boot, .complete 0 false, .complete 0 false, .flagArchive, .dispatchArchive, .strayRun, .update,
   .complete 0 false]

/-- The full statement is FALSE once `step_3`'s unguarded trigger may fire outside `gitting`. -/
theorem returns_to_rest_fails :
    ¬ ∀ s, ReachAny s → s.core.state ≠ .starting → ReturnsToRest s := by
  intro h
  have hr : ReachAny (runEvents (init false) strayWitness) := ⟨false, strayWitness, rfl⟩
  obtain ⟨n, hn⟩ := h _ hr (by decide +kernel)
  have hd := hn (fun _ => (0, false))
  rw [drain_nil _ _ _ (by decide +kernel)] at hd
  revert hd
  decide +kernel

/-- The pipeline declares itself active only when at rest in `running` — for ALL histories,
    stray triggers included. -/
theorem active_only_at_rest {s : St} (hs : ReachAny s) (ha : s.isActive = true) :
    s.core.state = .running ∧ s.outstanding = [] ∧ s.atRest = true := by
  have h := invS_of_reachAny hs
  simp only [St.isActive, Core.isActive, decide_eq_true_eq] at ha
  have ho : s.outstanding = [] := by
    rcases h with ⟨_, ho⟩ | ⟨hn, _⟩
    · exact ho
    · exact absurd ha.2 hn
  refine ⟨ha.1, ho, ?_⟩
  simp [St.atRest, ho, ha.1, ha.2]

/-- In states reached by guarded histories no event ends half-way: a trigger is either accepted
    and runs to the end, or is refused/rejected without effect; a completion callback always runs
    to the end.
    Full statement (fails): `∀ s, ReachAny s → ∀ e, (step s e).2.2 ≠ .failed`. -/
theorem no_half_transition_partial {s : St} (hs : Reach s) (e : Event) (he : e ≠ .strayRun) :
    (step s e).2.2 ≠ .failed :=
  (step_ok (inv_of_reach hs) e he).2.1

theorem no_half_transition_fails : ¬ ∀ s, ReachAny s → ∀ e, (step s e).2.2 ≠ .failed := by
  intro h
  exact h (runEvents (init false) (strayWitness.take 6)) ⟨false, _, rfl⟩ .update (by decide +kernel)

/-- "Archive and back to where it came from": along a guarded history every move out of
    `archiving` is immediately preceded by the move into it and goes back to that move's source;
    the first move of a history does not start in `archiving`.
    Full statement (fails): the same for every history. -/
theorem archive_returns_partial (a : Bool) (evs : List Event) (hg : Guarded evs) :
    (∀ i m1 m2, (trace (init a) evs)[i]? = some m1 → (trace (init a) evs)[i + 1]? = some m2 →
      m2.src = .archiving → m1.dst = .archiving ∧ m2.dst = m1.src) ∧
    (∀ m, (trace (init a) evs)[0]? = some m → m.src ≠ .archiving) := by
  have h := rto_trace (inv_init a) evs hg
  have ho : originOf (init a).core = none := by cases a <;> rfl
  rw [ho] at h
  exact ⟨fun i m1 m2 h1 h2 hs => rto_pairs h i m1 m2 h1 h2 hs, fun m h0 => rto_head h m h0⟩

/-- witness of C10:legacy-double-step3: reset request, the reload completes with `ARCHIVE`
    set (`updating → archiving`), the stray `running_trigger` leaves `archiving` for `running` -/
def originWitness : List Event :=
  [.boot, .complete 0 false, .complete 0 false, .flagArchive, .update, .complete 0 false, .strayRun]

theorem archive_returns_fails :
    ¬ ∀ (a : Bool) (evs : List Event) i m1 m2, (trace (init a) evs)[i]? = some m1 →
      (trace (init a) evs)[i + 1]? = some m2 → m2.src = .archiving → m2.dst = m1.src := by
  intro h
  have := h false originWitness 4 ⟨.archiving, .updating, .archiving⟩ ⟨.running, .archiving, .running⟩
    (by decide +kernel) (by decide +kernel) rfl
  revert this
  decide

/-- (for C11) `context.git_rev` changes in the `_reload` background step.  From its start to its
    completion — i.e. whenever a `reload` step is outstanding — the pipeline is NOT active.  For
    ALL histories, stray triggers included (more generally: any outstanding step excludes activity). -/
theorem rev_change_only_inactive {s : St} (hs : ReachAny s) (h : Step.reload ∈ s.outstanding) :
    s.isActive = false := by
  cases ha : s.isActive with
  | false => rfl
  | true =>
    have := (active_only_at_rest hs ha).2.1
    rw [this] at h
    cases h

/-- the same at the two ends: the event that starts a `reload` step leaves the pipeline
    inactive, and the event that completes one begins with the pipeline inactive -/
theorem rev_change_only_inactive_ends {s : St} (hs : ReachAny s) (e : Event) :
    (Step.reload ∈ (step s e).2.1.started → (next s e).isActive = false) ∧
    (isReloadCompletion s e = true → s.isActive = false) := by
  constructor
  · intro h
    have hr : ReachAny (next s e) := by
      obtain ⟨a, evs, rfl⟩ := hs
      exact ⟨a, evs ++ [e], (runEvents_snoc _ _ _).symm⟩
    apply rev_change_only_inactive hr
    cases e with
    | complete i b =>
      cases hk : s.outstanding[i]? with
      | none => simp [step, hk, noop, Out.pure] at h
      | some k =>
        simp only [step, hk] at h
        simp only [next, step, hk, List.mem_append]
        exact Or.inr h
    | flagArchive => simp [step, noop, Out.pure] at h
    | boot => simpa [next, step, fireTop] using Or.inr h
    | update => simpa [next, step, fireTop] using Or.inr h
    | strayRun => simpa [next, step, fireTop] using Or.inr h
    | submitBegin =>
      by_cases hc : s.isActive = true
      · simp only [step, hc, if_true] at h
        simpa [next, step, hc, fireTop] using Or.inr h
      · simp [step, hc, noop, Out.pure] at h
    | submitEnd =>
      by_cases hc : s.core.state = .gitting
      · simp only [step, hc, if_true] at h
        simpa [next, step, hc, fireTop] using Or.inr h
      · simp [step, hc, noop, Out.pure] at h
    | dispatchArchive =>
      by_cases hc : s.isActive = true ∧ s.core.archive = true
      · simp only [step, hc] at h
        simpa [next, step, hc, fireTop] using Or.inr h
      · simp [step, hc, noop, Out.pure] at h
  · intro h
    cases e with
    | complete i b =>
      simp only [isReloadCompletion, decide_eq_true_eq] at h
      exact rev_change_only_inactive hs (List.mem_of_getElem? h)
    | _ => simp [isReloadCompletion] at h

/-- (for C11) After a `reload` step has completed (`git_rev` changed) the pipeline is not active
    again before `FSM.load` has run (a `Step.load` was started: `farm.notify_all(); farm.clear()`):
    along every Guarded history, while the ghost `needsLoad` is set the pipeline is inactive.
    Full statement (fails, see below): the same for every history. -/
theorem active_after_reload_needs_load_partial (a : Bool) (evs : List Event) (hg : Guarded evs) :
    (ghostRun false (init a) evs).1 = true → (ghostRun false (init a) evs).2.isActive = false := by
  intro h
  have := ghost_run (inv_init a) evs hg false (by simp) h
  simp [St.isActive, Core.isActive, this.1]

/-- with the stray `running_trigger` of C10:legacy-double-step3 the reload cycle is cut after the
    revision changed: the pipeline is active again and `load` never ran (workers not cleared) -/
theorem active_after_reload_needs_load_fails :
    ¬ ∀ (a : Bool) (evs : List Event),
      (ghostRun false (init a) evs).1 = true → (ghostRun false (init a) evs).2.isActive = false := by
  intro h
  have := h false (originWitness ++ [.complete 0 false])
  revert this
  decide +kernel

/-- The nesting bound inside the model (`fuel`) is never reached, from any state: no statement
    above holds because the model gave up. -/
theorem nesting_bound_unreached (s : St) (e : Event) : (step s e).2.1.fuelOut = false := by
  have hf : ∀ t, (fireTop t s).2.fuelOut = false := fun t => (fire_ok s.core t).1.1
  cases e with
  | boot => exact hf _
  | submitBegin => by_cases h : s.isActive = true <;> simp [step, h, hf, noop, Out.pure]
  | submitEnd => by_cases h : s.core.state = .gitting <;> simp [step, h, hf, noop, Out.pure]
  | dispatchArchive =>
    by_cases h : s.isActive = true ∧ s.core.archive = true <;> simp [step, h, hf, noop, Out.pure]
  | update => exact hf _
  | strayRun => exact hf _
  | flagArchive => simp [step, noop, Out.pure]
  | complete i b =>
    cases hk : s.outstanding[i]? with
    | none => simp [step, hk, noop, Out.pure]
    | some k =>
      have := completion_ok s.core k (mem_allSteps k) b (mem_allBool b)
      simp only [step, hk]
      exact this.1

/-! ### non-vacuity -/

/-- boot, load and navel gaze complete, a reset request (update), the reload completes while
    `ARCHIVE` is set, the archive completes, load, navel gaze: back at rest in `running` -/
def demo : List Event :=
  [.boot, .complete 0 false, .complete 0 false, .flagArchive, .update, .complete 0 false,
   .complete 0 true, .complete 0 false, .complete 0 false]

example : (runEvents (init false) demo).atRest = true ∧
    (runEvents (init false) (demo.take 6)).core.state = .archiving ∧
    (runEvents (init false) (demo.take 6)).core.prior = some .updating ∧
    mu (runEvents (init false) (demo.take 6)) = 3 := by decide +kernel

/-- the event in which the archive started from `updating` completes makes two moves:
    archiving → updating → loading -/
example : ((step (runEvents (init false) (demo.take 6)) (.complete 0 true)).2.1.moves).length = 2 := by
  decide +kernel

/-- a rejected trigger: `update_trigger` while `gitting` -/
example : (step (runEvents (init false) [.boot, .complete 0 false, .complete 0 false, .submitBegin])
    .update).2.2 = .rejected := by decide +kernel

/-- a refusal by the `transitioning` setter inside a `before` callback (unreachable state
    `running`/`entering`): `archiving_trigger` is rejected -/
example : (fireTop .archiving ⟨⟨.running, .entering, none, false, true⟩, []⟩).2.outcome = .rejected := by
  decide +kernel

/-- the active predicate is satisfiable on a reachable state -/
example : (runEvents (init false) [.boot, .complete 0 false, .complete 0 false]).isActive = true := by
  decide +kernel

/-- non-vacuity for the C11 facts: in `demo` the ghost is set after the reload completes (archive
    excursion, pipeline inactive) and cleared by the `load` that follows; a reload step is outstanding
    right after the update -/
example : (ghostRun false (init false) (demo.take 6)).1 = true ∧
    (ghostRun false (init false) (demo.take 7)).1 = false ∧
    Step.reload ∈ (runEvents (init false) (demo.take 5)).outstanding ∧
    (ghostRun false (init false) demo).2.isActive = true := by decide +kernel

/-- guarded histories exist and `demo` is one; its trace has the archive excursion -/
example : Guarded demo ∧ (trace (init false) demo).length = 9 := by
  constructor
  · unfold Guarded; decide
  · decide +kernel

end DawgieVerif.C10
