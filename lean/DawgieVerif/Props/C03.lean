/-
C03 — each released unit runs once at a time and its result is never dropped
(scheduler side; the hand-over to workers and the crew view are in Props/C11).

`ValidRun g s ops` is the protocol assumption of the property: a worker answers only for a unit
that was given out and not yet answered (one reply per task), and `'__all__'` is not a target
name.  `s.inflight` is the ghost list of units released (`todo → doing`, task message queued)
and not yet answered.
-/
import DawgieVerif.Proofs.SchedMsgs

namespace DawgieVerif.C03
open DawgieVerif.Sched

/-- At most one execution of a given algorithm on a given target is in flight at any time. -/
theorem one_at_a_time (g : Graph) (ts : List Target) (hts : ALL ∉ ts) (ops : List Op)
    (hv : ValidRun g (St.init ts) ops) : (run g (St.init ts) ops).inflight.Nodup :=
  (run_inv2 g (St.init ts) ops (inv_init ts) (inv2_init g ts hts) hv).1.nd

/-- The scheduler's executing sets are exactly the units in flight. -/
theorem executing_iff_inflight (g : Graph) (ts : List Target) (hts : ALL ∉ ts) (ops : List Op)
    (hv : ValidRun g (St.init ts) ops) (n : Name) (t : Target) :
    t ∈ ((run g (St.init ts) ops).node n).doing ↔ (n, t) ∈ (run g (St.init ts) ops).inflight := by
  obtain ⟨h2, h1⟩ := run_inv2 g (St.init ts) ops (inv_init ts) (inv2_init g ts hts) hv
  exact ⟨h1.di n t, h2.fd n t⟩

/-- A unit is never released while it is still executing, and no unit twice in one batch —
    also when it was requested again in the meantime. -/
theorem never_released_while_executing (g : Graph) (ts : List Target) (hts : ALL ∉ ts)
    (ops : List Op) (hv : ValidRun g (St.init ts) ops) :
    (∀ p ∈ (dispatch g (run g (St.init ts) ops)).2, p ∉ (run g (St.init ts) ops).inflight) ∧
    (dispatch g (run g (St.init ts) ops)).2.Nodup := by
  obtain ⟨h2, h1⟩ := run_inv2 g (St.init ts) ops (inv_init ts) (inv2_init g ts hts) hv
  generalize run g (St.init ts) ops = s at h1 h2
  have hnd := (dispatch_inv2 g s h2).nd
  rw [dispatch_inflight, List.nodup_append] at hnd
  exact ⟨fun p hp hin => hnd.2.2 p hin p hp rfl, hnd.2.1⟩

/-- Every released unit gets exactly one task message (job, target), and nothing else is queued. -/
theorem one_message_per_release (g : Graph) (ts : List Target) (hts : ALL ∉ ts) (ops : List Op)
    (hv : ValidRun g (St.init ts) ops) :
    ∃ keys : List (Name × Target),
      (dispatch g (run g (St.init ts) ops)).1.msgs.map Msg.key =
        (run g (St.init ts) ops).msgs.map Msg.key ++ keys ∧
      (∀ p, p ∈ keys ↔ p ∈ (dispatch g (run g (St.init ts) ops)).2) ∧ keys.Nodup := by
  obtain ⟨h2, h1⟩ := run_inv2 g (St.init ts) ops (inv_init ts) (inv2_init g ts hts) hv
  exact dispatch_messages g _ h1 h2

/-- Every result returned for a unit in flight is applied, exactly once: the job is found, one
    history entry is appended, and (C02 `update_complete` / C05) the new-value report or the
    failure is propagated by the same step. -/
theorem result_applied_once (g : Graph) (ts : List Target) (hts : ALL ∉ ts) (ops : List Op)
    (hv : ValidRun g (St.init ts) ops) (x : Name) (t : Target) (o : Outcome) (rid : Nat)
    (news : List Val) (ne : Bool) (hfl : (x, t) ∈ (run g (St.init ts) ops).inflight) :
    (reply g (run g (St.init ts) ops) x t o rid news ne).2 = .applied ∧
    (reply g (run g (St.init ts) ops) x t o rid news ne).1.chron =
      (run g (St.init ts) ops).chron ++ [⟨x, t, o, rid⟩] ∧
    (x, t) ∉ (reply g (run g (St.init ts) ops) x t o rid news ne).1.inflight := by
  obtain ⟨h2, h1⟩ := run_inv2 g (St.init ts) ops (inv_init ts) (inv2_init g ts hts) hv
  generalize run g (St.init ts) ops = s at h1 h2 hfl
  have hx := inflight_queued h1 h2 hfl
  have hnot : (x, t) ∉ s.inflight.erase (x, t) := by
    rw [List.Nodup.mem_erase_iff h2.nd]; simp
  unfold reply
  simp only [hx, if_true]
  cases o
  · exact ⟨rfl, by rw [update_chron]; rfl, by rw [update_inflight]; exact hnot⟩
  · exact ⟨rfl, rfl, hnot⟩
  · exact ⟨rfl, rfl, hnot⟩

/-! non-vacuity: the history that used to put one unit in flight twice
    (request, release, request again, release) is a valid run and keeps it single. -/
def single : Graph :=
  { kind := fun _ => .task, children := fun _ => [], desc := fun n => [n], ancestry := fun _ => []
    consumes := fun _ => [], feedbackTo := fun _ => none, level := fun _ => 0 }

example : ValidRun single (St.init [1])
    [.organize [0] none [1], .dispatch, .organize [0] none [1], .dispatch,
     .reply 0 1 .success 1 [] true] := by
  refine ⟨trivial, trivial, trivial, trivial, ?_, trivial⟩
  show (0, 1) ∈ _
  decide +kernel

example : (run single (St.init [1])
    [.organize [0] none [1], .dispatch, .organize [0] none [1], .dispatch]).inflight = [(0, 1)] := by
  decide +kernel

/-- …and the re-requested target is released once the first execution has reported -/
example : (dispatch single (run single (St.init [1])
    [.organize [0] none [1], .dispatch, .organize [0] none [1], .dispatch,
     .reply 0 1 .success 1 [] true])).2 = [(0, 1)] := by
  decide +kernel

end DawgieVerif.C03
