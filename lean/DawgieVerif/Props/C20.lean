/-
C20 — timer events are computable, land on their moment, and keep recurring.

Model: `Model/Delay.lean` (`schedule._delay`, `defer`, `complete`, `_prune` as written now) over the
calendar `Model/Cal.lean`.  `Spec m` = a moment accepted by `tools.compliant.rule_10` and
`dawgie.schedule` (count test and field lists regenerated from the source), with the quantifier's own
ranges (day-of-month 1..31, day-of-week 0..6) and the type invariants of `datetime.time/date`.
`NowOK now` = the clock is not inside the last two years of `datetime`'s range.  Every theorem holds
for EVERY clock instant (any year, month end, leap day …) and every such specification.

Regenerated on every run (`Generated/TimerGen.lean`): the firing window test `ts <= 300.0`, the
paused retry, the statuses `defer` skips and sets, the all-targets marker, the accepted shape.

KNOWN FINDING `C20:no-recurrence`: the last clause of the property ("fires again each period") is
FALSE on the current code.  The full-strength statement `Delay.Recurs` is kept and its negation is
proved (`recurs_fails`); what does hold is proved as `recurs_first_firing_partial`.
-/
import DawgieVerif.Proofs.DelayC

namespace DawgieVerif.C20
open DawgieVerif.Cal DawgieVerif.Delay
open DawgieVerif.Generated.Timer (due pausedRetry deferSkips allMarker)

/-! ### computing the time to the event never fails -/

/-- For every accepted specification and every instant `_delay` returns a delay; the only
    exception is the documented `_DelayNotKnowableError` of a boot event that already fired. -/
theorem delay_total (now : Int) (booted : List Event) (ev : Event) (hs : Spec ev.moment)
    (hn : NowOK now) :
    (ev.moment.boot ≠ none ∧ ev ∈ booted ∧ (delay now booted ev).1 = .error .notKnowable) ∨
    (∃ d, (delay now booted ev).1 = .ok d) := by
  rcases hs.shape with ⟨b, h0, _, _, _⟩ | ⟨d, t, h0, h1, h2, h3, h4⟩ | ⟨n, t, h0, h1, h2, h3, h4⟩ |
      ⟨n, t, h0, h1, h2, h3, h4⟩
  · by_cases hin : ev ∈ booted
    · left; exact ⟨by simp [h0], hin, by simp [delay, h0, hin]⟩
    · right; exact ⟨0, by simp [delay, h0, hin]⟩
  · right
    have hd := hs.day d h1
    rw [show delay now booted ev = _ from rfl]
    unfold delay
    rw [h0, designated_day h1 h2 h3 h4, mkDatetime_ok ⟨hd.1, hd.2.1⟩ hd.2.2 (hs.time t h4)]
    exact ⟨_, rfl⟩
  · right
    obtain ⟨th, e, _⟩ := dom_spec h1 h2 h3 h4 (hs.time t h4) (hs.dom n h2) hn
    unfold delay; rw [h0]; simp only [e]; exact ⟨_, rfl⟩
  · right
    obtain ⟨th, e, _⟩ := dow_spec h1 h2 h3 h4 (hs.time t h4) (hs.dow n h3) hn
    unfold delay; rw [h0]; simp only [e]; exact ⟨_, rfl⟩

/-- non-vacuity: 30th of the month asked on 30 January (the replay of repaired finding F-C20a),
    31st asked on 1 February of a leap year, Sunday asked on a Sunday after the time of day -/
example :
    (delay (instant 2026 1 30 12 0 0) [] ⟨1, ⟨none, none, some 30, none, some ⟨3, 0, 0⟩⟩⟩).1.toOption
      = some (-9 * 3600 * usPerSecond) ∧
    (delay (instant 2024 2 1 0 0 0) [] ⟨1, ⟨none, none, some 31, none, some ⟨3, 0, 0⟩⟩⟩).1.toOption
      = some ((59 * 86400 + 3 * 3600) * usPerSecond) ∧
    (delay (instant 2024 3 3 4 0 0) [] ⟨1, ⟨none, none, none, some 6, some ⟨3, 0, 0⟩⟩⟩).1.toOption
      = some (-3600 * usPerSecond) := by decide +kernel

/-- outside the accepted shape the model raises like the code: no time, day 0 of a month -/
example :
    errOf (delay 0 [] ⟨1, ⟨none, none, none, some 0, none⟩⟩).1 = some .attributeError ∧
    errOf (delay 0 [] ⟨1, ⟨none, none, some 0, none, some ⟨3, 0, 0⟩⟩⟩).1 = some .valueError ∧
    errOf (delay 0 [] ⟨1, ⟨none, none, some 32, none, some ⟨3, 0, 0⟩⟩⟩).1 = some .valueError := by
  decide +kernel

/-! ### the designated moment matches the specification -/

/-- `now + delay` has the wanted weekday / day of month / date, at the wanted time of day. -/
theorem delay_matches (now : Int) (booted : List Event) (ev : Event) (hs : Spec ev.moment)
    (hn : NowOK now) (hb : ev.moment.boot = none) (d : Int) (h : (delay now booted ev).1 = .ok d) :
    (∀ t, ev.moment.time = some t → timeOfDay (now + d) = t.us) ∧
    (∀ w, ev.moment.dow = some w → weekday (dayOf (now + d)) = w) ∧
    (∀ n, ev.moment.dom = some n → (civilFromDays (dayOf (now + d))).day = n) ∧
    (∀ dt, ev.moment.day = some dt → civilFromDays (dayOf (now + d)) = ⟨dt.year, dt.month, dt.day⟩) := by
  unfold delay at h
  rw [hb] at h
  simp only at h
  cases hdes : designated now ev.moment with
  | error e => rw [hdes] at h; cases h
  | ok th =>
    rw [hdes] at h
    simp only at h
    injection h with h
    have hth : now + d = th := by omega
    rw [hth]
    rcases hs.shape with ⟨b, h0, _, _, _⟩ | ⟨dt, t, h0, h1, h2, h3, h4⟩ | ⟨n, t, h0, h1, h2, h3, h4⟩ |
        ⟨n, t, h0, h1, h2, h3, h4⟩
    · rw [hb] at h0; cases h0
    · have hd := hs.day dt h1
      have hb' := (hs.time t h4).bounds
      rw [designated_day h1 h2 h3 h4, mkDatetime_ok ⟨hd.1, hd.2.1⟩ hd.2.2 (hs.time t h4)] at hdes
      injection hdes with hdes
      subst hdes
      refine ⟨?_, ?_, ?_, ?_⟩
      · intro t' ht'; rw [h4] at ht'; injection ht' with ht'; subst ht'
        exact timeOfDay_instant hb'.1 hb'.2
      · intro w hw; rw [h3] at hw; cases hw
      · intro n hn'; rw [h2] at hn'; cases hn'
      · intro dt' hdt; rw [h1] at hdt; injection hdt with hdt; subst hdt
        rw [dayOf_instant hb'.1 hb'.2, civil_daysFromCivil hd.2.2]
    · obtain ⟨th', e, a1, a2, _⟩ := dom_spec h1 h2 h3 h4 (hs.time t h4) (hs.dom n h2) hn
      rw [hdes] at e; injection e with e; subst e
      refine ⟨?_, ?_, ?_, ?_⟩
      · intro t' ht'; rw [h4] at ht'; injection ht' with ht'; subst ht'; exact a2
      · intro w hw; rw [h3] at hw; cases hw
      · intro n' hn'; rw [h2] at hn'; injection hn' with hn'; subst hn'; exact a1
      · intro dt' hdt; rw [h1] at hdt; cases hdt
    · obtain ⟨th', e, a1, a2, _⟩ := dow_spec h1 h2 h3 h4 (hs.time t h4) (hs.dow n h3) hn
      rw [hdes] at e; injection e with e; subst e
      refine ⟨?_, ?_, ?_, ?_⟩
      · intro t' ht'; rw [h4] at ht'; injection ht' with ht'; subst ht'; exact a2
      · intro w hw; rw [h3] at hw; injection hw with hw; subst hw; exact a1
      · intro n' hn'; rw [h2] at hn'; cases hn'
      · intro dt' hdt; rw [h1] at hdt; cases hdt

/-! ### … and lies no further than one period ahead -/

/-- Day of week: the moment lies on today's date or one of the next six, hence at most 7 days
    ahead.  Day of month: the moment lies on today's date or later, and it is the FIRST day
    numbered `n` from today on — in particular not later than that day of the next month that has
    one.  (No lower bound on the delay is demanded: a moment earlier today counts as due.) -/
theorem delay_within (now : Int) (booted : List Event) (ev : Event) (hs : Spec ev.moment)
    (hn : NowOK now) (hb : ev.moment.boot = none) (d : Int) (h : (delay now booted ev).1 = .ok d) :
    (∀ w, ev.moment.dow = some w →
      d ≤ 7 * usPerDay ∧ dayOf now ≤ dayOf (now + d) ∧ dayOf (now + d) ≤ dayOf now + 6) ∧
    (∀ n, ev.moment.dom = some n → dayOf now ≤ dayOf (now + d) ∧
      ∀ y' m', validDate y' m' n = true → dayOf now ≤ daysFromCivil y' m' n →
        dayOf (now + d) ≤ daysFromCivil y' m' n) := by
  unfold delay at h
  rw [hb] at h
  simp only at h
  cases hdes : designated now ev.moment with
  | error e => rw [hdes] at h; cases h
  | ok th =>
    rw [hdes] at h
    simp only at h
    injection h with h
    have hth : now + d = th := by omega
    rw [hth]
    rcases hs.shape with ⟨b, h0, _, _, _⟩ | ⟨dt, t, h0, h1, h2, h3, h4⟩ | ⟨n, t, h0, h1, h2, h3, h4⟩ |
        ⟨n, t, h0, h1, h2, h3, h4⟩
    · rw [hb] at h0; cases h0
    · refine ⟨?_, ?_⟩
      · intro w hw; rw [h3] at hw; cases hw
      · intro n hn'; rw [h2] at hn'; cases hn'
    · obtain ⟨th', e, _, _, a3, a4⟩ := dom_spec h1 h2 h3 h4 (hs.time t h4) (hs.dom n h2) hn
      rw [hdes] at e; injection e with e; subst e
      refine ⟨?_, ?_⟩
      · intro w hw; rw [h3] at hw; cases hw
      · intro n' hn'; rw [h2] at hn'; injection hn' with hn'; subst hn'
        exact ⟨a3, a4⟩
    · obtain ⟨th', e, _, _, a3, a4, a5⟩ := dow_spec h1 h2 h3 h4 (hs.time t h4) (hs.dow n h3) hn
      rw [hdes] at e; injection e with e; subst e
      refine ⟨?_, ?_⟩
      · intro w _
        exact ⟨by omega, a3, a4⟩
      · intro n' hn'; rw [h2] at hn'; cases hn'

/-- non-vacuity: the three example moments above satisfy `Spec`, the clock `NowOK` -/
example : Spec (⟨none, none, some 30, none, some ⟨3, 0, 0⟩⟩ : Moment) ∧ NowOK (instant 2026 1 30 12 0 0) := by
  refine ⟨⟨by decide, by decide, ?_, ?_, ?_, ?_⟩, by unfold NowOK; decide +kernel⟩
  · intro t ht; injection ht with ht; subst ht; simp [TimeOK]
  · intro d hd; cases hd
  · intro n hn; injection hn with hn; subst hn; omega
  · intro n hn; cases hn

/-! ### a due event queues its algorithm; boot events; the paused pipeline -/

/-- `defer` at `now`, pipeline not paused: a node of `per` that is neither running nor waiting and
    has an event found due (timed: designated moment at most the firing window ahead; boot: not
    yet fired, the event belonging to this node only) ends up `waiting`, with the all-targets
    marker (analysis) or every currently known target in its `todo`, and in the work queue —
    unless there is nothing to run it on (no known target), in which case `_prune` drops it. -/
theorem due_queues (now : Int) (s s' : Sched) (timer : Option Int) (g : String) (n : Node) (p : Event)
    (hp : s.paused = false) (h : defer now s = .ok (s', timer))
    (hg : g ∈ s.per) (hn : getNode s g = some n) (hs : deferSkips.contains n.status.name = false)
    (hpp : p ∈ n.period) (hf : Fires now s.booted p) (hown : p.moment.boot ≠ none → Owned s g p) :
    ∃ n', getNode s' g = some n' ∧ n'.status = Status.waiting ∧
      (if n.isAsp then allMarker ∈ n'.todo else ∀ x ∈ s.targets, x ∈ n'.todo) ∧
      (n'.todo ≠ [] → g ∈ s'.que) :=
  defer_queues hp h hg hn hs hpp hf hown

/-- non-vacuity: two nodes, a task due in one minute and an analysis due in two hours -/
example :
    (defer bootAt { nodes := [⟨"net.alg", false, 1, .initial, [], [], [weekly], none⟩,
                               ⟨"net.asp", true, 0, .initial, [], [], [⟨2, ⟨none, none, none, some 0, some ⟨5, 0, 0⟩⟩⟩], none⟩],
                    per := ["net.alg", "net.asp"], que := [], booted := [], paused := false,
                    targets := ["T1", "T2"] }).toOption.map (fun r => (r.1.que, r.2))
      = some (["net.alg"], some 7260) := by decide +kernel

/-- A boot event fires once per process: evaluated at any clock readings, the first evaluation
    gives delay 0 (which is due) and every later one `_DelayNotKnowableError`, which `defer`
    swallows. -/
theorem boot_fires_once (ev : Event) (hb : ev.moment.boot ≠ none) (booted : List Event)
    (hn : ev ∉ booted) (t : Int) (ts : List Int) :
    evaluations ev (t :: ts) booted = .ok 0 :: ts.map (fun _ => .error .notKnowable) ∧
    due 0 = true := by
  cases hbo : ev.moment.boot with
  | none => exact absurd hbo hb
  | some v =>
    have h1 : delay t booted ev = (.ok 0, booted ++ [ev]) := by simp [delay, hbo, hn]
    refine ⟨?_, by decide⟩
    simp only [evaluations, h1]
    rw [evaluations_booted hb ts _ (by simp)]

example : evaluations ⟨7, ⟨some true, none, none, none, none⟩⟩ [5, 9, 100] []
    = [.ok 0, .error .notKnowable, .error .notKnowable] := by decide +kernel

/-- `booted` only grows: an event that fired stays fired whatever else is evaluated. -/
theorem booted_grows (now : Int) (booted : List Event) (q e : Event) (h : e ∈ booted) :
    e ∈ (delay now booted q).2 := by
  rcases delay_booted now booted q with hb | ⟨hb, _⟩ <;> rw [hb]
  · exact h
  · exact List.mem_append_left _ h

/-- While the pipeline is paused `defer` changes nothing and asks to be called again in 10 s. -/
theorem paused_retries (now : Int) (s : Sched) (hp : s.paused = true) :
    defer now s = .ok (s, some pausedRetry) := defer_paused hp

/-! ### recurrence: full strength fails (known finding), the first firing holds -/

/-- KNOWN FINDING `C20:no-recurrence`.  The full-strength clause `Recurs` ("while the pipeline stays
    up a weekly or monthly event fires again each period") does not hold: a weekly event (Monday
    03:00) in a pipeline booted Monday 2024-01-01 02:59:00 is queued at boot, its unit completes —
    `complete` leaves the node `waiting`, which `defer` skips — and no timer was armed because the
    only event was due.  In 70 days of up-time it is queued exactly once. -/
theorem recurs_fails : ¬ Recurs := by
  intro h
  have hspec : Spec weekly.moment := by
    refine ⟨by decide, by decide, ?_, ?_, ?_, ?_⟩
    · intro t ht; injection ht with ht; subst ht; simp [TimeOK]
    · intro d hd; cases hd
    · intro n hn; cases hn
    · intro n hn; injection hn with hn; subst hn; omega
  have := h "net.alg" false weekly ["T1"] bootAt (instant 2024 1 1 3 0 0) (bootAt + 70 * usPerDay)
    hspec rfl rfl (by decide +kernel) (Or.inr (by simp)) (by decide +kernel) (by decide +kernel)
    (by decide +kernel)
  have hrun : uptime "net.alg" (bootAt + 70 * usPerDay) bootAt (solo "net.alg" false weekly ["T1"] .initial)
      = [bootAt] := by decide +kernel
  rw [hrun] at this
  simp at this

/-- What does hold of the recurrence clause (`_partial`: the FIRST firing only).  A pipeline whose
    only timed event is a weekly or monthly one, booted at any instant: if the event is due it is
    queued at once; otherwise `defer` arms a timer, and when the reactor calls `defer` at that time
    the event is queued — within half a second (rounding of the timer) of the designated moment.
    Missing for the full clause: after the unit completes nothing re-arms a timer and the node
    stays `waiting`, so there is no second firing (`recurs_fails`). -/
theorem recurs_first_firing_partial (g : String) (asp : Bool) (ev : Event) (T : List String)
    (now th horizon : Int) (hs : Spec ev.moment) (hb : ev.moment.boot = none)
    (hday : ev.moment.day = none)
    (hn : 1 ≤ (civilFromDays (dayOf now)).year ∧ (civilFromDays (dayOf now)).year ≤ 9997)
    (hT : asp = true ∨ T ≠ []) (hd : designated now ev.moment = .ok th)
    (hh : now ≤ horizon ∧ th + 500000 ≤ horizon) :
    ∃ t, t ∈ uptime g horizon now (solo g asp ev T Status.initial) ∧
      (t = now ∨ (now < t ∧ th - 500000 ≤ t ∧ t ≤ th + 500000)) := by
  have hnow : NowOK now := ⟨hn.1, by omega⟩
  apply first_firing hb hd hT _ hh
  intro t1 h1 h2
  have hy1 : (civilFromDays (dayOf now)).year ≤ (civilFromDays (dayOf t1)).year :=
    year_mono (dayOf_mono h1)
  rcases hs.shape with ⟨b, h0, _, _, _⟩ | ⟨dt, t, h0, h1', _, _, _⟩ | ⟨n, t, h0, e1, e2, e3, e4⟩ |
      ⟨n, t, h0, e1, e2, e3, e4⟩
  · rw [hb] at h0; cases h0
  · rw [hday] at h1'; cases h1'
  · -- day of month: the designated day is not later than that day of next January
    obtain ⟨th', e, a1, a2, a3, a4⟩ := dom_spec e1 e2 e3 e4 (hs.time t e4) (hs.dom n e2) hnow
    rw [hd] at e; injection e with e; subst e
    have hu := TimeOfDay.us_bounds (hs.time t e4)
    have hd2 : dayOf t1 ≤ dayOf th := by
      have := instant_split th
      unfold dayOf timeOfDay usPerDay usPerSecond at *; omega
    have hjan : validDate ((civilFromDays (dayOf now)).year + 1) 1 n = true := by
      rw [validDate_iff]; have := hs.dom n e2; simp [daysInMonth]; omega
    have hb1 := civil_bounds (dayOf now)
    have hle := a4 _ _ hjan (by
      simp only [daysFromCivil, daysBeforeMonth_one] at hb1 ⊢
      have := (hs.dom n e2).1; omega)
    have hyth : (civilFromDays (dayOf th)).year ≤ (civilFromDays (dayOf now)).year + 1 := by
      apply year_le_of_lt
      have := (hs.dom n e2).2
      have h2' := daysBeforeYear_succ ((civilFromDays (dayOf now)).year + 1)
      have := yearLen_pos ((civilFromDays (dayOf now)).year + 1)
      simp only [daysFromCivil, daysBeforeMonth_one] at hle
      omega
    have hn1 : NowOK t1 := ⟨by omega, by have := year_mono hd2; omega⟩
    exact dom_stable e1 e2 e3 e4 (hs.time t e4) (hs.dom n e2) hnow hn1 hd h1 h2
  · obtain ⟨th', e, a1, a2, a3, a4, _⟩ := dow_spec e1 e2 e3 e4 (hs.time t e4) (hs.dow n e3) hnow
    rw [hd] at e; injection e with e; subst e
    have hu := TimeOfDay.us_bounds (hs.time t e4)
    have hd2 : dayOf t1 ≤ dayOf th := by
      have := instant_split th
      unfold dayOf timeOfDay usPerDay usPerSecond at *; omega
    have hyth : (civilFromDays (dayOf th)).year ≤ (civilFromDays (dayOf now)).year + 1 := by
      have := year_add (z := dayOf now) (k := dayOf th - dayOf now) (by omega) (by omega)
      have e : dayOf now + (dayOf th - dayOf now) = dayOf th := by omega
      rw [e] at this; exact this.2
    have hn1 : NowOK t1 := ⟨by omega, by have := year_mono hd2; omega⟩
    exact dow_stable e1 e2 e3 e4 (hs.time t e4) (hs.dow n e3) hnow hn1 hd h1 h2

/-- non-vacuity: booted an hour earlier, the same weekly event is not due at boot, a timer of
    3660 s is armed, and it is queued exactly at its moment — once -/
example : uptime "net.alg" (bootAt + 70 * usPerDay) (bootAt - 3600 * usPerSecond)
    (solo "net.alg" false weekly ["T1"] .initial) = [instant 2024 1 1 3 0 0] := by decide +kernel

/-- The accepted shape, read off the regenerated `rule_10` / `dawgie.schedule` pieces: exactly one
    of boot, day, dom, dow is given and the timed ones come with a time of day. -/
theorem accepted_shape (m : Moment) (h : Spec m) :
    (∃ b, m.boot = some b ∧ m.day = none ∧ m.dom = none ∧ m.dow = none) ∨
    (∃ d t, m.boot = none ∧ m.day = some d ∧ m.dom = none ∧ m.dow = none ∧ m.time = some t) ∨
    (∃ n t, m.boot = none ∧ m.day = none ∧ m.dom = some n ∧ m.dow = none ∧ m.time = some t) ∨
    (∃ n t, m.boot = none ∧ m.day = none ∧ m.dom = none ∧ m.dow = some n ∧ m.time = some t) :=
  h.shape

end DawgieVerif.C20
