/-
C15 (first half) — version comparison is the lexicographic total order on
(design, implementation, bug fix); the six comparison operators and `newer` are mutually
consistent.  Every statement is over `Generated/Version.lean`, i.e. over the bodies of
`dawgie.Version.__eq__ … __ne__` and `Version.newer` as translated from the working tree on this
run, for ALL integer triples (the code base demands non-negative counters; nothing here needs it).
`a` is always the receiver (`self`); for `newer a b`, `b` is the `VERSION` tuple passed as `than`.
The scheduling half is in `Props/C15Build.lean`.
-/
import DawgieVerif.Proofs.Version

namespace DawgieVerif.C15
open DawgieVerif.Generated.Version DawgieVerif.Version
set_option linter.unusedSimpArgs false

/-- `__le__` is exactly the lexicographic order on the triple. -/
theorem vle_lex (a b : V) : vle a b = true ↔ lexLe a b := by
  obtain ⟨a1, a2, a3⟩ := a; obtain ⟨b1, b2, b3⟩ := b; ver_decide
example : vle (1, 2, 9) (1, 3, 0) = true ∧ vle (1, 3, 0) (1, 2, 9) = false := by decide

/-- `__lt__` is exactly the strict lexicographic order. -/
theorem vlt_lex (a b : V) : vlt a b = true ↔ lexLt a b := by
  obtain ⟨a1, a2, a3⟩ := a; obtain ⟨b1, b2, b3⟩ := b; ver_decide
example : vlt (1, 9, 9) (2, 0, 0) = true ∧ vlt (2, 0, 0) (2, 0, 0) = false := by decide

/-- the order is total … -/
theorem vle_total (a b : V) : vle a b = true ∨ vle b a = true := by
  obtain ⟨a1, a2, a3⟩ := a; obtain ⟨b1, b2, b3⟩ := b; ver_decide
example : vle (0, 5, 0) (1, 0, 0) = true ∧ vle (1, 0, 0) (0, 5, 0) = false := by decide

/-- … transitive … -/
theorem vle_trans (a b c : V) : vle a b = true → vle b c = true → vle a c = true := by
  obtain ⟨a1, a2, a3⟩ := a; obtain ⟨b1, b2, b3⟩ := b; obtain ⟨c1, c2, c3⟩ := c; ver_decide
example : vle (1, 0, 7) (1, 1, 0) = true ∧ vle (1, 1, 0) (2, 0, 0) = true := by decide

/-- … and antisymmetric (two versions that are `≤` each other are the same triple). -/
theorem vle_antisymm (a b : V) : vle a b = true → vle b a = true → a = b := by
  obtain ⟨a1, a2, a3⟩ := a; obtain ⟨b1, b2, b3⟩ := b; ver_decide
example : vle (3, 1, 4) (3, 1, 4) = true := by decide

/-- `__eq__` is equality of the triples. -/
theorem veq_iff_eq (a b : V) : veq a b = true ↔ a = b := by
  obtain ⟨a1, a2, a3⟩ := a; obtain ⟨b1, b2, b3⟩ := b; ver_decide
example : veq (1, 2, 3) (1, 2, 3) = true ∧ veq (1, 2, 3) (1, 2, 4) = false := by decide

/-- `__ne__` is the negation of `__eq__`. -/
theorem vne_eq_not_veq (a b : V) : vne a b = !veq a b := by
  obtain ⟨a1, a2, a3⟩ := a; obtain ⟨b1, b2, b3⟩ := b; ver_decide
example : vne (1, 2, 3) (1, 2, 4) = true ∧ vne (1, 2, 3) (1, 2, 3) = false := by decide

/-- `a >= b` is `b <= a`. -/
theorem vge_eq_vle_swap (a b : V) : vge a b = vle b a := by
  obtain ⟨a1, a2, a3⟩ := a; obtain ⟨b1, b2, b3⟩ := b; ver_decide
example : vge (2, 0, 0) (1, 9, 9) = true ∧ vge (1, 9, 9) (2, 0, 0) = false := by decide

/-- `a > b` is `a >= b and a != b`. -/
theorem vgt_eq (a b : V) : vgt a b = (vge a b && vne a b) := by
  obtain ⟨a1, a2, a3⟩ := a; obtain ⟨b1, b2, b3⟩ := b; ver_decide
example : vgt (1, 1, 1) (1, 1, 0) = true ∧ vgt (1, 1, 1) (1, 1, 1) = false := by decide

/-- `a < b` is `a <= b and a != b`. -/
theorem vlt_eq (a b : V) : vlt a b = (vle a b && vne a b) := by
  obtain ⟨a1, a2, a3⟩ := a; obtain ⟨b1, b2, b3⟩ := b; ver_decide
example : vlt (1, 1, 0) (1, 1, 1) = true ∧ vlt (1, 1, 1) (1, 1, 1) = false := by decide

/-- strict and non-strict operators are complementary: `a < b` iff not `a >= b` … -/
theorem vlt_eq_not_vge (a b : V) : vlt a b = !vge a b := by
  obtain ⟨a1, a2, a3⟩ := a; obtain ⟨b1, b2, b3⟩ := b; ver_decide
example : vlt (0, 0, 1) (0, 1, 0) = true ∧ vge (0, 0, 1) (0, 1, 0) = false := by decide

/-- … and `a > b` iff not `a <= b`. -/
theorem vgt_eq_not_vle (a b : V) : vgt a b = !vle a b := by
  obtain ⟨a1, a2, a3⟩ := a; obtain ⟨b1, b2, b3⟩ := b; ver_decide
example : vgt (0, 1, 0) (0, 0, 1) = true ∧ vle (0, 1, 0) (0, 0, 1) = false := by decide

/-- `a > b` is `b < a`. -/
theorem vgt_eq_vlt_swap (a b : V) : vgt a b = vlt b a := by
  obtain ⟨a1, a2, a3⟩ := a; obtain ⟨b1, b2, b3⟩ := b; ver_decide
example : vgt (5, 0, 0) (4, 9, 9) = true ∧ vlt (4, 9, 9) (5, 0, 0) = true := by decide

/-- exactly one of `<`, `==`, `>` holds. -/
theorem trichotomy (a b : V) :
    (vlt a b = true ∧ veq a b = false ∧ vgt a b = false) ∨
    (vlt a b = false ∧ veq a b = true ∧ vgt a b = false) ∨
    (vlt a b = false ∧ veq a b = false ∧ vgt a b = true) := by
  obtain ⟨a1, a2, a3⟩ := a; obtain ⟨b1, b2, b3⟩ := b; ver_decide
example : vlt (1, 0, 0) (1, 0, 1) = true ∧ veq (1, 0, 1) (1, 0, 1) = true
    ∧ vgt (1, 1, 0) (1, 0, 1) = true := by decide

/-- `self.newer(than)` is `self > than` (with `than` read as the triple it is). -/
theorem newer_eq_vgt (a b : V) : newer a b = vgt a b := by
  obtain ⟨a1, a2, a3⟩ := a; obtain ⟨b1, b2, b3⟩ := b; ver_decide
example : newer (1, 1, 0) (1, 0, 9) = true ∧ newer (1, 0, 9) (1, 0, 9) = false
    ∧ newer (1, 0, 9) (1, 1, 0) = false := by decide

end DawgieVerif.C15
