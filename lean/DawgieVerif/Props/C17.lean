/-
C17 — search returns exactly the matching entries, in order, page by page
(shelve backend: `db.basis.SearchFacade` + `db.shelve.search.SearchImplementation`).

Model: `Model/Search.lean` (executable, mirrors the Python), specification: `Model/SearchSpec.lean`.
`Range.__contains__`, the `_align` column order, the `_table_index` table choice and the default
`keylen` are regenerated from the source on every run (`Generated/Search.lean`), so every theorem
below is re-checked against what the code says now.
-/
import DawgieVerif.Proofs.SearchFind

namespace DawgieVerif.C17
open DawgieVerif.Search

/-- Normalising a run-ID expression never changes the set of run IDs it denotes: for every
    expression (any order, closed / open / empty / overlapping / adjacent ranges, repeated and
    negative members) and every integer `i` — in particular every run ID `i ≥ 0`. -/
theorem scrub_same_set (e : Expr) (i : Int) : denote (scrub e) i ↔ denote e i :=
  scrub_denote e i

/-- a text whose pieces all parse denotes what its members denote; `parse` fails exactly when a
    piece is malformed (the Python raises ValueError there) -/
theorem parse_fails_iff (ts : List Tok) : parse ts = none ↔ Tok.bad ∈ ts := by
  induction ts with
  | nil => simp [parse]
  | cons t ts ih =>
    cases t with
    | int i => simp [parse, ih]
    | rng a b => simp [parse, ih]
    | empty => simp [parse, ih]
    | bad => simp [parse]

/-- `find` returns exactly the matching entries: there is a list `full` which
    (1) contains exactly the state-vector collapses of the prime keys that satisfy every given
        constraint — the run-ID expression as the caller wrote it, exact names per column —,
    (2) is strictly ascending in tuple order (so it has no repeats and is determined by (1)),
    and the answer is the requested page of `full`, rendered position by position, together with
    the full count.  Holds for every database with non-negative in-range ids, every combination
    of constraints, every `index` and every `limit` (including 0 and "none"). -/
theorem find_exact (db : DB) (hnn : db.NonNeg) (hir : db.InRange) (p : Params)
    (index : Nat) (limit : Option Nat) :
    ∃ full : List Key5,
      (∀ k5, k5 ∈ full ↔ ∃ k, k ∈ db.prime ∧ Sat db p k ∧ k.collapse = k5) ∧
      Asc Key5.lt full ∧
      ∃ rows, Pointwise (RendersTo db) (pySlice full index limit) rows ∧
        find db p index limit = some (rows, full.length) := by
  refine ⟨matching db p, mem_matching db hnn p, asc_matching db p, ?_⟩
  have hin : ∀ k5, k5 ∈ pySlice (matching db p) index limit →
      ∃ k, k ∈ db.prime ∧ k.collapse = k5 := by
    intro k5 h
    obtain ⟨k, hk, _, hc⟩ := (mem_matching db hnn p k5).1 (pySlice_subset _ _ _ _ h)
    exact ⟨k, hk, hc⟩
  obtain ⟨rows, hrows⟩ := mapOpt_exists (render db) (pySlice (matching db p) index limit) (by
    intro k5 h
    obtain ⟨k, hk, rfl⟩ := hin k5 h
    have n := hnn k hk
    have r := hir k hk
    exact render_exists db k.collapse ⟨n.2.1, r.1⟩ ⟨n.2.2.1, r.2.1⟩ ⟨n.2.2.2.1, r.2.2.1⟩
      ⟨n.2.2.2.2.1, r.2.2.2⟩)
  refine ⟨rows, ?_, ?_⟩
  · apply Pointwise.imp _ _ _ (mapOpt_pointwise _ _ _ hrows)
    intro k5 row hk5 hr
    obtain ⟨k, hk, rfl⟩ := hin k5 hk5
    have n := hnn k hk
    exact (render_some_iff db k.collapse row n.2.1 n.2.2.1 n.2.2.2.1 n.2.2.2.2.1).1 hr
  · rw [find_eq, hrows]

/-- the specification of `find_exact` pins the result down: two strictly ascending lists with the
    same members are equal -/
theorem matching_unique (l₁ l₂ : List Key5) (h₁ : Asc Key5.lt l₁) (h₂ : Asc Key5.lt l₂)
    (h : ∀ k5, k5 ∈ l₁ ↔ k5 ∈ l₂) : l₁ = l₂ :=
  asc_ext key5_strict l₁ l₂ h₁ h₂ h

/-- Whatever `find` returns is in ascending run-ID order — indeed the rows are the renderings of a
    strictly ascending (tuple order) list of keys.  No assumption on the database. -/
theorem ascending (db : DB) (p : Params) (index : Nat) (limit : Option Nat)
    (rows : List Row) (total : Nat) (h : find db p index limit = some (rows, total)) :
    (rows.map Row.run).Pairwise (· ≤ ·) ∧
    ∃ keys, Asc Key5.lt keys ∧ Pointwise (fun k r => render db k = some r) keys rows := by
  rw [find_eq] at h
  cases hm : mapOpt (render db) (pySlice (matching db p) index limit) with
  | none => rw [hm] at h; cases h
  | some rows' =>
    rw [hm] at h
    simp only [Option.some.injEq, Prod.mk.injEq] at h
    obtain ⟨rfl, _⟩ := h
    have hasc : Asc Key5.lt (pySlice (matching db p) index limit) :=
      List.Pairwise.sublist (pySlice_sublist _ _ _) (asc_matching db p)
    refine ⟨?_, _, hasc, mapOpt_pointwise _ _ _ hm⟩
    rw [mapOpt_render_run db _ _ hm, List.pairwise_map]
    apply List.Pairwise.imp _ hasc
    intro a b hab
    rw [key5_lt_iff] at hab
    omega

/-- Every page is the corresponding slice of the complete answer and reports the same total,
    which is the length of the complete answer (`limit = 0` gives the total alone). -/
theorem page_is_slice (db : DB) (p : Params) (all : List Row) (total : Nat)
    (h : find db p 0 none = some (all, total)) (index : Nat) (limit : Option Nat) :
    find db p index limit = some (pySlice all index limit, total) ∧ total = all.length :=
  ⟨find_slice db p all total h index limit, find_total db p all total h⟩

/-- Consecutive pages of size `L > 0` concatenate to the full list, without gaps or repeats,
    and each of them reports the full count. -/
theorem pages_concat (db : DB) (p : Params) (all : List Row) (total : Nat)
    (h : find db p 0 none = some (all, total)) (L : Nat) (hL : 0 < L) (n : Nat)
    (hn : total ≤ n * L) :
    ∃ page : Nat → List Row,
      (∀ j, find db p (j * L) (some L) = some (page j, total)) ∧
      (List.range n).flatMap page = all := by
  refine ⟨fun j => pySlice all (j * L) (some L), fun j => find_slice db p all total h _ _, ?_⟩
  apply pages_flatMap L hL n all
  rw [← find_total db p all total h]; exact hn

/-- Facet soundness (targets / tasks / algorithms / state vectors): a successful facet request lists,
    in strictly ascending order and without repeats, exactly the names found in the requested
    column of the prime keys that satisfy the other constraints. -/
theorem facet_sound (db : DB) (hnn : db.NonNeg) (p : Params) (names : List String)
    (h : facet db p = .ok names) :
    ∃ col cat, facetColumn db p = some (col, cat) ∧ Asc strLt names ∧
      ∀ n, n ∈ names ↔ ∃ k, k ∈ db.prime ∧ Sat db p k ∧ cat.index[(col k).toNat]? = some n := by
  unfold facet at h
  cases hf : facetField p with
  | error e => rw [hf] at h; cases h
  | ok f =>
    rw [hf] at h
    simp only at h
    have finish : ∀ (g : Key5 → Int) (gk : Key → Int) (c : Cat),
        (∀ k, g k.collapse = gk k) → (∀ k, k ∈ db.prime → 0 ≤ gk k) →
        (facetNames db (scrubParams p) f =
          match mapOpt (fun pk => pyIndex c.index (g pk)) (matching db p) with
          | none => .error .indexError
          | some names => .ok (sortDedup strLt names)) →
        Asc strLt names ∧
          ∀ n, n ∈ names ↔ ∃ k, k ∈ db.prime ∧ Sat db p k ∧ c.index[(gk k).toNat]? = some n := by
      intro g gk c hg hpos heq
      rw [heq] at h
      cases hm : mapOpt (fun pk => pyIndex c.index (g pk)) (matching db p) with
      | none => rw [hm] at h; cases h
      | some names0 =>
        rw [hm] at h
        simp only [Except.ok.injEq] at h
        subst h
        exact facet_core db hnn p g gk hg hpos c names0 hm
    rcases facetField_cases p f hf with ⟨rfl, h1⟩ | ⟨rfl, h1, h2⟩ | ⟨rfl, h1, h2, h3⟩ |
      ⟨rfl, h1, h2, h3, h4⟩
    · refine ⟨Key.tgt, db.target, by simp [facetColumn, h1], ?_⟩
      exact finish Key5.tgt Key.tgt db.target (fun _ => rfl) (fun k hk => (hnn k hk).2.1)
        (facetNames_eq db p _ "target" db.target Key5.tgt rfl rfl (fun _ => rfl))
    · refine ⟨Key.task, db.task, by simp [facetColumn, h1, h2], ?_⟩
      exact finish Key5.task Key.task db.task (fun _ => rfl) (fun k hk => (hnn k hk).2.2.1)
        (facetNames_eq db p _ "task" db.task Key5.task rfl rfl (fun _ => rfl))
    · refine ⟨Key.alg, db.alg, by simp [facetColumn, h1, h2, h3], ?_⟩
      exact finish Key5.alg Key.alg db.alg (fun _ => rfl) (fun k hk => (hnn k hk).2.2.2.1)
        (facetNames_eq db p _ "alg" db.alg Key5.alg rfl rfl (fun _ => rfl))
    · refine ⟨Key.sv, db.state, by simp [facetColumn, h1, h2, h3, h4], ?_⟩
      exact finish Key5.sv Key.sv db.state (fun _ => rfl) (fun k hk => (hnn k hk).2.2.2.2.1)
        (facetNames_eq db p _ "state" db.state Key5.sv rfl rfl (fun _ => rfl))

/-! ### non-vacuity: one concrete database, constraints of every kind, a middle page -/

section examples

def exDB : DB where
  prime := [⟨3, 0, 0, 1, 1, 0⟩, ⟨1, 0, 0, 0, 0, 0⟩, ⟨1, 0, 0, 0, 0, 1⟩, ⟨2, 1, 0, 0, 0, 0⟩,
            ⟨5, 0, 0, 0, 0, 0⟩, ⟨2, 0, 0, 0, 0, 1⟩]
  target := ⟨[("T", 0), ("T2", 1)], ["T", "T2"]⟩
  task := ⟨[("tk", 0)], ["tk"]⟩
  alg := ⟨[("A", 0), ("A", 1)], ["A", "A"]⟩
  state := ⟨[("S", 0), ("S", 1)], ["S", "S"]⟩
  value := ⟨[("v", 0), ("w", 1)], ["v", "w"]⟩

def exExpr : Expr :=
  [Item.idx 9, Item.rng ⟨2, some 4⟩, Item.idx 1, Item.rng ⟨3, none⟩, Item.idx 3]

def exParams : Params := ⟨some exExpr, some ["T", "nope"], none, some [], none, none⟩

/-- `'9,2:4,1,3:,3'` normalises to `[2:, 1]` -/
example : scrub exExpr = [Item.rng ⟨2, none⟩, Item.idx 1] := by decide

/-- run 1 is denoted, run 0 is not; `-1` alone denotes everything -/
example : denote exExpr 1 ∧ ¬ denote exExpr 0 ∧
    denote [Item.idx (-1)] 7 := by
  refine ⟨Or.inr ⟨Item.idx 1, by decide, rfl⟩, ?_, Or.inl (by intro it h; simpa using h)⟩
  rintro (h | ⟨it, hit, hh⟩)
  · have := h (Item.idx 9) (by decide); cases this
  · simp only [exExpr, List.mem_cons, List.not_mem_nil, or_false] at hit
    rcases hit with rfl | rfl | rfl | rfl | rfl <;> simp [Item.Has, Range.Has] at hh

/-- the hypotheses of `find_exact` hold for `exDB` -/
example : exDB.NonNeg ∧ exDB.InRange := by
  constructor
  · intro k hk
    simp only [exDB, List.mem_cons, List.not_mem_nil, or_false] at hk
    rcases hk with rfl | rfl | rfl | rfl | rfl | rfl <;> decide
  · intro k hk
    simp only [exDB, List.mem_cons, List.not_mem_nil, or_false] at hk
    rcases hk with rfl | rfl | rfl | rfl | rfl | rfl <;> decide

/-- four matches (the two values of run 1 collapse into one entry, target `T2` is excluded);
    the page `index = 1, limit = 2` holds the second and third of them -/
example : find exDB exParams 1 (some 2) =
    some ([⟨2, "T", "tk", "A", "S"⟩, ⟨3, "T", "tk", "A", "S"⟩], 4) := by decide +kernel

example : find exDB exParams 0 none =
    some ([⟨1, "T", "tk", "A", "S"⟩, ⟨2, "T", "tk", "A", "S"⟩, ⟨3, "T", "tk", "A", "S"⟩,
           ⟨5, "T", "tk", "A", "S"⟩], 4) := by decide +kernel

/-- facet over the algorithm column of `exParams` (its `algs` member is `[]`) -/
example : facet exDB exParams = .ok ["A"] := by rfl

/-- a malformed piece makes the whole text fail -/
example : parse [Tok.int 6, Tok.empty, Tok.rng (some 13) none, Tok.bad] = none := by decide

end examples

end DawgieVerif.C17
