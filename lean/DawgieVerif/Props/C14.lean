/-
C14 — message streams are fragmentation-proof (frame loop shared by the farm,
database and log channels).  Handshake theorems: see `Props/C14Handshake.lean`.
-/
import DawgieVerif.Proofs.Frame

namespace DawgieVerif.C14
open DawgieVerif.Frame

/-- Two consecutive `dataReceived` calls behave like one call with the concatenation. -/
theorem feed_append (s : St) (a b : Bytes) :
    feed s (a ++ b) = ((feed (feed s a).1 b).1, (feed s a).2 ++ (feed (feed s a).1 b).2) := by
  unfold feed
  have := loop_append ⟨s.buf ++ a, s.len⟩ b
  simpa [List.append_assoc] using this

/-- Any fragmentation / coalescing of the byte stream yields the same messages and the
    same residual protocol state as delivery in one piece. -/
theorem any_chunking (s : St) (hs : Stable s) (chunks : List Bytes) :
    feedAll s chunks = feed s chunks.flatten := by
  induction chunks generalizing s with
  | nil => simp [feedAll, feed]; exact hs.symm
  | cons c cs ih =>
    simp only [feedAll, List.flatten_cons]
    rw [ih _ (feed_stable s c), feed_append]

/-- Whole-message delivery: framed messages come out unchanged, in order, nothing left over. -/
theorem frames_roundtrip (ms : List Bytes) (hlen : ∀ m ∈ ms, m.length < 4294967296) :
    feed init (ms.map frame).flatten = (init, ms) := by
  unfold feed init
  simp only [List.nil_append]
  exact loop_frames ms hlen

/-- Hence any chunking of a framed message sequence yields exactly that sequence. -/
theorem chunked_frames (ms : List Bytes) (hlen : ∀ m ∈ ms, m.length < 4294967296)
    (chunks : List Bytes) (hc : chunks.flatten = (ms.map frame).flatten) :
    feedAll init chunks = (init, ms) := by
  rw [any_chunking _ init_stable, hc, frames_roundtrip ms hlen]

/-- The blocking receiver (`message.receive`) reads the same first message as the
    reassembly loop. -/
theorem recv1_agrees (m rest : Bytes) (hlen : m.length < 4294967296) :
    recv1 (frame m ++ rest) = some (m, rest) := by
  exact recv1_frame m rest hlen

/-- non-vacuity: a two-message stream cut in the middle of a prefix and of a payload -/
example : feedAll init [[0,0,0], [2,7,8,0,0], [0,1], [9]] = (init, [[7,8],[9]]) := by
  simp [feedAll, feed, init, loop, beNat, W, Generated.prefixWidth]

end DawgieVerif.C14
