/-
C11 — work goes only to eligible workers, only while the pipeline is active.

`Farm.run (FSt.init rev) ops` is the worker side of the farm after a history of registrations
(matching or stale revision), disconnects, status polls, dispatch ticks (each with the task
messages the scheduler queued in that tick), notifications, replies, revision changes, `clear()`
and life-cycle activity changes.  `ValidRun` is the environment assumption: a connection registers
once; the life-cycle changes the revision only while inactive and becomes active again only after
`farm.clear()` ran (that ordering is what C10 establishes for `update → … → load`).
-/
import DawgieVerif.Proofs.Farm
import DawgieVerif.Proofs.SchedMsgs

namespace DawgieVerif.C11
open DawgieVerif.Farm DawgieVerif.Sched

/-- **Only eligible workers.**  Every task message written by a dispatch tick goes to a
    connection that was in the idle list, is still connected, holds no task, and registered with
    the pipeline's current revision — and the pipeline is active (and stays active in that tick:
    a tick that fires the archive hands out nothing). -/
theorem only_eligible (rev : Nat) (ops : List FOp) (hv : ValidRun (FSt.init rev) ops)
    (new : List Msg) (w : Nat) (m : Msg)
    (hw : (w, Wire.task m) ∈ (Farm.dispatch (Farm.run (FSt.init rev) ops) new).log)
    (hold : (w, Wire.task m) ∉ (Farm.run (FSt.init rev) ops).log) :
    (Farm.run (FSt.init rev) ops).active = true ∧ w ∈ (Farm.run (FSt.init rev) ops).workers ∧
    (Farm.run (FSt.init rev) ops).conn w = true ∧ (Farm.run (FSt.init rev) ops).holds w = none ∧
    (Farm.run (FSt.init rev) ops).regRev w = some (Farm.run (FSt.init rev) ops).gitRev ∧
    (Farm.dispatch (Farm.run (FSt.init rev) ops) new).active = true := by
  have h := Farm.run_inv (FSt.init rev) ops (finv_init rev) hv
  generalize Farm.run (FSt.init rev) ops = s at h hw hold
  by_cases ha : s.active = true
  · rw [dispatch_eq s new ha] at hw ⊢
    have hpre := preArchive_inv s new h
    rw [dispatchCore_log _ new hpre] at hw
    -- the part of the state `preArchive` does not touch
    have hsame : (preArchive s new).workers = s.workers ∧ (preArchive s new).log = s.log ∧
        (preArchive s new).cluster = s.cluster := by
      unfold preArchive; split <;> simp
    rw [hsame.1, hsame.2.1, hsame.2.2] at hw
    simp only [List.mem_append, List.mem_map] at hw
    rcases hw with (hw | hw) | hw
    · exact absurd hw hold
    · obtain ⟨p, hp, heq⟩ := hw
      have hwm : w = p.1 := by simp at heq; exact heq.1.symm
      have hin : w ∈ s.workers := by
        rw [hwm]; exact List.mem_of_mem_take (mem_zip_fst hp)
      obtain ⟨r, hr, hrr⟩ := h.rev w hin
      -- a pair was handed out, so the queue was not empty and the archive did not fire
      have hnofire : preArchive s new = s := by
        unfold preArchive
        split
        · rename_i hc
          exfalso
          rw [hc.2.1, hc.2.2.2] at hp
          simp [sortCluster_nil] at hp
        · rfl
      refine ⟨ha, hin, h.alive w hin, h.idle w hin, by rw [hr, hrr (h.act ha)], ?_⟩
      rw [hnofire]
      unfold dispatchCore
      generalize sortCluster (s.cluster ++ new) = c
      have hsp := assign_spec s.workers c { s with cluster := c, enq := s.enq ++ new } h.nodup
      rw [notifyAll_active _ (by rw [hsp.2.2.2.2.1]; exact ha)]
      dsimp only
      rw [hsp.2.2.2.2.1]; exact ha
    · obtain ⟨u, _, heq⟩ := hw
      simp at heq
      split at heq <;> simp at heq
  · have : s.active = false := by cases hs : s.active <;> simp_all
    unfold Farm.dispatch at hw
    simp only [this, if_true] at hw
    exact absurd hw hold

/-- **The tick that turns the pipeline inactive tells the waiting workers to leave.**  When a
    dispatch tick itself fires the archive (new data arrived, nothing released, queued or busy),
    every idle worker is sent the abort message in that same tick and the idle list is emptied. -/
theorem archive_tick_aborts (s : FSt) (h : FInv s) (ha : s.active = true) (harch : s.archive = true)
    (hb : s.busy = []) (hc : s.cluster = []) :
    (Farm.dispatch s []).active = false ∧ (Farm.dispatch s []).workers = [] ∧
    (Farm.dispatch s []).log = s.log ++ s.workers.map (fun w => (w, Wire.abort)) := by
  rw [dispatch_eq s [] ha]
  have hpre : preArchive s [] = { s with active := false } := by
    unfold preArchive; rw [if_pos ⟨harch, rfl, hb, hc⟩]
  rw [hpre]
  unfold dispatchCore
  dsimp only
  rw [hc]
  simp only [List.append_nil, sortCluster_nil, assign_nil]
  rw [notifyAll_inactive _ rfl]
  exact ⟨rfl, rfl, rfl⟩

/-- No worker is given two tasks in one tick, and no message goes to two workers: the tick
    pairs distinct workers with distinct positions of the queue. -/
theorem one_task_per_worker (rev : Nat) (ops : List FOp) (hv : ValidRun (FSt.init rev) ops)
    (c : List Msg) : (((Farm.run (FSt.init rev) ops).workers.zip c).map (·.1)).Nodup := by
  have h := Farm.run_inv (FSt.init rev) ops (finv_init rev) hv
  exact List.Nodup.sublist (map_fst_zip_sub _ _) h.nodup

/-- **While the pipeline is not active nothing is sent but "leave".**  In a state that is not
    active, whatever step happens next writes only abort messages (and a dispatch tick writes
    nothing at all). -/
theorem inactive_only_abort (s : FSt) (hina : s.active = false) (op : FOp)
    (hop : ∀ b, op ≠ .setActive b) (w : Nat) (x : Wire)
    (hw : (w, x) ∈ (Farm.step s op).log) (hold : (w, x) ∉ s.log) : x = .abort := by
  cases op with
  | register u rev =>
    simp only [Farm.step, register] at hw
    split at hw
    · simp only [List.mem_append, List.mem_singleton, Prod.mk.injEq] at hw
      rcases hw with c | c
      · exact absurd c hold
      · exact c.2
    · exact absurd hw hold
  | disconnect u => exact absurd hw hold
  | status u rev =>
    simp only [Farm.step, status, hina, or_true, if_true, List.mem_append, List.mem_singleton,
      Prod.mk.injEq] at hw
    rcases hw with c | c
    · exact absurd c hold
    · exact c.2
  | dispatch new =>
    simp only [Farm.step, Farm.dispatch, hina, if_true] at hw
    exact absurd hw hold
  | notifyAll =>
    simp only [Farm.step, notifyAll, hina, Bool.false_eq_true, if_false, List.mem_append,
      List.mem_map] at hw
    rcases hw with c | ⟨u, _, c⟩
    · exact absurd c hold
    · simp at c; exact c.2.symm
  | reply a b => exact absurd hw hold
  | setRev r => exact absurd hw hold
  | clear => exact absurd hw hold
  | setActive b => exact absurd rfl (hop b)
  | setArchive b => exact absurd hw hold

/-- **Tasks that cannot be placed stay queued**: after a tick the messages handed out together
    with the queue are a permutation of the old queue plus the newly queued messages —
    nothing is lost, nothing duplicated. -/
theorem unplaced_stay (s : FSt) (new : List Msg) (h : FInv s) (ha : s.active = true) :
    List.Perm
      (((s.workers.zip (sortCluster (s.cluster ++ new))).map (·.2)) ++ (Farm.dispatch s new).cluster)
      (s.cluster ++ new) := by
  have hsame : (preArchive s new).workers = s.workers ∧ (preArchive s new).cluster = s.cluster := by
    unfold preArchive; split <;> simp
  have hpre := preArchive_inv s new h
  have hc : (Farm.dispatch s new).cluster =
      (sortCluster (s.cluster ++ new)).drop s.workers.length := by
    rw [dispatch_eq s new ha, dispatchCore_cluster _ new hpre, hsame.1, hsame.2]
  rw [hc]
  have : (s.workers.zip (sortCluster (s.cluster ++ new))).map (·.2) =
      (sortCluster (s.cluster ++ new)).take s.workers.length := by
    exact map_snd_zip_take _ _
  rw [this, List.take_append_drop]
  exact sortCluster_perm _

/-- **A task message goes to at most one worker**: counted with multiplicity, every message that
    was queued before the tick or queued by it is either handed to exactly one idle worker in the
    tick or is still in the queue afterwards — never both, never twice, never neither. -/
theorem handed_xor_queued (s : FSt) (new : List Msg) (h : FInv s) (ha : s.active = true) (m : Msg) :
    ((s.workers.zip (sortCluster (s.cluster ++ new))).map (·.2)).count m +
      (Farm.dispatch s new).cluster.count m = (s.cluster ++ new).count m := by
  have hp := (unplaced_stay s new h ha).count_eq m
  rwa [List.count_append] at hp

/-- **Each task message is the one its unit was made for**: job and target of the released unit,
    run 0 for regressions, otherwise the run id of the triggering event, or a fresh one drawn
    exactly when the event carried none. -/
theorem message_fields (g : Graph) (s : St) (x : Name) (m : Msg)
    (hm : m ∈ putMsgs g x (s.node x) (jobRunid s (s.node x))) :
    m.job = x ∧
    (g.kind x = .analysis → m.target = ALL) ∧
    (g.kind x ≠ .analysis → m.target ∈ (s.node x).do_) ∧
    (g.kind x = .regress → m.runid = 0) ∧
    (g.kind x ≠ .regress → ∀ r, (s.node x).runid = some r → m.runid = r) ∧
    (g.kind x ≠ .regress → (s.node x).runid = none → m.runid = s.nextRun) := by
  unfold putMsgs at hm
  cases hk : g.kind x <;> simp only [hk] at hm <;> simp at hm
  · obtain ⟨t, ht, rfl⟩ := hm
    refine ⟨rfl, by simp, fun _ => ht, by simp, ?_, ?_⟩
    · intro _ r hr; simp [jobRunid, hr]
    · intro _ hr; simp [jobRunid, hr]
  · subst hm
    refine ⟨rfl, fun _ => rfl, by simp, by simp, ?_, ?_⟩
    · intro _ r hr; simp [jobRunid, hr]
    · intro _ hr; simp [jobRunid, hr]
  · obtain ⟨t, ht, rfl⟩ := hm
    exact ⟨rfl, by simp, fun _ => ht, fun _ => rfl, by simp, by simp⟩

/-- A fresh run id is drawn exactly when the event carried none, and fresh ids strictly grow. -/
theorem fresh_id_drawn_iff (g : Graph) (s : St) (x : Name) :
    ((s.node x).runid = none → (putJob g s x).nextRun = s.nextRun + 1) ∧
    (∀ r, (s.node x).runid = some r → (putJob g s x).nextRun = s.nextRun) := by
  constructor
  · intro h; simp [putJob, nextAfter, h]
  · intro r h; simp [putJob, nextAfter, h]


/-! non-vacuity: a valid history with a stale registration, a disconnect and a reload; the tick
    hands the queued task to the one eligible worker and nothing to the others. -/
def demoOps : List FOp :=
  [.setActive true, .register 1 0, .register 2 9, .register 3 0, .disconnect 1,
   .dispatch [⟨0, 1, 5⟩, ⟨0, 2, 5⟩]]

example : Farm.ValidRun (FSt.init 0) demoOps := by
  simp [demoOps, Farm.ValidRun, Farm.OpOk, Farm.step, register, disconnect, FSt.init, setF]

example : (Farm.run (FSt.init 0) demoOps).log =
    [(2, Wire.abort), (3, Wire.task ⟨0, 1, 5⟩)] ∧
    (Farm.run (FSt.init 0) demoOps).cluster = [⟨0, 2, 5⟩] := by
  decide +kernel

/-- the archive tick: a waiting worker is told to leave in the tick that makes the pipeline inactive -/
example : (Farm.run (FSt.init 0) [.setActive true, .register 1 0, .setArchive true, .dispatch []]).log =
    [(1, Wire.abort)] := by
  decide +kernel

/-- `handed_xor_queued` on a reachable state: one idle worker, two queued tasks plus one new: one is
    handed out (count 1 + 0), the other two stay (0 + 1 each). -/
example :
    let s := Farm.run (FSt.init 0) [.setActive true, .register 3 0]
    let new : List Msg := [⟨0, 1, 5⟩, ⟨0, 2, 5⟩, ⟨1, 1, 5⟩]
    s.active = true ∧ s.workers = [3] ∧
    ((s.workers.zip (sortCluster (s.cluster ++ new))).map (·.2)).length = 1 ∧
    (Farm.dispatch s new).cluster.length = 2 := by
  decide +kernel

end DawgieVerif.C11
