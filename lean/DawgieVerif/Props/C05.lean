/-
C05 — a failed run is contained to its own target and its dependents.

`reply g s x t o …` is `farm.Hand._res` for a result of unit `(x, t)`; `g.desc x` are the nodes
the recursive withdrawal visits (`x` itself and every transitive dependent: `_purge` walks the
children of the real graph).  `s` is the scheduler after an arbitrary history.
-/
import DawgieVerif.Proofs.SchedInv

namespace DawgieVerif.C05
open DawgieVerif.Sched

/-- the state after a non-success reply that found its job: `complete`, then `purge` -/
theorem failure_reply_eq (g : Graph) (s : St) (x : Name) (t : Target) (o : Outcome) (rid : Nat)
    (news : List Val) (ne : Bool) (ho : o ≠ .success) (hx : x ∈ s.que) :
    (reply g s x t o rid news ne).1 =
      purge g (complete { s with inflight := s.inflight.erase (x, t) } x t o rid) x t := by
  unfold reply
  cases o
  · exact absurd rfl ho
  · simp only [hx, if_true]
  · simp only [hx, if_true]

/-- (1) The failed target is withdrawn from the pending work of the failed algorithm and of
    every transitive dependent. -/
theorem withdrawn (g : Graph) (s : St) (x : Name) (t : Target) (o : Outcome) (rid : Nat)
    (news : List Val) (ne : Bool) (ho : o ≠ .success) (hx : x ∈ s.que) :
    ∀ n ∈ g.desc x, t ∉ ((reply g s x t o rid news ne).1.node n).todo := by
  intro n hn
  rw [failure_reply_eq g s x t o rid news ne ho hx]
  simp [purge, hn, purgeNode]

/-- (2) Pending work for other targets, and pending work of algorithms that do not depend on
    the failed one, is unchanged; nobody gains pending work (no dependent is triggered). -/
theorem pending_frame (g : Graph) (s : St) (x : Name) (t : Target) (o : Outcome) (rid : Nat)
    (news : List Val) (ne : Bool) (ho : o ≠ .success) (hx : x ∈ s.que) (n : Name) (u : Target) :
    (u ∈ ((reply g s x t o rid news ne).1.node n).todo → u ∈ (s.node n).todo) ∧
    ((u ≠ t ∨ n ∉ g.desc x) →
      (u ∈ ((reply g s x t o rid news ne).1.node n).todo ↔ u ∈ (s.node n).todo)) := by
  rw [failure_reply_eq g s x t o rid news ne ho hx]
  have hc : ((complete { s with inflight := s.inflight.erase (x, t) } x t o rid).node n).todo =
      (s.node n).todo := by
    unfold complete
    by_cases hn : n = x
    · subst hn; simp
    · simp [setNode_other _ _ _ _ hn]
  unfold purge
  simp only [prune_node]
  split
  · rename_i hd
    simp only [purgeNode, List.mem_filter, hc]
    constructor
    · intro h; exact h.1
    · intro h
      rcases h with h | h
      · simp [h]
      · exact absurd hd h
  · rw [hc]; exact ⟨id, fun _ => Iff.rfl⟩

/-- (3) Executing work of every other algorithm is untouched; of the failed algorithm only the
    failed unit leaves the executing set. -/
theorem executing_frame (g : Graph) (ts : List Target) (ops : List Op) (x : Name) (t : Target)
    (o : Outcome) (rid : Nat) (news : List Val) (ne : Bool) (ho : o ≠ .success)
    (hx : x ∈ (run g (St.init ts) ops).que) (n : Name) (u : Target) :
    (n ≠ x → (u ∈ ((reply g (run g (St.init ts) ops) x t o rid news ne).1.node n).doing ↔
                u ∈ ((run g (St.init ts) ops).node n).doing)) ∧
    (t ≠ ALL → (u ∈ ((reply g (run g (St.init ts) ops) x t o rid news ne).1.node x).doing ↔
                u ∈ ((run g (St.init ts) ops).node x).doing ∧ u ≠ t)) := by
  have hinv := run_inv g (St.init ts) ops (inv_init ts)
  generalize run g (St.init ts) ops = s at hinv hx
  rw [failure_reply_eq g s x t o rid news ne ho hx]
  have hci := complete_pre s x t o rid hinv
  have hpd : ∀ m, ((purge g (complete { s with inflight := s.inflight.erase (x, t) } x t o rid) x t).node m).doing =
      ((complete { s with inflight := s.inflight.erase (x, t) } x t o rid).node m).doing := by
    intro m
    unfold purge
    simp only [prune_node]
    split
    · exact purgeNode_doing t _ (hci.dr m)
    · rfl
  constructor
  · intro hn
    rw [hpd n]
    unfold complete
    simp [setNode_other _ _ _ _ hn]
  · intro ht
    rw [hpd x]
    unfold complete
    simp [completeNode, ht]

/-- (4) The failed run triggers nothing: the queue does not grow. -/
theorem queue_not_grown (g : Graph) (s : St) (x : Name) (t : Target) (o : Outcome) (rid : Nat)
    (news : List Val) (ne : Bool) (ho : o ≠ .success) (hx : x ∈ s.que) (n : Name)
    (h : n ∈ (reply g s x t o rid news ne).1.que) : n ∈ s.que := by
  rw [failure_reply_eq g s x t o rid news ne ho hx] at h
  unfold purge at h
  rw [mem_prune] at h
  unfold complete at h
  have := h.1
  rw [mem_prune] at this
  exact this.1

/-- (5) The outcome is recorded in the execution history, exactly once, as the newest entry. -/
theorem outcome_recorded (g : Graph) (s : St) (x : Name) (t : Target) (o : Outcome) (rid : Nat)
    (news : List Val) (ne : Bool) (ho : o ≠ .success) (hx : x ∈ s.que) :
    (reply g s x t o rid news ne).1.chron = s.chron ++ [⟨x, t, o, rid⟩] := by
  rw [failure_reply_eq g s x t o rid news ne ho hx]
  rfl

/-- A result for a unit that is executing always finds its job (so (1)–(5) apply to it). -/
theorem executing_unit_is_queued (g : Graph) (ts : List Target) (ops : List Op) (x : Name) (t : Target)
    (h : t ∈ ((run g (St.init ts) ops).node x).doing) : x ∈ (run g (St.init ts) ops).que :=
  (run_inv g (St.init ts) ops (inv_init ts)).lq x (live_of_work (Or.inr (List.ne_nil_of_mem h)))

/-! non-vacuity: chain 0 → 1 → 2, everything requested for targets 1 and 2, the root's run for
    target 1 is invalid: target 1 disappears below, target 2 stays. -/
def chain : Graph :=
  { kind := fun _ => .task
    children := fun n => if n = 0 then [1] else if n = 1 then [2] else []
    desc := fun n => if n = 0 then [0, 1, 2] else if n = 1 then [1, 2] else [n]
    ancestry := fun n => if n = 1 then [0] else if n = 2 then [0, 1] else []
    consumes := fun n => if n = 1 then [0] else if n = 2 then [1] else []
    feedbackTo := fun _ => none
    level := fun n => n }

example :
    let s := run chain (St.init [1, 2]) [.organize [0, 1, 2] none [1, 2], .dispatch]
    let s' := (reply chain s 0 1 .invalid 1 [] true).1
    0 ∈ s.que ∧ (s'.node 2).todo = [2] ∧ (s'.node 1).todo = [2] ∧ (s'.node 0).doing = [2] := by
  decide +kernel

end DawgieVerif.C05
