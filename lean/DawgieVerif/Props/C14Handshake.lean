/-
C14 — the legacy (non-TLS) handshake gates the wrapped protocol.
All statements quantify over every `verify`/`decrypt` behaviour (`Env`), every byte stream
and every way of cutting it into `dataReceived` calls.

`hs_any_chunking` extends the fragmentation theorem of `Props/C14.lean` to a connection that
starts with the handshake: cutting the byte stream differently changes nothing observable.
-/
import DawgieVerif.Proofs.Handshake
import DawgieVerif.Proofs.HandshakeChunk

namespace DawgieVerif.C14
open DawgieVerif.Handshake

/-- No payload reaches the wrapped protocol, and the wrapped protocol sees no byte at all,
    unless the handshake completed. -/
theorem hs_gate (e : Env) (chunks : List Frame.Bytes) :
    (feedAllT e init chunks).restored = false →
      (feedAllT e init chunks).delivered = [] ∧ (feedAllT e init chunks).inner = Frame.init :=
  (feedAllT_inv e init chunks (inv_init e)).gate

/-- The handshake completes only if a reply was verified AND decrypts to the challenge
    that was sent (and a challenge was sent, i.e. the identification of phase 3 verified). -/
theorem hs_authenticated (e : Env) (chunks : List Frame.Bytes) :
    (feedAllT e init chunks).restored = true →
      (∃ reply, e.verify reply = true ∧ e.decrypt reply = e.challenge) ∧
      1 ≤ (feedAllT e init chunks).sent :=
  fun h => ⟨(feedAllT_inv e init chunks (inv_init e)).auth h,
            (feedAllT_inv e init chunks (inv_init e)).chal h⟩

/-- Hence with a peer that cannot produce a verified echo nothing is ever delivered. -/
theorem hs_no_echo_no_delivery (e : Env)
    (hbad : ∀ reply, ¬ (e.verify reply = true ∧ e.decrypt reply = e.challenge))
    (chunks : List Frame.Bytes) : (feedAllT e init chunks).delivered = [] := by
  have hr : (feedAllT e init chunks).restored = false := by
    cases h : (feedAllT e init chunks).restored
    · rfl
    · obtain ⟨⟨r, hr⟩, _⟩ := hs_authenticated e chunks h
      exact absurd hr (hbad r)
  exact (hs_gate e chunks hr).1

/-- A failed handshake closes the connection for good: whatever arrives later changes nothing
    (given the transport delivers nothing after `loseConnection`), so with `hs_gate` nothing was
    and nothing will be delivered. -/
theorem hs_fail_closed (e : Env) (s : St) (hc : s.closed = true) (later : List Frame.Bytes) :
    feedAllT e s later = s :=
  feedAllT_closed e s later hc

/-- `struct.unpack` never sees a slice of the wrong size (no exception inside `process`). -/
theorem hs_no_struct_error (e : Env) (chunks : List Frame.Bytes) :
    (feedAllT e init chunks).structErr = false :=
  (feedAllT_inv e init chunks (inv_init e)).noexc

/-- Bytes that arrive together with the final handshake packet are handed to the wrapped
    protocol once, in order, at the moment phase 5 succeeds (one `dataReceived` with the whole tail). -/
theorem hs_tail_in_order (e : Env) (s : St) (reply : Frame.Bytes)
    (hp : s.phase = .p5) (hv : e.verify reply = true) (hd : e.decrypt reply = e.challenge) :
    (phaseFn e s reply).1.delivered = s.delivered ++ (Frame.feed s.inner s.buf).2 ∧
    (phaseFn e s reply).1.inner = (Frame.feed s.inner s.buf).1 ∧
    (phaseFn e s reply).1.buf = [] ∧ (phaseFn e s reply).1.restored = true := by
  simp [phaseFn, hp, hv, hd]

/-- **Fragmentation-proof through the handshake.**  For every signature oracle that rejects the
    empty message, every byte stream and every way of cutting it into `dataReceived` calls, the
    connection ends up in the same observable condition as with delivery in one piece: the same
    payloads handed to the wrapped protocol in the same order, closed or not, handshake completed
    or not, the same challenges sent, the same residual state of the wrapped protocol. -/
theorem hs_any_chunking (e : Env) (hnil : e.verify [] = false) (chunks : List Frame.Bytes) :
    (feedAllT e init chunks).delivered = (feedAllT e init [chunks.flatten]).delivered ∧
    (feedAllT e init chunks).closed = (feedAllT e init [chunks.flatten]).closed ∧
    (feedAllT e init chunks).restored = (feedAllT e init [chunks.flatten]).restored ∧
    (feedAllT e init chunks).sent = (feedAllT e init [chunks.flatten]).sent ∧
    (feedAllT e init chunks).inner = (feedAllT e init [chunks.flatten]).inner := by
  have h := feedAllT_flatten e hnil init settled_init chunks
  simp only [feedAllT]
  rcases h with h | ⟨h1, h2, h3, _, h5, h6, h7⟩
  · rw [h]; exact ⟨rfl, rfl, rfl, rfl, rfl⟩
  · exact ⟨h6, by rw [h1, h2], h3, h5, h7⟩

/-- non-vacuity: the table-driven oracle of the harness rejects the empty message -/
example : (⟨fun b => b.take 2 == [79, 75], fun b => b.drop 2, [1, 2]⟩ : Env).verify [] = false := by
  decide

end DawgieVerif.C14
