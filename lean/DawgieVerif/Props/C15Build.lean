/-
C15 (second half) — at a (re)load `schedule.build` schedules exactly the algorithms whose own
current version, or that of one of their state vectors or values, is not among the persisted
versions; each of them for every known target (the all-targets marker for analyses); nothing
else is scheduled.

Over `Model/Build.lean` (hand model of `_diff` + `build` + the reached part of `organize`,
tied to the code by correspondence) and `Generated/BuildTable.lean` (table indices handed to
`_diff`, owner prefix length, marker and `_is_asp` kind, regenerated on every run).

Spec vocabulary (`Proofs/Build.lean`):
  persisted p k   = the list stored under `k` in the persisted table, `[]` when absent
  Changed … n     = (∃ v, (n,v) ∈ calg ∧ v ∉ persisted palg n)
                  ∨ (∃ s v, (n++[s],v) ∈ csv ∧ v ∉ persisted psv (n++[s]))
                  ∨ (∃ s x v, (n++[s,x],v) ∈ cv ∧ v ∉ persisted pv (n++[s,x]))
  WF              = node tags have 2 components, alg/sv/value keys 2/3/4 (as `current` builds them)
-/
import DawgieVerif.Proofs.Build

namespace DawgieVerif.C15
open DawgieVerif.Build DawgieVerif.Generated

/-- `_diff(curr, prev)` returns exactly the names whose current version is not among the
    persisted versions of that name (a name missing from `prev` has none). -/
theorem diff_exact (curr : CTable) (prev : PTable) (k : Name) :
    k ∈ diff curr prev ↔ ∃ v, (k, v) ∈ curr ∧ v ∉ persisted prev k :=
  mem_diff curr prev k
example : diff [(["t", "a"], "1.0.1"), (["t", "b"], "1.0.0"), (["t", "c"], "2.0.0")]
    [(["t", "a"], ["1.0.0"]), (["t", "b"], ["0.9.0", "1.0.0"])] = [["t", "a"], ["t", "c"]] := by
  decide

/-- `build` raises (IndexError) exactly when `latest` has fewer than three tables or
    `previous` fewer than four; otherwise it returns. -/
theorem build_error_iff (i : Input) :
    build i = .error Err.index ↔ (i.latest.length < 3 ∨ i.previous.length < 4) := by
  rw [← diffs_error_iff]
  unfold build
  cases h : diffs i with
  | error e => cases e; simp
  | ok ds => simp
example : build ⟨[], [[], []], [[], [], [], []], []⟩ = .error Err.index := by
  rw [build_error_iff]; decide

/-- **Exactness of the (re)load decision.**  With `latest = (talg, tsv, tv)` and
    `previous = (tasks, algs, svs, vals)`, calling "scheduled for `t`" a node that is in the
    queue with `t` in its todo:
    * a node is scheduled for `t` iff it is `Changed` and `t` is a known target — the
      all-targets marker, and nothing else, for an analysis;
    * the queue holds exactly the `Changed` nodes that have something to do (every `Changed`
      analysis; every other `Changed` node as soon as there is a known target);
    * the todo of every node that is not `Changed` is empty, no todo has duplicates.
    The `tasks` table plays no role. -/
theorem build_exact (i : Input) (calg csv cv : CTable) (ptask palg psv pv : PTable)
    (hl : i.latest = [calg, csv, cv]) (hp : i.previous = [ptask, palg, psv, pv])
    (wf : WF i.nodes calg csv cv) :
    ∃ o, build i = .ok o ∧
      (∀ nd ∈ i.nodes, ∀ t, (nd.name ∈ o.que ∧ t ∈ o.todo nd) ↔
        (Changed calg csv cv palg psv pv nd.name ∧
          if nd.kind = "analysis" then t = "__all__" else t ∈ i.targets)) ∧
      (∀ n, n ∈ o.que ↔ ∃ nd ∈ i.nodes, nd.name = n ∧ Changed calg csv cv palg psv pv n ∧
          (nd.kind = "analysis" ∨ i.targets ≠ [])) ∧
      (∀ nd ∈ i.nodes, ¬ Changed calg csv cv palg psv pv nd.name → o.todo nd = []) ∧
      (∀ nd, (o.todo nd).Nodup) := by
  have hans : ∀ nd ∈ i.nodes, nd.name ∈ ansOf [diff calg palg, diff csv psv, diff cv pv] ↔
      Changed calg csv cv palg psv pv nd.name := fun nd hm =>
    mem_ans calg csv cv palg psv pv nd.name (wf.nodes nd hm) wf.alg wf.sv wf.val
  refine ⟨_, by simp only [build, diffs_ok i calg csv cv ptask palg psv pv hl hp]; rfl, ?_, ?_, ?_, ?_⟩
  · intro nd hm t
    simp only [List.mem_map, prune, queOrganize, List.mem_filter]
    constructor
    · rintro ⟨_, ht⟩
      have ha : nd.name ∈ ansOf [diff calg palg, diff csv psv, diff cv pv] :=
        Classical.byContradiction fun h => by simp [todo_not_mem _ _ _ h] at ht
      exact ⟨(hans nd hm).1 ha, (mem_todo _ _ _ ha t).1 ht⟩
    · rintro ⟨hc, ht⟩
      have ha := (hans nd hm).2 hc
      have ht' := (mem_todo _ i.targets nd ha t).2 ht
      refine ⟨⟨nd, ⟨⟨hm, by simpa using ha⟩, ?_⟩, rfl⟩, ht'⟩
      cases h : todoOrganize _ (todoSet _ i.targets) nd with
      | nil => rw [h] at ht'; cases ht'
      | cons _ _ => rfl
  · intro n
    simp only [List.mem_map, prune, queOrganize, List.mem_filter, decide_eq_true_eq]
    constructor
    · rintro ⟨nd, ⟨⟨hm, ha⟩, hne⟩, rfl⟩
      exact ⟨nd, hm, rfl, (hans nd hm).1 ha, (todo_nonempty _ i.targets nd ha).1 hne⟩
    · rintro ⟨nd, hm, rfl, hc, hk⟩
      have ha := (hans nd hm).2 hc
      exact ⟨nd, ⟨⟨hm, ha⟩, (todo_nonempty _ i.targets nd ha).2 hk⟩, rfl⟩
  · intro nd hm hc
    exact todo_not_mem _ _ _ fun h => hc ((hans nd hm).1 h)
  · intro nd
    exact todo_nodup _ _ _

/- example engine `exInput` (defined in `Proofs/Build.lean`): task `t.a` (state vector `s`, values
   `x`, `y`), analysis `t.b`, regression `u.c`; everything persisted at 1.0.0; value `t.a.s.y`
   and state vector `t.b.s` bumped; targets T1, T2, T1. -/
example : (match build exInput with
    | .ok o => (o.que, exNodes.map o.todo)
    | .error _ => ([], [])) =
    ([["t", "a"], ["t", "b"]], [["T1", "T2"], ["__all__"], []]) := by decide
/-- no known target: only the analysis has something to do -/
example : (match build ⟨exNodes, exLatest, exPrev, []⟩ with
    | .ok o => (o.que, exNodes.map o.todo)
    | .error _ => ([], [])) = ([["t", "b"]], [[], ["__all__"], []]) := by decide
example : WF exInput.nodes exLatest[0]! exLatest[1]! exLatest[2]! := by
  constructor <;> decide

/-- Nothing new, nothing scheduled: when every current version is persisted the queue is
    empty and every todo is empty. -/
theorem nothing_new_nothing_scheduled (i : Input) (calg csv cv : CTable)
    (ptask palg psv pv : PTable)
    (hl : i.latest = [calg, csv, cv]) (hp : i.previous = [ptask, palg, psv, pv])
    (wf : WF i.nodes calg csv cv)
    (h1 : AllPersisted calg palg) (h2 : AllPersisted csv psv) (h3 : AllPersisted cv pv) :
    ∃ o, build i = .ok o ∧ o.que = [] ∧ ∀ nd ∈ i.nodes, o.todo nd = [] := by
  obtain ⟨o, ho, _, hq, hn, _⟩ := build_exact i calg csv cv ptask palg psv pv hl hp wf
  refine ⟨o, ho, ?_, ?_⟩
  · apply List.eq_nil_iff_forall_not_mem.2
    intro n hm
    obtain ⟨nd, _, _, hc, _⟩ := (hq n).1 hm
    exact not_changed_of_allPersisted calg csv cv palg psv pv n h1 h2 h3 hc
  · intro nd hm
    exact hn nd hm (not_changed_of_allPersisted calg csv cv palg psv pv nd.name h1 h2 h3)
example : (match build ⟨exNodes, [exLatest[0]!, [], []], exPrev, ["T1"]⟩ with
    | .ok o => (o.que, exNodes.map o.todo)
    | .error _ => ([["?"]], [])) = ([], [[], [], []]) := by decide

/-- **A version change reschedules exactly its owner.**  When one item `k0` (an algorithm, a
    state vector or a value) has a current version that is not persisted and every other
    current version is persisted, the queue holds exactly the algorithm `k0[:2]` that owns it
    (provided it is a node of the tree and has something to do: an analysis, or any node once
    a target is known), and every other node keeps an empty todo. -/
theorem bump_reschedules_exactly_owner (i : Input) (calg csv cv : CTable)
    (ptask palg psv pv : PTable) (k0 : Name)
    (hl : i.latest = [calg, csv, cv]) (hp : i.previous = [ptask, palg, psv, pv])
    (wf : WF i.nodes calg csv cv)
    (hb : Bumped k0 calg palg ∨ Bumped k0 csv psv ∨ Bumped k0 cv pv)
    (h1 : PersistedExcept k0 calg palg) (h2 : PersistedExcept k0 csv psv)
    (h3 : PersistedExcept k0 cv pv) :
    ∃ o, build i = .ok o ∧
      (∀ n, n ∈ o.que ↔ ∃ nd ∈ i.nodes, nd.name = n ∧ n = k0.take 2 ∧
          (nd.kind = "analysis" ∨ i.targets ≠ [])) ∧
      (∀ nd ∈ i.nodes, nd.name ≠ k0.take 2 → o.todo nd = []) := by
  obtain ⟨o, ho, _, hq, hn, _⟩ := build_exact i calg csv cv ptask palg psv pv hl hp wf
  have hs : ∀ nd ∈ i.nodes, Changed calg csv cv palg psv pv nd.name ↔ nd.name = k0.take 2 :=
    fun nd hm => changed_single calg csv cv palg psv pv k0 nd.name (wf.nodes nd hm)
      wf.alg wf.sv wf.val hb h1 h2 h3
  refine ⟨o, ho, ?_, ?_⟩
  · intro n
    rw [hq n]
    constructor
    · rintro ⟨nd, hm, rfl, hc, hk⟩
      exact ⟨nd, hm, rfl, (hs nd hm).1 hc, hk⟩
    · rintro ⟨nd, hm, rfl, hc, hk⟩
      exact ⟨nd, hm, rfl, (hs nd hm).2 hc, hk⟩
  · intro nd hm hne
    exact hn nd hm fun hc => hne ((hs nd hm).1 hc)
/-- value `t.a.s.y` bumped alone → only `t.a` is queued -/
example : (match build ⟨exNodes, [exLatest[0]!, [], exLatest[2]!], exPrev, ["T1"]⟩ with
    | .ok o => (o.que, exNodes.map o.todo)
    | .error _ => ([], [])) = ([["t", "a"]], [["T1"], [], []]) := by decide
example : Bumped ["t", "a", "s", "y"] exLatest[2]! exPrev[3]! ∧
    PersistedExcept ["t", "a", "s", "y"] exLatest[2]! exPrev[3]! := by
  refine ⟨⟨"1.0.1", by decide, by decide⟩, ?_⟩
  intro kv hm hne
  simp only [exLatest, exPrev] at hm ⊢
  simp at hm
  rcases hm with rfl | rfl | rfl | rfl <;> first | (exfalso; exact hne rfl) | decide

end DawgieVerif.C15
