/-
C12 — a submitted update takes effect exactly when its priority allows.

Model: `Model/Submit.lean` (priority, wait flags, poller slots, hand-written mirrors of
`set_submit_info`, `submit_crossroads`, `wait_for_*`, the `done` callbacks after the F-C12 repair)
composed with the life-cycle model `Model/Fsm.lean`; the priority lattice is
`Generated/Priority.lean`, translated from `tools.submit.Priority.max`.  Histories are arbitrary
lists of `Submit.Event`: submissions of any priorities through `step_1`/`step_3`/`failure`, operator
resets, polls of any waiter at any time, arbitrary changes of crew / doing / queue, and every
life-cycle event (dispatch archives, completions in any order).  One submission Process is in
flight at a time (`submitDone` needs `gitting`; cf. C10:submit-overlap).

Liveness is where the known findings C12:update-while-archiving and C12:update-while-gitting live:
the full statement is kept (`Served` after every history), its negation is proved with both concrete
witnesses, and the `_partial` theorem assumes `Calm`: the life-cycle is at rest in `running`
whenever a waiter finds its condition satisfied.
-/
import DawgieVerif.Proofs.Submit

namespace DawgieVerif.C12
open DawgieVerif.Submit
open DawgieVerif.Generated.Prio (Priority)

/-- The translated `tools.submit.Priority.max` is the maximum of the lattice NOW > CREW > DOING >
    TODO over the non-`None` arguments (TODO when there is none): it is one of them (or TODO), and no
    argument is stronger.  For argument lists of any length. -/
theorem priority_lattice (largs : List (Option Priority)) :
    (Generated.Prio.max largs = .TODO ∨ some (Generated.Prio.max largs) ∈ largs) ∧
    ∀ p, some p ∈ largs → rank p ≤ rank (Generated.Prio.max largs) := by
  unfold Generated.Prio.max
  constructor
  · rcases foldl_mem (largs.filterMap id) Generated.Prio.maxInit with h | h
    · left; rw [h]; rfl
    · right
      simp only [List.mem_filterMap, id] at h
      obtain ⟨a, ha, rfl⟩ := h
      exact ha
  · intro p hp
    rw [rank_foldl]
    apply (foldl_max_ge (largs.filterMap id) (rank Generated.Prio.maxInit)).2
    simp only [List.mem_filterMap, id]
    exact ⟨some p, hp, rfl⟩

example : Generated.Prio.max [some .TODO, none, some .CREW, some .DOING] = .CREW := by decide

/-- `update_trigger` fires ⇒ (unless it is an operator reset) the condition of the strongest
    priority requested since the last reload held in the state the caller had just observed, and
    the caller is that priority's waiter; `NOW`: immediately, from `wait_for_nothing`.
    For every history. -/
theorem trigger_sound (a : Bool) (env : Env) (evs : List Event) :
    ∀ u ∈ (run (init a env) evs).log, u.sound :=
  (good_run (good_init a env) evs).sound

/-- At most one update is accepted per reload cycle (`cycle` counts the `reset`s): accepted
    updates in the log have strictly increasing cycle numbers.  For every history. -/
theorem trigger_once (a : Bool) (env : Env) (evs : List Event) :
    Once (run (init a env) evs).log :=
  (good_run (good_init a env) evs).once

/-- While a reload is under way no further update is accepted: an accepted update of the current
    cycle means the life-cycle is between `update_trigger` and `reset`. -/
theorem accepted_means_reloading (a : Bool) (env : Env) (evs : List Event) :
    ∀ u ∈ (run (init a env) evs).log, u.accepted = true →
      u.cycle < (run (init a env) evs).cycle ∨
      (u.cycle = (run (init a env) evs).cycle ∧ (run (init a env) evs).inReload = true) :=
  (good_run (good_init a env) evs).cyc

/-- The first poll of the active waiter at which its condition holds fires the update, and the
    machine accepts it — provided the life-cycle is at rest in `running` at that moment. -/
theorem first_poll_fires (a : Bool) (env : Env) (evs : List Event) (k : Waiter) :
    let s := run (init a env) evs
    s.armed k = true → s.env.blocks k = false → s.fsm.isActive = true →
    (step s (.poll k)).inReload = true ∧
    ∃ u, (step s (.poll k)).log = s.log ++ [u] ∧ u.accepted = true ∧ u.who = some k := by
  intro s harm hbl hact
  have hg : Good s := good_run (good_init a env) evs
  simp only [St.armed, Bool.and_eq_true, Bool.not_eq_true'] at harm
  have hact' : (s.setThread k false).fsm.isActive = true := by cases k <;> exact hact
  have := fireUpdate_active (good_setThread hg k false) hact' (some k) false
  have hl : (s.setThread k false).log = s.log := by cases k <;> rfl
  rw [hl] at this
  simpa [step, harm.1, harm.2, hbl] using this

/-- Liveness under the hypothesis that the life-cycle is at rest in `running` whenever a waiter
    finds its condition satisfied (`Calm`): after every such history whatever was requested since
    the last reload is being served — the reload is under way, or the waiter of the strongest
    priority is armed (flag clear, poller in its slot) and `first_poll_fires` applies to it.
    Full statement (fails, see below): the same without `Calm`. -/
theorem trigger_live_partial (a : Bool) (env : Env) (evs : List Event)
    (hc : Calm (init a env) evs) : (run (init a env) evs).served = true :=
  served_run (good_init a env) (by simp [init, St.served]) evs hc

def queued : Env := ⟨false, false, true⟩
def drained : Env := ⟨false, false, false⟩

/-- C12:update-while-archiving — submit TODO with work queued; new data arrives and the idle
    dispatcher starts an archive; the queue drains; the poll finds its condition satisfied and calls
    `update_trigger` in `archiving`: MachineError, slot cleared, flag still clear, nobody polls -/
def archivingWitness : List Event :=
  [.boot, .complete 0 false, .complete 0 false, .env queued, .submitBegin, .submitDone .TODO,
   .flagArchive, .dispatchArchive, .env drained, .poll .todo, .complete 0 false]

/-- C12:update-while-gitting — the same with a second submission holding `gitting`, which then fails -/
def gittingWitness : List Event :=
  [.boot, .complete 0 false, .complete 0 false, .env queued, .submitBegin, .submitDone .TODO,
   .submitBegin, .env drained, .poll .todo, .submitFail]

/-- The full liveness statement is FALSE on the current code: both known findings are witnesses
    (the submission stays recorded, the pipeline is back at rest in `running`, the queue is empty,
    and nothing will ever call `update_trigger`). -/
theorem trigger_live_fails :
    ¬ ∀ (a : Bool) (env : Env) (evs : List Event), (run (init a env) evs).served = true := by
  intro h
  have := h false drained archivingWitness
  revert this
  decide +kernel

theorem trigger_live_fails_gitting :
    ¬ ∀ (a : Bool) (env : Env) (evs : List Event), (run (init a env) evs).served = true := by
  intro h
  have := h false drained gittingWitness
  revert this
  decide +kernel

/-- Every later submission: after ANY calm history, a further submission `p` accepted while the
    pipeline is active records the strongest priority so far (`max`, stronger overtakes weaker,
    a weaker one does not demote), and is served; the statements above hold for the extended
    history as for every history. -/
theorem later_submissions (a : Bool) (env : Env) (evs : List Event) (p : Priority)
    (hc : Calm (init a env) evs) (hact : (run (init a env) evs).fsm.isActive = true) :
    let s := run (init a env) evs
    let s' := run s [.submitBegin, .submitDone p]
    (s'.priority = some (Generated.Prio.max [s.priority, some p]) ∨ s'.inReload = true) ∧
    s'.served = true ∧ (∀ u ∈ s'.log, u.sound) ∧ Once s'.log := by
  intro s s'
  have hg : Good s := good_run (good_init a env) evs
  have hs : s.served = true := trigger_live_partial a env evs hc
  have hg' : Good s' := good_run hg _
  have hserved : s'.served = true := by
    apply served_run hg hs
    simp [Calm]
  refine ⟨?_, hserved, hg'.sound, hg'.once⟩
  -- the priority recorded by set_submit_info
  obtain ⟨f2, hact2, hinv2, heq⟩ := submit_pair hg hact p
  have hg2 : Good { s with fsm := f2 } :=
    { inv := hinv2, fCrew := hg.fCrew, fDoing := hg.fDoing, fTodo := hg.fTodo, sound := hg.sound,
      once := hg.once,
      cyc := by
        intro u hu hua
        rcases hg.cyc u hu hua with hc' | hc'
        · exact Or.inl hc'
        · have := active_not_reload hg.inv hact
          rw [this] at hc'
          cases hc'.2 }
  have hs' : s' = crossroads (setSubmitInfo p { s with fsm := f2 }) := heq
  rw [hs']
  exact crossroads_priority hg2 hact2 p

/-- A submission is refused unless the pipeline is active: `step_1`, the crossroads and the reset
    request change nothing when `is_pipeline_active()` is false; `step_3` without a Process holding
    `gitting` does not exist.  From ANY state. -/
theorem refused_inactive (s : St) (h : s.fsm.isActive = false) :
    crossroads s = s ∧ step s .submitBegin = s ∧ (∀ b, step s (.resetNow b) = s) ∧
    (s.fsm.core.state ≠ .gitting → ∀ p, step s (.submitDone p) = s) := by
  refine ⟨by simp [crossroads, h], ?_, fun b => by simp [step, h], fun hg p => by simp [step, hg]⟩
  have : s.fsm.isActive = false := h
  simp [step, life, Fsm.step, this, Fsm.noop, Fsm.Out.pure, applyResets]

/-! ### non-vacuity -/

/-- the F-C12 history across two reload cycles: submit TODO (queue busy); submit NOW overtakes
    (update accepted at once, cycle 0); the cancelled TODO poller leaves and frees its slot; the
    reload completes (reset); submit TODO again; the queue drains; the poll fires (cycle 1) -/
def twoCycles : List Event :=
  [.boot, .complete 0 false, .complete 0 false, .env queued,
   .submitBegin, .submitDone .TODO, .submitBegin, .submitDone .NOW, .poll .todo,
   .complete 0 false, .complete 0 false, .complete 0 false,
   .submitBegin, .submitDone .TODO, .poll .todo, .env drained, .poll .todo]

example : Calm (init false drained) twoCycles ∧
    ((run (init false drained) twoCycles).log.map fun u => (u.who, u.prio, u.accepted, u.cycle)) =
      [(none, some .NOW, true, 0), (some .todo, some .TODO, true, 1)] ∧
    (run (init false drained) twoCycles).served = true := by
  refine ⟨?_, ?_, ?_⟩
  · simp only [twoCycles, Calm, and_true, true_and]
    decide +kernel
  · decide +kernel
  · decide +kernel

/-- in the archiving witness the update WAS attempted at a moment its condition held (soundness is
    not at stake) and was not accepted; the submission is still recorded afterwards -/
example : ((run (init false drained) archivingWitness).log.map fun u => (u.who, u.active, u.accepted)) =
      [(some .todo, false, false)] ∧
    (run (init false drained) archivingWitness).priority = some .TODO ∧
    (run (init false drained) archivingWitness).fsm.isActive = true := by decide +kernel

/-- the hypothesis of `refused_inactive` is satisfiable: during boot nothing is accepted -/
example : (run (init false drained) [.boot]).fsm.isActive = false := by decide +kernel

end DawgieVerif.C12
