/-
C07 — model of the content-addressed blob store of the shelve backend.

What is modelled (files of /repo/Python/dawgie):

* `db/util/__init__.py`  `encode` : `tempfile.mkstemp` in the staging directory, `pickle.dump`
  of the value into the staged file, `md5sum`/`sha1sum` of the staged file → `(fn, name)`;
  `move` : `os.path.exists(store/name)`; when it exists `os.unlink(fn)`; otherwise
  `os.makedirs(store/incoming)`, `shutil.move(fn, store/incoming/<basename fn>)`,
  `os.replace(store/incoming/<basename fn>, store/name)`; returns `(name, exists)`.
* `db/shelve/comms.py`  `Worker.do`, branch `Func.set` : `move`, then `prime[key] = name`,
  then `_send(exists)`.
* `db/shelve/model.py`  `Interface._update/_update_msv` : `isnew = not _set_prime(..)`,
  `Task.new_values((name, isnew))`.
* `db/shelve/__init__.py` `remove` (`del prime[key]`) and `db/tools/purge.py` (unlink every
  regular file directly in the store that no prime value names; aborted when the prime table is empty).

One update is a program of statements (`Instr`) in the vocabulary of the Python source; the
statements inside `move`'s `if exists: … else: …` carry the branch they belong to.  The program
itself is NOT written here: it is regenerated from the Python source into `Generated/Blob.lean`
(`Generated.Blob.program`) on every run, and the theorems of `Props/C07.lean` are proved about
that regenerated list.

Two configurations (`Cfg.xfs`): the staging directory is on the file system of the store
(`shutil.move` is one atomic `os.rename`) or on another one (`os.rename` fails with EXDEV and
`shutil.move` copies — create the destination, write it piecemeal, complete it — then unlinks
the source).  `expand` turns every `shutil.move` of the program into the micro-steps of the
configuration; a crash after `k` micro-steps stops the update there: whatever is on disk (`St`)
stays, everything in memory (`Loc`) is lost.  `os.replace` inside the store directory is atomic
in both configurations.

Parameters (`Cfg`): the digest `h`, the bytes `e` of a freshly created file, what a partially
written copy holds (`t body`), the configuration.  Core Lean only (the driver interprets this file).
-/
namespace DawgieVerif.Blob

/-- destination of a `shutil.move` of the staged file -/
inductive Dst where
  | incoming   -- `<data_dbs>/incoming/<basename of the staged file>`
  | store      -- `<data_dbs>/<digest name>`
deriving Repr, DecidableEq, Inhabited

/-- File-system statements of `move`, and the micro-steps `shutil.move` expands to. -/
inductive Act where
  | unlink             -- `os.unlink(fn)` / `os.remove(fn)`
  | mkdirs             -- `os.makedirs(<data_dbs>/incoming, exist_ok=True)`
  | move (d : Dst)     -- `shutil.move(fn, d)` as written in the source
  | replace            -- `os.replace(<incoming file>, <data_dbs>/<digest name>)`
  -- what `shutil.move` does, by configuration (never written by the translator):
  | rename (d : Dst)   -- same file system: `os.rename`
  | create (d : Dst)   -- other file system: `open(dst, 'wb')`
  | torn (d : Dst)     --   some of the bytes written
  | fill (d : Dst)     --   all of the bytes written
  | dropSrc            --   `os.unlink(src)`
deriving Repr, DecidableEq, Inhabited

/-- Where `Worker.do` takes the catalogue value from. -/
inductive Src where
  | moved      -- first component of what `move` returned
  | requested  -- `request.value[1]`, the digest string computed by the client's `encode`
deriving Repr, DecidableEq, Inhabited

/-- The statements of one update, in the vocabulary of the Python source. -/
inductive Instr where
  | mkstemp                           -- `tempfile.mkstemp(dir=data_stg)` : new empty staged file
  | dump                              -- `pickle.dump(value, open(fn,'wb'))`
  | digest                            -- `md5sum`/`sha1sum` of the staged file → `name`
  | probe                             -- `exists = os.path.exists(store/name)`
  | act (branch : Option Bool) (a : Act)  -- statement of `move`; `some b`: only when `exists = b`
  | record (src : Src)                -- `prime[key] = value`
  | reply (negated : Bool)            -- `_send(exists)` (`negated` : `_send(not exists)`)
  | flag (negated : Bool)             -- `isnew = not reply` (`negated = true`), `new_values` gets it
deriving Repr, DecidableEq, Inhabited

/-- Disk state: staging directory, `<store>/incoming`, store directory, prime table.  `fresh` stands
    for `mkstemp`'s guarantee that the name it returns does not exist yet. -/
structure St (K N C : Type) where
  stage : List (Nat × C) := []
  incoming : List (Nat × C) := []
  store : List (N × C) := []
  prime : List (K × N) := []
  fresh : Nat := 0
  dir : Bool := false           -- `<store>/incoming` exists
deriving Repr

/-- In-memory locals of the update in flight (client `encode` + server `move`/`do`). -/
structure Loc (N : Type) where
  fn : Option Nat := none      -- staged file name
  name : Option N := none      -- digest string
  ex : Option Bool := none     -- `exists`
  out : Option Bool := none    -- what `_send` put on the wire
  flg : Option Bool := none    -- `isnew` as handed to `Task.new_values`
deriving Repr

/-- Parameters: external behaviour and configuration. -/
structure Cfg (N C : Type) where
  h : C → N          -- digest of file content (md5sum, sha1sum)
  e : C              -- content of a freshly created file
  t : C → C          -- content of a partially written copy of a file
  xfs : Bool         -- the staging directory is on another file system than the store

section
variable {K N C : Type} [DecidableEq K] [DecidableEq N]

def names (s : St K N C) : List N := s.store.map Prod.fst
def contents (s : St K N C) : List C := s.store.map Prod.snd
def primeValues (s : St K N C) : List N := s.prime.map Prod.snd

def init : St K N C := {}

/-- remove the file called `f` from a directory listing -/
def rm {A B : Type} [DecidableEq A] (d : List (A × B)) (f : A) : List (A × B) :=
  d.filter (fun p => decide (p.1 ≠ f))

/-- create or truncate-and-write the file called `f` -/
def put {A B : Type} [DecidableEq A] (d : List (A × B)) (f : A) (b : B) : List (A × B) :=
  (f, b) :: rm d f

/-- what `shutil.move` does in the configuration -/
def expandAct (xfs : Bool) : Act → List Act
  | .move d => if xfs then [.create d, .torn d, .fill d, .dropSrc] else [.rename d]
  | a => [a]

def expand (xfs : Bool) : List Instr → List Instr
  | [] => []
  | .act g a :: is => (expandAct xfs a).map (Instr.act g) ++ expand xfs is
  | i :: is => i :: expand xfs is

/-- write `body` to the destination `d` (file `f` of incoming, or the digest name in the store);
    `none`: the directory `<store>/incoming` does not exist (`FileNotFoundError`) -/
def writeDst (s : St K N C) (d : Dst) (f : Nat) (n : N) (body : C) : Option (St K N C) :=
  match d with
  | .incoming => if s.dir then some { s with incoming := put s.incoming f body } else none
  | .store => some { s with store := put s.store n body }

/-- one file-system statement of `move`; `none` = the Python raises -/
def doAct (cfg : Cfg N C) (s : St K N C) (f : Nat) (n : N) : Act → Option (St K N C)
  | .unlink | .dropSrc => match s.stage.lookup f with
    | none => none
    | some _ => some { s with stage := rm s.stage f }
  | .mkdirs => some { s with dir := true }
  | .move d | .rename d => match s.stage.lookup f with
    | none => none
    | some body => (writeDst s d f n body).map fun s' => { s' with stage := rm s'.stage f }
  | .create d => match s.stage.lookup f with
    | none => none
    | some _ => writeDst s d f n cfg.e
  | .torn d => match s.stage.lookup f with
    | none => none
    | some body => writeDst s d f n (cfg.t body)
  | .fill d => match s.stage.lookup f with
    | none => none
    | some body => writeDst s d f n body
  | .replace => match s.incoming.lookup f with
    | none => none
    | some body => some { s with incoming := rm s.incoming f, store := put s.store n body }

/-- the statement belongs to the branch of `move` that is not taken -/
def skips (l : Loc N) : Instr → Bool
  | .act (some b) _ => l.ex == some (!b)
  | _ => false

/-- One micro-step.  `none` = an exception propagates (unbound local, missing file): the
    update is abandoned where it stands, nothing is reported. -/
def exec (cfg : Cfg N C) (key : K) (c : C) (s : St K N C) (l : Loc N) :
    Instr → Option (St K N C × Loc N)
  | .mkstemp =>
    some ({ s with stage := (s.fresh, cfg.e) :: s.stage, fresh := s.fresh + 1 }, { l with fn := some s.fresh })
  | .dump => match l.fn with
    | none => none
    | some f => some ({ s with stage := put s.stage f c }, l)
  | .digest => match l.fn with
    | none => none
    | some f => match s.stage.lookup f with
      | none => none
      | some body => some (s, { l with name := some (cfg.h body) })
  | .probe => match l.name with
    | none => none
    | some n => some (s, { l with ex := some (decide (n ∈ names s)) })
  | .act g a => match l.fn, l.name, l.ex with
    | some f, some n, some ex =>
      if g = none ∨ g = some ex then (doAct cfg s f n a).map fun s' => (s', l) else none
    | _, _, _ => none
  | .record src => match (match src with
      | .moved => (match l.ex with | some _ => l.name | none => none)
      | .requested => l.name) with
    | none => none
    | some v => some ({ s with prime := put s.prime key v }, l)
  | .reply neg => match l.ex with
    | none => none
    | some ex => some (s, { l with out := some (ex != neg) })
  | .flag neg => match l.out with
    | none => none
    | some o => some (s, { l with flg := some (o != neg) })

/-- run micro-steps under a crash budget; statements of the branch not taken cost nothing;
    the `Bool` says whether the end of the program was reached -/
def runB (cfg : Cfg N C) (key : K) (c : C) :
    List Instr → Nat → St K N C → Loc N → St K N C × Loc N × Bool
  | [], _, s, l => (s, l, true)
  | i :: is, b, s, l =>
    if skips l i then runB cfg key c is b s l
    else match b with
      | 0 => (s, l, false)
      | b + 1 => match exec cfg key c s l i with
        | none => (s, l, false)
        | some (s', l') => runB cfg key c is b s' l'

/-- One update with a crash budget: `budget` micro-steps of the expanded program run, then the
    process dies (a budget that reaches the end: the update completes).  Result: the disk state and the
    novelty flag handed to `Task.new_values` (`none` when the update did not get that far). -/
def runUpd (cfg : Cfg N C) (prog : List Instr) (key : K) (c : C) (budget : Nat)
    (s : St K N C) : St K N C × Option Bool :=
  let r := runB cfg key c (expand cfg.xfs prog) budget s {}
  (r.1, if r.2.2 then r.2.1.flg else none)

/-- Operations of a history. -/
inductive Op (K N C : Type) where
  | upd (key : K) (c : C) (budget : Nat)  -- `Interface._update` of one value, crashing after `budget` micro-steps
  | del (key : K)                         -- `dawgie.db.remove` : `del prime[key]`
  | purge (visit : List N)                -- `db/tools/purge.py`, the loop having visited `visit` (crash/listing order)
deriving Repr

def purge (s : St K N C) (visit : List N) : St K N C :=
  if s.prime.isEmpty then s
  else
    let keep : N × C → Bool := fun b => decide (b.1 ∈ primeValues s ∨ b.1 ∉ visit)
    { s with store := s.store.filter keep }

def apply (cfg : Cfg N C) (prog : List Instr) (s : St K N C) :
    Op K N C → St K N C × Option Bool
  | .upd key c b => runUpd cfg prog key c b s
  | .del key => ({ s with prime := rm s.prime key }, none)
  | .purge visit => (purge s visit, none)

/-- A history: disk state at its end and, per operation, the novelty flag reported. -/
def run (cfg : Cfg N C) (prog : List Instr) :
    St K N C → List (Op K N C) → St K N C × List (Option Bool)
  | s, [] => (s, [])
  | s, op :: ops =>
    let r := apply cfg prog s op
    let t := run cfg prog r.1 ops
    (t.1, r.2 :: t.2)

/-- number of updates of a history that reported nothing (cut short by a crash) -/
def silent : List (Op K N C) → List (Option Bool) → Nat
  | .upd _ _ _ :: ops, none :: fl => silent ops fl + 1
  | _ :: ops, _ :: fl => silent ops fl
  | _, _ => 0

end
end DawgieVerif.Blob
