/-
C07 — model of the content-addressed blob store of the shelve backend.

What is modelled (files of /repo/Python/dawgie):

* `db/util/__init__.py`  `encode` : `tempfile.mkstemp` in the staging directory, `pickle.dump`
  of the value into the staged file, `md5sum`/`sha1sum` of the staged file → `(fn, name)`;
  `move` : `os.path.exists(store/name)`; when it exists `os.unlink(fn)`, otherwise
  `shutil.move(fn, store/name)`; returns `(name, exists)`.
* `db/shelve/comms.py`  `Worker.do`, branch `Func.set` : `move`, then `prime[key] = name`,
  then `_send(exists)`.
* `db/shelve/model.py`  `Interface._update/_update_msv` : `isnew = not _set_prime(..)`,
  `Task.new_values((name, isnew))`.
* `db/shelve/__init__.py` `remove` (`del prime[key]`) and `db/tools/purge.py` (unlink every
  stored file that no prime value names; aborted when the prime table is empty).

One update is a straight-line program of *micro-steps* (`Instr`).  The program itself is NOT
written here: it is regenerated from the Python source into `Generated/Blob.lean`
(`Generated.Blob.program`) on every run, and the theorems of `Props/C07.lean` are proved about
that regenerated list.  A crash after `k` micro-steps is `List.take k` of the program: whatever
is on disk (`St`) stays, everything in memory (`Loc`) is lost.

The digest `h : C → N`, the bytes `e` of a freshly created (empty) file are parameters.
Core Lean only (the driver interprets this file).
-/
namespace DawgieVerif.Blob

/-- What one branch of `move` does with the staged file. -/
inductive Act where
  | unlink   -- `os.unlink(fn)` / `os.remove(fn)`
  | rename   -- `shutil.move(fn, nfn)` / `os.rename` / `os.replace`
  | keep     -- nothing
deriving Repr, DecidableEq, Inhabited

/-- Where `Worker.do` takes the catalogue value from. -/
inductive Src where
  | moved      -- first component of what `move` returned
  | requested  -- `request.value[1]`, the digest string computed by the client's `encode`
deriving Repr, DecidableEq, Inhabited

/-- The micro-steps of one update, in the vocabulary of the Python source. -/
inductive Instr where
  | mkstemp                           -- `tempfile.mkstemp(dir=data_stg)` : new empty staged file
  | dump                              -- `pickle.dump(value, open(fn,'wb'))`
  | digest                            -- `md5sum`/`sha1sum` of the staged file → `name`
  | probe                             -- `exists = os.path.exists(store/name)`
  | place (onExists onFresh : Act)    -- `if exists: … else: …` of `move`; returns `(name, exists)`
  | record (src : Src)                -- `prime[key] = value`
  | reply (negated : Bool)            -- `_send(exists)` (`negated` : `_send(not exists)`)
  | flag (negated : Bool)             -- `isnew = not reply` (`negated = true`), `new_values` gets it
deriving Repr, DecidableEq, Inhabited

/-- Disk state: staging directory, store directory, prime table.  `fresh` stands for
    `mkstemp`'s guarantee that the name it returns does not exist yet. -/
structure St (K N C : Type) where
  stage : List (Nat × C) := []
  store : List (N × C) := []
  prime : List (K × N) := []
  fresh : Nat := 0
deriving Repr

/-- In-memory locals of the update in flight (client `encode` + server `move`/`do`). -/
structure Loc (N : Type) where
  fn : Option Nat := none      -- staged file name
  name : Option N := none      -- digest string
  ex : Option Bool := none     -- `exists`
  val : Option N := none       -- first component of what `move` returned
  out : Option Bool := none    -- what `_send` put on the wire
  flg : Option Bool := none    -- `isnew` as handed to `Task.new_values`
deriving Repr

section
variable {K N C : Type} [DecidableEq K] [DecidableEq N]

def names (s : St K N C) : List N := s.store.map Prod.fst
def contents (s : St K N C) : List C := s.store.map Prod.snd
def primeValues (s : St K N C) : List N := s.prime.map Prod.snd

def init : St K N C := {}

/-- remove the file called `f` from a directory listing -/
def rm {A B : Type} [DecidableEq A] (d : List (A × B)) (f : A) : List (A × B) :=
  d.filter (fun p => decide (p.1 ≠ f))

/-- create or truncate-and-write the file called `f` -/
def put {A B : Type} [DecidableEq A] (d : List (A × B)) (f : A) (b : B) : List (A × B) :=
  (f, b) :: rm d f

/-- one branch of `move`; `none` = the Python raises (`FileNotFoundError`) -/
def act (a : Act) (s : St K N C) (f : Nat) (n : N) : Option (St K N C) :=
  match a with
  | .keep => some s
  | .unlink => match s.stage.lookup f with
    | none => none
    | some _ => some { s with stage := rm s.stage f }
  | .rename => match s.stage.lookup f with
    | none => none
    | some body => some { s with stage := rm s.stage f, store := put s.store n body }

/-- One micro-step.  `none` = an exception propagates (unbound local, missing file): the
    update is abandoned where it stands, nothing is reported. -/
def exec (h : C → N) (e : C) (key : K) (c : C) (s : St K N C) (l : Loc N) :
    Instr → Option (St K N C × Loc N)
  | .mkstemp =>
    some ({ s with stage := (s.fresh, e) :: s.stage, fresh := s.fresh + 1 }, { l with fn := some s.fresh })
  | .dump => match l.fn with
    | none => none
    | some f => some ({ s with stage := put s.stage f c }, l)
  | .digest => match l.fn with
    | none => none
    | some f => match s.stage.lookup f with
      | none => none
      | some body => some (s, { l with name := some (h body) })
  | .probe => match l.name with
    | none => none
    | some n => some (s, { l with ex := some (decide (n ∈ names s)) })
  | .place a b => match l.fn, l.name, l.ex with
    | some f, some n, some ex => match act (if ex then a else b) s f n with
      | none => none
      | some s' => some (s', { l with val := some n })
    | _, _, _ => none
  | .record src => match (match src with | .moved => l.val | .requested => l.name) with
    | none => none
    | some v => some ({ s with prime := put s.prime key v }, l)
  | .reply neg => match l.ex with
    | none => none
    | some ex => some (s, { l with out := some (ex != neg) })
  | .flag neg => match l.out with
    | none => none
    | some o => some (s, { l with flg := some (o != neg) })

/-- run a list of micro-steps; the `Bool` says whether an exception stopped it -/
def runInstrs (h : C → N) (e : C) (key : K) (c : C) :
    List Instr → St K N C → Loc N → St K N C × Loc N × Bool
  | [], s, l => (s, l, false)
  | i :: is, s, l => match exec h e key c s l i with
    | none => (s, l, true)
    | some (s', l') => runInstrs h e key c is s' l'

/-- One update with a crash budget: the first `budget` micro-steps of `prog` run, then the
    process dies (`budget ≥ prog.length`: the update completes).  Result: the disk state and the
    novelty flag handed to `Task.new_values` (`none` when the update did not get that far). -/
def runUpd (h : C → N) (e : C) (prog : List Instr) (key : K) (c : C) (budget : Nat)
    (s : St K N C) : St K N C × Option Bool :=
  let r := runInstrs h e key c (prog.take budget) s {}
  (r.1, if prog.length ≤ budget then r.2.1.flg else none)

/-- Operations of a history. -/
inductive Op (K N C : Type) where
  | upd (key : K) (c : C) (budget : Nat)  -- `Interface._update` of one value, crashing after `budget` micro-steps
  | del (key : K)                         -- `dawgie.db.remove` : `del prime[key]`
  | purge (visit : List N)                -- `db/tools/purge.py`, the loop having visited `visit` (crash/listing order)
deriving Repr

def purge (s : St K N C) (visit : List N) : St K N C :=
  if s.prime.isEmpty then s
  else
    let keep : N × C → Bool := fun b => decide (b.1 ∈ primeValues s ∨ b.1 ∉ visit)
    { s with store := s.store.filter keep }

def apply (h : C → N) (e : C) (prog : List Instr) (s : St K N C) :
    Op K N C → St K N C × Option Bool
  | .upd key c b => runUpd h e prog key c b s
  | .del key => ({ s with prime := rm s.prime key }, none)
  | .purge visit => (purge s visit, none)

/-- A history: disk state at its end and, per operation, the novelty flag reported. -/
def run (h : C → N) (e : C) (prog : List Instr) :
    St K N C → List (Op K N C) → St K N C × List (Option Bool)
  | s, [] => (s, [])
  | s, op :: ops =>
    let r := apply h e prog s op
    let t := run h e prog r.1 ops
    (t.1, r.2 :: t.2)

/-- the operation is an update that was cut short by a crash -/
def Op.crashed (prog : List Instr) : Op K N C → Bool
  | .upd _ _ b => decide (b < prog.length)
  | _ => false

end
end DawgieVerif.Blob
