/-
C15 — the scheduling decision of `dawgie.pl.schedule.build` (with `_diff`, `_is_asp`, the
part of `organize` that `build` reaches, and `dawgie.util.fifo.Unique`).

What is modelled: which nodes of the algorithm tree end up in `schedule.que` and what their
`todo` set is right after `build(factories, latest, previous)` returned, as a function of
  * the nodes of the algorithm tree `ae.at` (tag `task.alg`, `factory.__name__`),
  * `latest   = (talg, tsv, tv)`          as produced by `pl.version.current`,
  * `previous = (tasks, algs, svs, vals)` as produced by `pl.version.persistent()` = `db.versions()`,
  * `dawgie.db.targets()`.

What is NOT modelled (and is not part of C15): construction of the DAG itself
(`dag.Construct`, property C09), the order of `que` (sorted by `level`), `status`, `runid`,
`event`, `doing`, the wiring of `promote`, the reset of `schedule.per`.  `build` resets `schedule.que`
and works on freshly constructed nodes (`todo = Unique()`); the model reflects that by starting
from an empty queue and empty todo sets, so its result depends on the arguments only.

Names are lists of components (the Python joins / splits them at '.', components contain no
'.').  Version strings (`asstring()` output) and targets are opaque strings.  Python dicts are
association lists: iteration yields the entries, `d[k]` / `k in d` is `List.lookup`.
-/
import DawgieVerif.Generated.BuildTable

namespace DawgieVerif.Build
open DawgieVerif.Generated

abbrev Name := List String
abbrev Ver := String
abbrev Target := String
/-- name → current version string -/
abbrev CTable := List (Name × Ver)
/-- name → persisted version strings -/
abbrev PTable := List (Name × List Ver)

/-- a node of `ae.at`: tag and `n.get('factory').__name__` -/
structure Node where
  name : Name
  kind : String
deriving Repr, DecidableEq

structure Input where
  nodes : List Node
  latest : List CTable
  previous : List PTable
  targets : List Target

/-- `latest[i]` / `previous[j]` out of range (IndexError) -/
inductive Err where
  | index
deriving Repr, DecidableEq

structure Out where
  /-- tags of the nodes in `schedule.que` -/
  que : List Name
  /-- `n.get('todo')` for a node of the tree, in insertion order -/
  todo : Node → List Target

/-- `schedule._diff(curr, prev)`:
    `[k for k in curr if k not in prev or prev[k].count(curr[k]) == 0]` -/
def diff (curr : CTable) (prev : PTable) : List Name :=
  (curr.filter fun kv =>
    match prev.lookup kv.1 with
    | none => true
    | some vs => vs.count kv.2 == 0).map (·.1)

/-- `Unique.add` -/
def uniqueAdd (u : List Target) (t : Target) : List Target :=
  if t ∈ u then u else u ++ [t]

/-- `Unique.update(it)` -/
def uniqueUpdate (u : List Target) (ts : List Target) : List Target :=
  ts.foldl uniqueAdd u

/-- `Unique(it)` -/
def uniqueOf (ts : List Target) : List Target := uniqueUpdate [] ts

/-- `schedule._is_asp` -/
def isAsp (n : Node) : Bool := n.kind == BuildTable.aspKind

/-- `'.'.join(item.split('.')[:ownerLen])` -/
def owner (item : Name) : Name := item.take BuildTable.ownerLen

/-- the `_diff` calls of `build` whose results feed `ans` (order is irrelevant: `ans` is a set);
    an index out of range is the IndexError of the Python -/
def diffs (i : Input) : Except Err (List (List Name)) :=
  BuildTable.diffTables.mapM fun cp =>
    match i.latest[cp.1]?, i.previous[cp.2]? with
    | some cu, some pr => Except.ok (diff cu pr)
    | _, _ => Except.error Err.index

/-- `ans = {owner(item) for item in dalg + dsv + dv}` (a set: only membership is used) -/
def ansOf (ds : List (List Name)) : List Name := ds.flatten.map owner

/-- first loop of `build`: `n.set('todo', Unique(['__all__'] if _is_asp(n) else trglist))`
    for every node located under a name of `ans`; all other nodes keep the fresh `Unique()` -/
def todoSet (ans : List Name) (targets : List Target) (n : Node) : List Target :=
  if n.name ∈ ans then uniqueOf (if isAsp n then [BuildTable.allMarker] else targets) else []

/-- `organize(ans, event=...)` as reached from `build` (`runid=None`, `targets=None → set()`):
    located nodes get `todo.add('__all__')` (analyses) or `todo.update(set())` (others) -/
def todoOrganize (ans : List Name) (todo : Node → List Target) (n : Node) : List Target :=
  if n.name ∈ ans then
    (if isAsp n then uniqueAdd (todo n) BuildTable.allMarker else uniqueUpdate (todo n) [])
  else todo n

/-- `organize`: `jobs = {j.tag: j for j in que}` with `que = []`, then `jobs[n.tag] = n` for the
    located nodes; the queue is the values of that dict.  Tags identify nodes (they are the keys
    of the dict the trimmed tree is built from), so the located nodes are pairwise distinct. -/
def queOrganize (ans : List Name) (nodes : List Node) : List Node :=
  nodes.filter fun n => n.name ∈ ans

/-- `schedule._prune` (called at the end of `organize`): keep an entry iff
    `todo or doing or status is running`.  Right after `Construct` every node has an empty
    `doing` and `organize` has just set `status = waiting`, so only `todo` decides. -/
def prune (todo : Node → List Target) (que : List Node) : List Node :=
  que.filter fun n => !(todo n).isEmpty

def build (i : Input) : Except Err Out :=
  match diffs i with
  | .error e => .error e
  | .ok ds =>
    let ans := ansOf ds
    let todo := todoOrganize ans (todoSet ans i.targets)
    .ok { que := (prune todo (queOrganize ans i.nodes)).map (·.name)
          todo := todo }

end DawgieVerif.Build
