import DawgieVerif.Model.Sexp
import DawgieVerif.Model.Lock

namespace DawgieVerif.Lock
open DawgieVerif
open DawgieVerif.Generated.Lock

def op? : Sx → Option Op
  | Sx.list [Sx.atom "acq", c, w] => do some (.acquire (← c.nat?) (← w.bool?))
  | Sx.list [Sx.atom "tick", c] => do some (.tick (← c.nat?))
  | Sx.list [Sx.atom "rel", c, w] => do some (.release (← c.nat?) (← w.bool?))
  | Sx.list [Sx.atom "disc", c] => do some (.disconnect (← c.nat?))
  | Sx.list [Sx.atom "stop", c] => do some (.stopTimer (← c.nat?))
  | _ => none

def ofMsg : Msg → Sx
  | .status m => Sx.atom m.name
  | .reply b => Sx.ofBool b

def ofErr : Err → Sx
  | .none => Sx.atom "ok"
  | .startRunning => Sx.atom "assert-start"
  | .stopNotRunning => Sx.atom "assert-stop"

def ofConn (k : Conn) : Sx :=
  Sx.list [Sx.ofBool k.hasLock, Sx.ofBool k.running, Sx.ofBool k.stopped, Sx.ofBool k.lost,
           Sx.ofNat k.pending]

/-- one observation per event: `((msg ..) err close lock (conn0 conn1 ..))` -/
def observe (n : Nat) (s : St) (o : Out) : Sx :=
  Sx.list [Sx.list (o.msgs.map ofMsg), ofErr o.err, Sx.ofBool o.close, Sx.ofBool s.lock,
           Sx.list ((List.range n).map (fun c => ofConn (s.conn c)))]

def runObs (n : Nat) (s : St) : List Op → List Sx
  | [] => []
  | op :: ops =>
    let r := step s op
    observe n r.1 r.2 :: runObs n r.1 ops

/-- `(run <n> <op> ..)` → list of observations;
    `(status <bool>)` → the status name; `(consts)` → the generated protocol constants -/
def handle : List Sx → Sx
  | Sx.atom "run" :: n :: ops =>
    match n.nat?, ops.mapM op? with
    | some n, some ops => Sx.list (runObs n init ops)
    | _, _ => Sx.err "lock-ops"
  | [Sx.atom "status", b] =>
    match b.bool? with
    | some b => Sx.atom (statusOf b).name
    | none => Sx.err "bool"
  | [Sx.atom "consts"] =>
    Sx.list [Sx.atom grantOn.name, Sx.atom clientWaitsFor.name,
             Sx.list (closing.map (fun f => Sx.atom f.name)),
             Sx.ofBool (releaseReply true), Sx.ofBool (releaseReply false),
             Sx.ofNat pollInterval, Sx.ofNat stopDelayGrant, Sx.ofNat stopDelayLost,
             Sx.list (Mutex.all.map (fun m => Sx.list [Sx.atom m.name, Sx.ofNat m.val])),
             Sx.list (Func.all.map (fun f => Sx.list [Sx.atom f.name, Sx.ofNat f.val]))]
  | _ => Sx.err "lock-op"

end DawgieVerif.Lock
