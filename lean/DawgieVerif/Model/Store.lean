/-
Model of the shelve catalogue (`dawgie.db.shelve`): five name tables with their id
indices, the primary table, and the operations addressed by name.  Shared by C06 and C08.
Core Lean only (no Mathlib) so the driver can run it.

Names are `List Char` (the kernel-friendly view of a Python `str`).  The pieces taken
mechanically from the source live in `Generated/Store.lean`: the two reserved tokens, the
two filters of `util.subset`, the id assigned by `util.append`, the `next` formula, the
call table of `Interface.__to_key` and the constants of the `_load` fall-back.
-/
import DawgieVerif.Generated.Store

namespace DawgieVerif.Store
open DawgieVerif.Generated.Store

abbrev Name := List Char

/-- `dawgie.VERSION(design, impl, bugfix)` -/
structure Ver where
  d : Nat
  i : Nat
  b : Nat
deriving DecidableEq, Repr

/-- `Version.__le__` (lexicographic) -/
def Ver.le (x y : Ver) : Bool :=
  x.d < y.d || (x.d == y.d && (x.i < y.i || (x.i == y.i && x.b ≤ y.b)))

/-- `Version.__lt__` = `__le__ and __ne__` -/
def Ver.lt (x y : Ver) : Bool := x.le y && x != y

/-! ### decimal numbers: `str(int)` / `int(str)` for non-negative integers -/

def digitChar (d : Nat) : Char := Char.ofNat (48 + d)

/-- digits of `n`, most significant first; the first argument bounds the number of digits and
    makes the recursion structural, so that closed instances evaluate in the kernel -/
def natStrAux : Nat → Nat → List Char
  | 0, n => [digitChar (n % 10)]
  | f + 1, n => if n < 10 then [digitChar n] else natStrAux f (n / 10) ++ [digitChar (n % 10)]

/-- `str(n)` -/
def natStr (n : Nat) : List Char := natStrAux n n

def digitVal? (c : Char) : Option Nat :=
  if 48 ≤ c.toNat ∧ c.toNat ≤ 57 then some (c.toNat - 48) else none

def parseNatAux : List Char → Nat → Option Nat
  | [], acc => some acc
  | c :: cs, acc =>
    match digitVal? c with
    | some d => parseNatAux cs (acc * 10 + d)
    | none => none

/-- `int(s)` restricted to plain ASCII digit strings (what `construct` writes); `none` = ValueError -/
def parseNat (s : List Char) : Option Nat :=
  if s.isEmpty then none else parseNatAux s 0

/-- `s.split(sep)` for a one-character separator -/
def splitOnChar (sep : Char) : List Char → List (List Char)
  | [] => [[]]
  | c :: s =>
    if c = sep then [] :: splitOnChar sep s
    else match splitOnChar sep s with
      | [] => [[c]]
      | h :: t => (c :: h) :: t

/-- `Version.asstring()` -/
def verStr (v : Ver) : List Char := natStr v.d ++ '.' :: (natStr v.i ++ '.' :: natStr v.b)

/-- `LocalVersion(str)`: `VERSION(*[int(v) for v in s.split('.')])`; `none` = raises -/
def parseVer (s : List Char) : Option Ver :=
  match (splitOnChar '.' s).mapM parseNat with
  | some [d, i, b] => some ⟨d, i, b⟩
  | _ => none

/-! ### `util.construct` / `util.dissect` -/

/-- `construct(name, parent, ver)` -/
def construct (name : Name) (parent : Option Nat) (ver : Option Ver) : Name :=
  let n := match parent with
    | some p => natStr p ++ tokParent ++ name
    | none => name
  match ver with
  | some v => n ++ tokVersion ++ verStr v
  | none => n

/-- first occurrence of `tok` in `s`: the text before and the text after it -/
def findTok (tok : List Char) : List Char → Option (List Char × List Char)
  | [] => none
  | c :: s =>
    if tok.isPrefixOf (c :: s) then some ([], (c :: s).drop tok.length)
    else (findTok tok s).map (fun r => (c :: r.1, r.2))

/-- outcome of `if tok in s: a, b = s.split(tok)` -/
inductive Split where
  | absent
  | raises
  | parts (a b : List Char)

def split2 (tok s : List Char) : Split :=
  match findTok tok s with
  | none => .absent
  | some (a, b) => if (findTok tok b).isSome then .raises else .parts a b

def dissectVer (parent : Option Nat) (s : Name) : Option (Option Nat × Name × Option Ver) :=
  match split2 tokVersion s with
  | .absent => some (parent, s, none)
  | .raises => none
  | .parts a b =>
    match parseVer b with
    | some v => some (parent, a, some v)
    | none => none

/-- `dissect(name)`; `none` = the Python raises (ValueError / TypeError) -/
def dissect (s : Name) : Option (Option Nat × Name × Option Ver) :=
  match split2 tokParent s with
  | .absent => dissectVer none s
  | .raises => none
  | .parts a b =>
    match parseNat a with
    | some p => dissectVer (some p) b
    | none => none

/-! ### name tables: the persisted dictionary and the in-memory index -/

structure Tbl where
  /-- the shelve file: full name ↦ id, in iteration order -/
  dict : List (Name × Nat) := []
  /-- `DBI().indices.<t>`: id ↦ full name -/
  index : List Name := []
deriving Repr

/-- `util.append` after `construct`: returns the table and the id (`exists` is always True) -/
def Tbl.append (t : Tbl) (full : Name) : Tbl × Nat :=
  match t.dict.lookup full with
  | some i => (t, i)
  | none =>
    let i := appendId t.index.length t.dict.length
    ({ dict := t.dict ++ [(full, i)], index := t.index ++ [full] }, i)

def insertById (x : Name × Nat) : List (Name × Nat) → List (Name × Nat)
  | [] => [x]
  | y :: ys => if x.2 ≤ y.2 then x :: y :: ys else y :: insertById x ys

/-- `sorted(table.items(), key=lambda t: t[1])` (stable insertion sort) -/
def sortById (l : List (Name × Nat)) : List (Name × Nat) := l.foldr insertById []

/-- `util.indexed(table)` -/
def indexed (d : List (Name × Nat)) : List Name := (sortById d).map (·.1)

/-- `util.subset(from_table, name, parents)` as the list of matching items -/
def subset (d : List (Name × Nat)) (name : Name) (parents : List Nat) : List (Name × Nat) :=
  if parents.isEmpty then d.filter (fun t => subsetPlain t.1 name)
  else parents.flatMap (fun p => d.filter (fun t => subsetParents t.1 (construct name (some p) none)))

/-! ### the catalogue -/

structure Key where
  run : Nat
  tg : Nat
  task : Nat
  alg : Nat
  sv : Nat
  v : Nat
deriving DecidableEq, Repr

def Key.toList (k : Key) : List Nat := [k.run, k.tg, k.task, k.alg, k.sv, k.v]

/-- `k[i]` for a column `i < 6` (the generator refuses any other constant) -/
def Key.col (k : Key) (i : Nat) : Nat := k.toList.getD i 0

/-- `str(tuple)` of a tuple of at least two non-negative integers -/
def tupleStr (xs : List Nat) : List Char :=
  '(' :: ([',', ' '].intercalate (xs.map natStr) ++ [')'])

/-- `str(tuple(pk)).replace(')', ',')` -/
def tuplePrefix (xs : List Nat) : List Char :=
  '(' :: ([',', ' '].intercalate (xs.map natStr) ++ [','])

structure St where
  opened : Bool := false
  target : Tbl := {}
  task : Tbl := {}
  alg : Tbl := {}
  state : Tbl := {}
  value : Tbl := {}
  /-- primary table: key ↦ blob name, in iteration order -/
  prime : List (Key × Name) := []
  /-- blob store: blob name ↦ content (an opaque identifier of the pickled bytes) -/
  blobs : List (Name × Nat) := []
deriving Repr

def init : St := {}

inductive Err where
  | closed      -- RuntimeError: called before open
  | keyError
  | indexError
  | valueError  -- a catalogue name does not dissect
  | attrError   -- a version is missing where one is dereferenced
  | dangling    -- FileNotFoundError: blob missing
deriving DecidableEq, Repr

def St.tbl (s : St) : Tab → Tbl
  | .target => s.target
  | .task => s.task
  | .alg => s.alg
  | .state => s.state
  | .value => s.value

def St.setTbl (s : St) (t : Tab) (x : Tbl) : St :=
  match t with
  | .target => { s with target := x }
  | .task => { s with task := x }
  | .alg => { s with alg := x }
  | .state => { s with state := x }
  | .value => { s with value := x }

/-- `Worker.do(Func.upd)` / the local branch of `shelve.update`: `util.append(name, table, index, parent, ver)` -/
def St.upd (s : St) (t : Tab) (name : Name) (parent : Option Nat) (ver : Option Ver) : St × Nat :=
  let r := (s.tbl t).append (construct name parent ver)
  (s.setTbl t r.1, r.2)

/-- `DBI.close()` : the shelve files stay, the indices are dropped -/
def closeDb (s : St) : St :=
  { s with opened := false,
           target := { s.target with index := [] }, task := { s.task with index := [] },
           alg := { s.alg with index := [] }, state := { s.state with index := [] },
           value := { s.value with index := [] } }

/-- `DBI.open()` : re-read the files, rebuild every index with `util.indexed` -/
def openDb (s : St) : St :=
  if s.opened then s else
  { s with opened := true,
           target := { s.target with index := indexed s.target.dict },
           task := { s.task with index := indexed s.task.dict },
           alg := { s.alg with index := indexed s.alg.dict },
           state := { s.state with index := indexed s.state.dict },
           value := { s.value with index := indexed s.value.dict } }

/-- `shelve.add(target_name)` (local branch) -/
def add (s : St) (tn : Name) : Except Err St :=
  if !s.opened then .error .closed else .ok (s.upd .target tn none none).1

/-- `shelve.update(tsk, alg, sv, vn, v)` (local branch): registration of the four names.
    `svTruthy` is the truth value of the state vector object (`construct` tests `if ver:` and a
    `StateVector` is a `dict`). -/
def register (s : St) (task : Name) (alg : Name × Ver) (sv : Name × Ver) (svTruthy : Bool)
    (v : Name × Ver) : Except Err (St × List Nat) :=
  if !s.opened then .error .closed else
  let (s, tskid) := s.upd .task task none none
  let (s, algid) := s.upd .alg alg.1 (some tskid) (some alg.2)
  let (s, svid) := s.upd .state sv.1 (some algid) (if svTruthy then some sv.2 else none)
  let (s, vid) := s.upd .value v.1 (some svid) (some v.2)
  .ok (s, [tskid, algid, svid, vid])

/-- `Interface.__to_key`: five `_update_cmd` round trips, each an `util.append` on the foreman -/
def toKey (s : St) (run : Nat) (tn task : Name) (alg sv v : Name × Ver) : St × Key :=
  let (s, trgtid) := s.upd .target tn none none
  let (s, tid) := s.upd .task task none none
  let (s, aid) := s.upd .alg alg.1 (some tid) (some alg.2)
  let (s, sid) := s.upd .state sv.1 (some aid) (some sv.2)
  let (s, vid) := s.upd .value v.1 (some sid) (some v.2)
  (s, ⟨run, trgtid, tid, aid, sid, vid⟩)

/-- the same five calls as data, to be compared with the table extracted from the source -/
def toKeyCallsModel : List (Var × NameSrc × Option Var × Tab × VerSrc) :=
  [(.trgtid, .tn, none, .target, .none),
   (.tid, .task, none, .task, .none),
   (.aid, .algName, some .tid, .alg, .alg),
   (.sid, .svName, some .aid, .state, .sv),
   (.vid, .vn, some .sid, .value, .value)]
def toKeyResultModel : List Var := [.runid, .trgtid, .tid, .aid, .sid, .vid]

/-- `Worker.do(Func.set)`: `db.util.move` (keep the first file of a digest) then `prime[str(key)] = name`.
    Returns `exists` (the blob was already there). -/
def setPrime (s : St) (k : Key) (blob : Name) (content : Nat) : St × Bool :=
  let ex := (s.blobs.lookup blob).isSome
  let blobs := if ex then s.blobs else s.blobs ++ [(blob, content)]
  let prime := if s.prime.any (fun e => e.1 == k)
    then s.prime.map (fun e => if e.1 == k then (k, blob) else e)
    else s.prime ++ [(k, blob)]
  ({ s with prime := prime, blobs := blobs }, ex)

/-- one value of `Interface._update`: key from the current versions, then store -/
def store (s : St) (run : Nat) (tn task : Name) (alg sv v : Name × Ver) (blob : Name)
    (content : Nat) : Except Err (St × Key × Bool) :=
  if !s.opened then .error .closed else
  let (s, k) := toKey s run tn task alg sv v
  let (s, ex) := setPrime s k blob content
  .ok (s, k, ex)

/-- `shelve.next()` -/
def next (s : St) : Except Err Nat :=
  if !s.opened then .error .closed else .ok (nextRun (s.prime.map (·.1.col nextRunColumn)))

/-- `shelve.remove(runid, tn, taskn, algn, svn, vn)` -/
def remove (s : St) (run : Nat) (tn taskn algn svn vn : Name) : Except Err St :=
  if !s.opened then .error .closed else
  match s.target.dict.lookup tn with
  | none => .error .keyError
  | some tnid =>
    match s.task.dict.lookup taskn with
    | none => .error .keyError
    | some tskid =>
      let algids := (subset s.alg.dict algn [tskid]).map (·.2)
      let svids := (subset s.state.dict svn algids).map (·.2)
      let vids := (subset s.value.dict vn svids).map (·.2)
      .ok { s with prime := s.prime.filter (fun e =>
        !(e.1.run == run && e.1.tg == tnid && e.1.task == tskid && algids.contains e.1.alg
          && svids.contains e.1.sv && vids.contains e.1.v)) }

/-! ### `shelve.trace` -/

/-- `dawgie.db.targets()` hides names that start and end with two underscores -/
def isDunder (n : Name) : Bool := ['_', '_'].isPrefixOf n && ['_', '_'].isSuffixOf n

def allName : Name := ['_', '_', 'a', 'l', 'l', '_', '_']

/-- `subprime[(tid, tskid, algid)]`: the highest run stored under the three ids -/
def subprimeMax (s : St) (tid tskid algid : Nat) : Option Nat :=
  let runs := (s.prime.filter (fun e => e.1.tg == tid && e.1.task == tskid && e.1.alg == algid)).map
    (·.1.run)
  if runs.isEmpty then none else some (listMax runs)

/-- `tables.alg[sorted(list(subset(alg, algn, [tskid])), key=version)[-1]]` -/
def latestAlg (s : St) (algn : Name) (tskid : Nat) : Except Err Nat :=
  let cands := subset s.alg.dict algn [tskid]
  match cands.mapM (fun t => (dissect t.1).map (fun d => (d.2.2, t.2))) with
  | none => .error .valueError
  | some [] => .error .indexError
  | some (c :: cs) =>
    match (c :: cs).mapM (fun x => x.1.map (fun v => (v, x.2))) with
    | none => if cs.isEmpty then .ok c.2 else .error .attrError
    | some [] => .error .indexError
    | some (c' :: cs') => .ok (cs'.foldl (fun b x => if x.1.lt b.1 then b else x) c').2

def traceCell (s : St) (tid : Nat) (tan : Name × Name) : Except Err (Option Nat) :=
  match s.task.dict.lookup tan.1 with
  | none => .error .keyError
  | some tskid =>
    match latestAlg s tan.2 tskid with
    | .error e => .error e
    | .ok algid =>
      match subprimeMax s tid tskid algid with
      | some r => .ok (some r)
      | none =>
        match s.target.dict.lookup allName with
        | some allid => .ok (subprimeMax s allid tskid algid)
        | none => .ok none

/-- `shelve.trace(task_alg_names)` with every `task.alg` already split at its dot:
    per visible target, the `(task, alg, run)` triples that were found -/
def trace (s : St) (tans : List (Name × Name)) :
    Except Err (List (Name × List (Name × Name × Nat))) :=
  if !s.opened then .error .closed else
  (s.target.dict.filter (fun t => !isDunder t.1)).mapM (fun t =>
    (tans.mapM (fun tan => (traceCell s t.2 tan).map (fun r => (tan, r)))).map (fun cells =>
      (t.1, cells.filterMap (fun c => c.2.map (fun r => (c.1.1, c.1.2, r))))))

/-! ### `shelve.reset` -/

/-- one step of the final loop of `reset`: what is read for one consulted primary key -/
structure ResetStep where
  key : Key
  algVer : Ver
  svName : Name
  /-- the version written to the state vector, when `svn in alg.sv_as_dict()` -/
  svVer : Option Ver
deriving Repr

def primeSubset (s : St) (pk : List Nat) : List (Key × Name) :=
  s.prime.filter (fun e => subsetPlain (tupleStr e.1.toList) (tuplePrefix pk))

def resetTab (s : St) (run tnid tskid : Nat) (algn : Name) : List (Key × Name) :=
  let cands := (subset s.alg.dict algn [tskid]).map (·.2)
  match cands.find? (fun algi => !(primeSubset s [run, tnid, tskid, algi]).isEmpty) with
  | some algi => primeSubset s [run, tnid, tskid, algi]
  | none => primeSubset s [run, tnid, tskid]

def resetStep (s : St) (svNames : List Name) (k : Key) : Except Err ResetStep :=
  match s.alg.index[k.alg]? with
  | none => .error .indexError
  | some an =>
    match dissect an with
    | none => .error .valueError
    | some (_, _, none) => .error .attrError
    | some (_, _, some av) =>
      match s.state.index[k.sv]? with
      | none => .error .indexError
      | some sn =>
        match dissect sn with
        | none => .error .valueError
        | some (_, svn, sver) =>
          if svNames.contains svn then
            match sver with
            | none => .error .attrError
            | some sv => .ok ⟨k, av, svn, some sv⟩
          else .ok ⟨k, av, svn, none⟩

/-- `shelve.reset(runid, tn, tskn, alg)`; `svNames` are the keys of `alg.sv_as_dict()`.
    The result lists, in order, the `_set_ver` calls made on the algorithm and its state vectors. -/
def reset (s : St) (run : Nat) (tn taskn algn : Name) (svNames : List Name) :
    Except Err (List ResetStep) :=
  if !s.opened then .error .closed else
  match s.target.dict.lookup tn with
  | none => .error .keyError
  | some tnid =>
    match s.task.dict.lookup taskn with
    | none => .error .keyError
    | some tskid => (resetTab s run tnid tskid algn).mapM (fun e => resetStep s svNames e.1)

/-! ### `shelve.versions` and `_prime_keys` -/

structure VersRow where
  task : Name
  alg : Name
  algVer : Ver
  sv : Name
  svVer : Ver
  v : Name
  vVer : Ver
deriving Repr

def versionsRow (s : St) (vk : Name) : Except Err VersRow :=
  match dissect vk with
  | none => .error .valueError
  | some (none, _, _) => .error .attrError   -- `indices.state[None]` : TypeError
  | some (some pid, vn, vv) =>
    match s.state.index[pid]? with
    | none => .error .indexError
    | some sk =>
      match dissect sk with
      | none => .error .valueError
      | some (none, _, _) => .error .attrError
      | some (some pid, svn, svv) =>
        match s.alg.index[pid]? with
        | none => .error .indexError
        | some ak =>
          match dissect ak with
          | none => .error .valueError
          | some (none, _, _) => .error .attrError
          | some (some pid, algn, algv) =>
            match s.task.index[pid]? with
            | none => .error .indexError
            | some tk =>
              match dissect tk with
              | none => .error .valueError
              | some (_, tskn, _) =>
                match algv, svv, vv with
                | some a, some b, some c => .ok ⟨tskn, algn, a, svn, b, vn, c⟩
                | _, _, _ => .error .attrError

/-- `shelve.versions()`, one row per entry of the value table -/
def versions (s : St) : Except Err (List VersRow) :=
  if !s.opened then .error .closed else s.value.dict.mapM (fun e => versionsRow s e.1)

/-- the dissected name of entry `i` of an index (`util.dissect(indices.t[i])[1]`) -/
def nameAt (idx : List Name) (i : Nat) : Except Err Name :=
  match idx[i]? with
  | none => .error .indexError
  | some full =>
    match dissect full with
    | none => .error .valueError
    | some d => .ok d.2.1

/-- one element of `shelve._prime_keys()` before the `'.'.join` -/
def keyNames (s : St) (k : Key) : Except Err (Nat × Name × Name × Name × Name × Name) := do
  let tn ← nameAt s.target.index k.tg
  let tk ← nameAt s.task.index k.task
  let a ← nameAt s.alg.index k.alg
  let sv ← nameAt s.state.index k.sv
  let v ← nameAt s.value.index k.v
  pure (k.run, tn, tk, a, sv, v)

/-- `true` when the dissected names of key `k` are exactly the requested ones -/
def keyNamed (s : St) (k : Key) (req : Nat × Name × Name × Name × Name × Name) : Bool :=
  match keyNames s k with
  | .ok x => x == req
  | .error _ => false

def primeKeys (s : St) : Except Err (List (Nat × Name × Name × Name × Name × Name)) :=
  if !s.opened then .error .closed else s.prime.mapM (fun e => keyNames s e.1)

/-! ### `Interface._load` (one value) -/

/-- `sorted(ks, key=lambda t: t[i])[-1]` (`last`) or `[0]` of a stable sort -/
def pickBy (last : Bool) (i : Nat) : List Key → Option Key
  | [] => none
  | k :: ks =>
    some (ks.foldl (fun b x =>
      if last then (if x.col i < b.col i then b else x)
      else (if x.col i < b.col i then x else b)) k)

/-- the key actually read by `_load` for the wanted key `pk`:
    `pk` itself when stored, else `spks[-1]` of the run-sorted keys with the same tail -/
def loadKey (s : St) (pk : Key) : Option Key :=
  if s.prime.any (fun e => e.1 == pk) then some pk else
  let spks := (s.prime.map (·.1)).filter (fun k =>
    k.toList.drop loadTailFrom == pk.toList.drop loadTailFrom)
  pickBy loadPickLast loadSortKey spks

/-- `_get_prime(pk)`: `decode(prime[str(pk)])` -/
def getPrime (s : St) (k : Key) : Except Err Nat :=
  match s.prime.lookup k with
  | none => .error .keyError
  | some blob =>
    match s.blobs.lookup blob with
    | none => .error .dangling
    | some c => .ok c

/-- one `(sv, vn)` iteration of `Interface._load`: `none` = the value object is left untouched -/
def load (s : St) (run : Nat) (tn task : Name) (alg sv v : Name × Ver) :
    Except Err (St × Option (Key × Nat)) :=
  if !s.opened then .error .closed else
  let (s, pk) := toKey s run tn task alg sv v
  match loadKey s pk with
  | none => .ok (s, none)
  | some k =>
    match getPrime s k with
    | .error e => .error e
    | .ok c => .ok (s, some (k, c))

/-! ### what is stored for whom (C06) -/

/-- author identity: task, algorithm, state vector and value names, the last three with their
    versions -/
structure Ident where
  task : Name
  alg : Name × Ver
  sv : Name × Ver
  v : Name × Ver
deriving DecidableEq, Repr

/-- the full name registered under id `i`, read from the persisted dictionary -/
def fullAt (d : List (Name × Nat)) (i : Nat) : Option Name := (d.find? (fun e => e.2 == i)).map (·.1)

/-- name and version of row `i` of a versioned table (`dissect`) -/
def nameVerAt (d : List (Name × Nat)) (i : Nat) : Option (Name × Ver) :=
  match fullAt d i with
  | none => none
  | some f =>
    match dissect f with
    | some (_, n, some v) => some (n, v)
    | _ => none

/-- target and author identity a primary key stands for, read back from the tables -/
def keyIdent (s : St) (k : Key) : Option (Name × Ident) :=
  match fullAt s.target.dict k.tg, fullAt s.task.dict k.task, nameVerAt s.alg.dict k.alg,
        nameVerAt s.state.dict k.sv, nameVerAt s.value.dict k.v with
  | some tn, some tk, some a, some sv, some v => some (tn, ⟨tk, a, sv, v⟩)
  | _, _, _, _, _ => none

/-- `Stored s tn id run c`: the catalogue holds content `c` for author identity `id` on target `tn`
    at run `run` -/
def Stored (s : St) (tn : Name) (id : Ident) (run : Nat) (c : Nat) : Prop :=
  ∃ e ∈ s.prime, e.1.run = run ∧ keyIdent s e.1 = some (tn, id) ∧ s.blobs.lookup e.2 = some c

/-! ### histories -/

/-- the state-changing operations of the property's quantifier (a version bump is a `store` /
    `load` / `register` with another version; observers such as `next`, `trace`, `reset`,
    `versions` do not change the state) -/
inductive Op where
  | openDb
  | closeDb
  | add (tn : Name)
  | register (task : Name) (alg sv : Name × Ver) (svTruthy : Bool) (v : Name × Ver)
  | store (run : Nat) (tn task : Name) (alg sv v : Name × Ver) (blob : Name) (content : Nat)
  | load (run : Nat) (tn task : Name) (alg sv v : Name × Ver)
  | remove (run : Nat) (tn task alg sv v : Name)

/-- one operation; where the Python raises (before any change) the state is unchanged -/
def step (s : St) : Op → St
  | .openDb => openDb s
  | .closeDb => closeDb s
  | .add tn => match add s tn with
    | .ok s' => s'
    | .error _ => s
  | .register task alg sv t v => match register s task alg sv t v with
    | .ok r => r.1
    | .error _ => s
  | .store run tn task alg sv v blob content => match store s run tn task alg sv v blob content with
    | .ok r => r.1
    | .error _ => s
  | .load run tn task alg sv v => match load s run tn task alg sv v with
    | .ok r => r.1
    | .error _ => s
  | .remove run tn task alg sv v => match remove s run tn task alg sv v with
    | .ok s' => s'
    | .error _ => s

/-- a history from the empty, closed catalogue -/
def run (s : St) (ops : List Op) : St := ops.foldl step s

/-! ### the abstract store of C06 -/

/-- the specification: (target, identity) ↦ run ↦ content, and whether the store is open -/
structure ASt where
  opened : Bool
  m : Name → Ident → Nat → Option Nat

def ASt.init : ASt := ⟨false, fun _ _ _ => none⟩

/-- what each operation means for the abstract store: a store writes one cell, a removal clears
    the cells of the named author on that run (every version), nothing else changes anything -/
def absStep (a : ASt) : Op → ASt
  | .openDb => { a with opened := true }
  | .closeDb => { a with opened := false }
  | .store run tn task alg sv v _ content =>
    if a.opened then
      { a with m := fun tn' id' run' =>
          if tn' = tn ∧ id' = ⟨task, alg, sv, v⟩ ∧ run' = run then some content else a.m tn' id' run' }
    else a
  | .remove rid tn task alg sv v =>
    if a.opened then
      { a with m := fun tn' id' run' =>
          if run' = rid ∧ tn' = tn ∧ id'.task = task ∧ id'.alg.1 = alg ∧ id'.sv.1 = sv ∧ id'.v.1 = v
          then none else a.m tn' id' run' }
    else a
  | _ => a

def absRun (ops : List Op) : ASt := ops.foldl absStep ASt.init

/-- what `load` must return for a cell map `m` of one (target, identity): the requested run when
    present, else the content of the highest stored run, else nothing -/
def LoadSpec (m : Nat → Option Nat) (run : Nat) (res : Option (Nat × Nat)) : Prop :=
  match res with
  | none => ∀ r, m r = none
  | some (r, c) => m r = some c ∧ (r = run ∨ (m run = none ∧ ∀ r', m r' ≠ none → r' ≤ r))

end DawgieVerif.Store
