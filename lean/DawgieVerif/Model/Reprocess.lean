/-
The scheduler of `Model/Sched.lean` together with what the units it releases DO: a worker reads
the stored contents of the declared inputs of its algorithm (and the algorithm's own source
data), computes, writes every output value into the store -- where novelty is decided by the
digest of the content (`db.util.move`: a content whose digest is already in the store is not
new) -- and reports the values that were new; `farm.Hand._res` then runs `complete` + `update`.

A unit's execution is NOT atomic here: `read` (the loads of `Task.do`), `write` (`ds.update()`
and the new-value report it fills) and `reply` (the result handled by the farm) are three
separate steps which interleave freely with everything else, including executions of other
units and new requests.  The contents a `read` finds are an argument of the op as well.

The contents written by `write` are an argument of the op (the driver passes what the real
worker stored); the theorems assume they are what a deterministic algorithm computes from the
snapshot taken by `read`.  Core Lean only.
-/
import DawgieVerif.Model.Sched

namespace DawgieVerif.Reprocess
open DawgieVerif.Sched

abbrev Content := Nat
abbrev Unit' := Name × Target

/-- what a unit found when it loaded its inputs: its source data and the stored contents
    (per value and target: an analysis reads every target, its own results live under `ALL`) -/
abbrev Snap := Content × (Val → Target → Content)

structure W where
  s : St
  source : Name → Target → Content          -- data an algorithm gets from outside the pipeline
  store : Val → Target → Content            -- latest stored content per (value, target)
  seen : List Content                       -- every content (digest) present in the store
  reading : List (Unit' × Snap)             -- loaded, `ds.update()` not yet done
  done : List (Unit' × List Val)            -- written; the new-value report is on its way
  dirty : List Unit'                        -- source data changed since the unit last loaded it

def lookupK {α : Type} (k : Unit') : List (Unit' × α) → Option α
  | [] => none
  | e :: es => if e.1 = k then some e.2 else lookupK k es

def dropK {α : Type} (k : Unit') (l : List (Unit' × α)) : List (Unit' × α) :=
  l.filter fun e => decide (e.1 ≠ k)

structure Acc where
  store : Val → Target → Content
  seen : List Content
  news : List Val

/-- `Interface._update` for one value: the content becomes the latest one; it is reported new
    iff its digest was not in the store -/
def writeVal (t : Target) (outc : Val → Content) (a : Acc) (v : Val) : Acc :=
  { store := fun v' t' => if v' = v ∧ t' = t then outc v else a.store v' t'
    seen := if outc v ∈ a.seen then a.seen else outc v :: a.seen
    news := if outc v ∈ a.seen then a.news else a.news ++ [v] }

def writeAll (t : Target) (outc : Val → Content) (vs : List Val) (a : Acc) : Acc :=
  vs.foldl (writeVal t outc) a

/-- the source data of `(x, t)` changes (new raw data arrived) -/
def poke (w : W) (x : Name) (t : Target) (c : Content) : W :=
  { w with source := fun y u => if y = x ∧ u = t then c else w.source y u
           dirty := (x, t) :: w.dirty }

/-- the worker loads the inputs of `(x, t)` and finds the contents `sn`.  (`Interface._load`
    goes by run id: the version stored under the unit's own run id if there is one, else the
    latest.  Versions are not modelled; which contents a load may find is a hypothesis of the
    theorems, `WOk`, and is evaluated by the driver on every real history.) -/
def read (w : W) (x : Name) (t : Target) (sn : Val → Target → Content) : W :=
  { w with reading := w.reading ++ [((x, t), (w.source x t, sn))]
           dirty := w.dirty.filter fun k => decide (k ≠ (x, t)) }

/-- what a load that returns the latest stored contents finds -/
def latest (w : W) : Val → Target → Content := w.store

/-- the units of an algorithm: one per target for a task, the all-targets unit for an analysis -/
def unitsOf (g : Graph) (T : List Target) (x : Name) : List Target :=
  if g.kind x = .analysis then [ALL] else T

/-- the targets at which unit `(x, u)` reads value `v` (`prodA v`: `v` is written by an analysis,
    so it lives under `ALL`; an analysis reads a task's value on every target) -/
def readsT (g : Graph) (prodA : Val → Bool) (T : List Target) (x : Name) (u : Target) (v : Val) :
    List Target :=
  if prodA v then [ALL] else if g.kind x = .analysis then T else [u]

/-- the worker stores the outputs of `(x, t)`; the values reported new are remembered -/
def write (outs : Name → List Val) (w : W) (x : Name) (t : Target) (outc : Val → Content) : W :=
  let a := writeAll t outc (outs x) ⟨w.store, w.seen, []⟩
  { w with store := a.store, seen := a.seen, reading := dropK (x, t) w.reading
           done := w.done ++ [((x, t), a.news)] }

/-- the farm handles the (successful) result of `(x, t)` -/
def reply (g : Graph) (outs : Name → List Val) (w : W) (x : Name) (t : Target) (rid : Nat) : W :=
  match lookupK (x, t) w.done with
  | none => w
  | some news =>
    { w with s := (Sched.reply g w.s x t .success rid news (!(outs x).isEmpty)).1
             done := dropK (x, t) w.done }

inductive WOp where
  | sched (op : Op)
  | poke (x : Name) (t : Target) (c : Content)
  | read (x : Name) (t : Target) (sn : Val → Target → Content)
  | write (x : Name) (t : Target) (outc : Val → Content)
  | reply (x : Name) (t : Target) (rid : Nat)

def stepW (g : Graph) (outs : Name → List Val) (w : W) : WOp → W
  | .sched op => { w with s := step g w.s op }
  | .poke x t c => poke w x t c
  | .read x t sn => read w x t sn
  | .write x t outc => write outs w x t outc
  | .reply x t rid => reply g outs w x t rid

def runW (g : Graph) (outs : Name → List Val) (w : W) (ops : List WOp) : W :=
  ops.foldl (stepW g outs) w

abbrev Fun := Name → Target → Content → (Val → Target → Content) → Val → Content

/-- one from-scratch execution of unit `(x, u)` on a store -/
def scratchUnit (outs : Name → List Val) (F : Fun) (source : Name → Target → Content) (x : Name)
    (st : Val → Target → Content) (u : Target) : Val → Target → Content :=
  fun v t => if v ∈ outs x ∧ t = u then F x u (source x u) st v else st v t

/-- a from-scratch run of every unit of algorithm `x` -/
def scratchNode (g : Graph) (T : List Target) (outs : Name → List Val) (F : Fun)
    (source : Name → Target → Content) (st : Val → Target → Content) (x : Name) :
    Val → Target → Content :=
  (unitsOf g T x).foldl (scratchUnit outs F source x) st

/-- a from-scratch run of the algorithms `order` (dependency order), every unit of each -/
def scratch (g : Graph) (T : List Target) (outs : Name → List Val) (F : Fun)
    (source : Name → Target → Content) (order : List Name) (st : Val → Target → Content) :
    Val → Target → Content :=
  order.foldl (scratchNode g T outs F source) st

end DawgieVerif.Reprocess
