/-
Model of the database lock of the shelve back end:
`dawgie.context.db_lock` (+ `lock_db` / `unlock_db`) and, per connection, the fields that
`dawgie.db.shelve.comms.Worker` keeps:

  `__has_lock`, `__looping_call.running`, `__looping_call_stopped`, `__connection_lost`

plus the number of `reactor.callLater(1, looping_call.stop)` calls that have been scheduled and
have not fired yet.  One `step` is one reactor event on one connection:

  acquire c     `Worker.do(COMMAND(Func.acquire, ..))`: `LoopingCall.start(3)`; Twisted runs the
                first `_do_acquire` immediately (`now=True`)
  tick c        the looping call fires: one `_do_acquire`
  release c     `Worker.do(COMMAND(Func.release, ..))`: `_do_release`
  disconnect c  `Worker.connectionLost`
  stopTimer c   the delayed `LoopingCall.stop` fires

`acquire`/`release` carry a flag `wire`: the request came through `Worker.dataReceived`, which
closes the connection after every request kind in `Generated.Lock.closing`.
The step output lists the messages written to the connection's transport, the exception that
escaped (the two `assert`s of `twisted.internet.task.LoopingCall`) and whether
`transport.loseConnection()` was called.

The `DBI().task_engine` bookkeeping (`dawgie.db.lockview`) is display only and is not modelled.
Core Lean only (no Mathlib) so the driver can run it.
-/
import DawgieVerif.Generated.Lock

namespace DawgieVerif.Lock
open DawgieVerif.Generated.Lock

/-- the lock-relevant fields of one `comms.Worker` -/
structure Conn where
  hasLock : Bool := false   -- `__has_lock`
  running : Bool := false   -- `__looping_call.running`
  stopped : Bool := false   -- `__looping_call_stopped`
  lost : Bool := false      -- `__connection_lost`
  pending : Nat := 0        -- scheduled, not yet fired `callLater(1, __looping_call.stop)`
deriving DecidableEq, Repr

/-- `context.db_lock` and every connection (a connection never used is `{}`) -/
structure St where
  lock : Bool
  conn : Nat → Conn

def init : St := ⟨false, fun _ => {}⟩

inductive Op where
  | acquire (c : Nat) (wire : Bool)
  | tick (c : Nat)
  | release (c : Nat) (wire : Bool)
  | disconnect (c : Nat)
  | stopTimer (c : Nat)
deriving DecidableEq, Repr

/-- the connection an event happens on -/
def Op.client : Op → Nat
  | .acquire c _ => c
  | .tick c => c
  | .release c _ => c
  | .disconnect c => c
  | .stopTimer c => c

/-- what `_send` writes to the transport of the connection -/
inductive Msg where
  | status (m : Mutex)   -- `_do_acquire`: the status seen *before* a grant
  | reply (b : Bool)     -- `_do_release`
deriving DecidableEq, Repr

/-- exceptions that can escape: the assertions of `LoopingCall.start` / `LoopingCall.stop` -/
inductive Err where
  | none
  | startRunning     -- "Tried to start an already running LoopingCall."
  | stopNotRunning   -- "Tried to stop a LoopingCall that was not running."
deriving DecidableEq, Repr

structure Out where
  msgs : List Msg := []
  err : Err := .none
  close : Bool := false      -- `transport.loseConnection()` called by `dataReceived`
deriving DecidableEq, Repr

def upd (f : Nat → Conn) (c : Nat) (k : Conn) : Nat → Conn :=
  fun d => if d = c then k else f d

/-- the record of a connection after a grant: `_lock_db()` (`__has_lock = True`),
    `callLater(1, looping_call.stop)`, `__looping_call_stopped = True` -/
def Conn.grant (k : Conn) : Conn :=
  { k with hasLock := true, pending := k.pending + 1, stopped := true }

/-- `Worker._do_acquire` -/
def poll (s : St) (c : Nat) : St × List Msg :=
  let k := s.conn c
  if k.stopped then (s, [])                 -- `if self.__looping_call_stopped: return`
  else if k.lost then (s, [])               -- `if self.__connection_lost: return`
  else
    let m := statusOf s.lock                -- `_get_db_lock_status()`
    if m = grantOn then
      -- `_lock_db()`; `callLater(1, looping_call.stop)`; `__looping_call_stopped = True`; `_send(s)`
      (⟨true, upd s.conn c k.grant⟩, [.status m])
    else (s, [.status m])

/-- `Worker._do_release` -/
def doRelease (s : St) (c : Nat) : St × List Msg :=
  let k := s.conn c
  if k.hasLock then
    -- `_unlock_db()`; `_send(True)`
    (⟨false, upd s.conn c { k with hasLock := false }⟩, [.reply (releaseReply true)])
  else (s, [.reply (releaseReply false)])

/-- `Worker.connectionLost` -/
def connectionLost (s : St) (c : Nat) : St :=
  let k := { s.conn c with lost := true }
  let k := if k.running && !k.stopped then { k with pending := k.pending + 1, stopped := true } else k
  if k.hasLock then ⟨false, upd s.conn c { k with hasLock := false }⟩   -- `_unlock_db()`
  else ⟨s.lock, upd s.conn c k⟩

def step (s : St) : Op → St × Out
  | .acquire c wire =>
    if (s.conn c).running then
      -- `LoopingCall.start` asserts `not self.running`; the exception escapes `do`/`dataReceived`
      (s, { err := .startRunning, close := wire && closesAfter .acquire })
    else
      let r := poll ⟨s.lock, upd s.conn c { s.conn c with running := true }⟩ c
      (r.1, { msgs := r.2, close := wire && closesAfter .acquire })
  | .tick c =>
    if (s.conn c).running then
      let r := poll s c
      (r.1, { msgs := r.2 })
    else (s, {})
  | .release c wire =>
    let r := doRelease s c
    (r.1, { msgs := r.2, close := wire && closesAfter .release })
  | .disconnect c => (connectionLost s c, {})
  | .stopTimer c =>
    let k := s.conn c
    if k.pending = 0 then (s, {})            -- nothing scheduled
    else if k.running then
      (⟨s.lock, upd s.conn c { k with pending := k.pending - 1, running := false }⟩, {})
    else
      -- `LoopingCall.stop` asserts `self.running`
      (⟨s.lock, upd s.conn c { k with pending := k.pending - 1 }⟩, { err := .stopNotRunning })

/-- state after a list of events -/
def run (s : St) : List Op → St
  | [] => s
  | op :: ops => run (step s op).1 ops

/-- the events with their outputs -/
def trace (s : St) : List Op → List (Op × Out)
  | [] => []
  | op :: ops => (op, (step s op).2) :: trace (step s op).1 ops

def Reachable (s : St) : Prop := ∃ ops, run init ops = s

/-- connection `c` owns the lock -/
def holds (s : St) (c : Nat) : Prop := (s.conn c).hasLock = true

/-- connection `c` is a live waiter: its poller runs, has not been told to stop, and the
    connection is up -/
def waiting (s : St) (c : Nat) : Prop :=
  (s.conn c).running = true ∧ (s.conn c).stopped = false ∧ (s.conn c).lost = false

instance (s : St) (c : Nat) : Decidable (holds s c) :=
  inferInstanceAs (Decidable ((s.conn c).hasLock = true))

instance (s : St) (c : Nat) : Decidable (waiting s c) :=
  inferInstanceAs (Decidable ((s.conn c).running = true ∧ (s.conn c).stopped = false ∧
    (s.conn c).lost = false))

/-- the message the blocking client `comms.acquire` takes for "the lock is yours" -/
def yours : Msg := .status clientWaitsFor

/-- in this event connection `c` was sent "the lock is yours" -/
def toldYours (c : Nat) (e : Op × Out) : Prop := e.1.client = c ∧ yours ∈ e.2.msgs

end DawgieVerif.Lock
