/-
C16 — line protocol for the compliance-gate model.
  (verify <pkg>)  →  (<T|F> (<T|F> … one per rule of Generated.ruleNames) <ok|error-name>)
  (walk <pkg>)    →  raise | ((<cb> <count>) …)      how often each callback of `_walk` fires
  (tables)        →  the generated tables, rendered
The `<pkg>` syntax is produced by `harness/c16_pkg.py:pkg_sx`.
-/
import DawgieVerif.Model.Sexp
import DawgieVerif.Model.Compliant

namespace DawgieVerif.Compliant
open DawgieVerif DawgieVerif.Generated

def str? (x : Sx) : Option String := do
  let ns ← x.nats?
  some (String.ofList (ns.map Char.ofNat))

def dflt? : Sx → Option Dflt
  | Sx.atom "empty" => some .empty
  | Sx.atom "other" => some .other
  | Sx.list [Sx.atom "int", n] => n.int?.map Dflt.int
  | Sx.list [Sx.atom "str", s] => (str? s).map Dflt.str
  | _ => none

def ann? : Sx → Option Ann
  | Sx.atom "str" => some .str
  | Sx.atom "int" => some .int
  | Sx.atom "none" => some .none
  | Sx.atom "other" => some .other
  | _ => none

def param? : Sx → Option Param
  | Sx.list [d, a] => do some ⟨← dflt? d, ← ann? a⟩
  | _ => none

def kind? : Sx → Option RefKind
  | Sx.atom "alg" => some .alg
  | Sx.atom "sv" => some .sv
  | Sx.atom "v" => some .v
  | _ => none

def vref? : Sx → Option VRef
  | Sx.list [a, b] => do some ⟨← a.bool?, ← b.bool?⟩
  | _ => none

def ref? : Sx → Option Ref
  | Sx.list [Sx.atom "ref", k, isRef, ff, io, it, fo, uf, rr, af, Sx.list vs] => do
    some ⟨← kind? k, ← isRef.bool?, ← ff.bool?, ← io.bool?, ← it.bool?, ← fo.bool?, ← uf.bool?,
      ← rr.bool?, ← af.bool?, ← vs.mapM vref?⟩
  | _ => none

def value? : Sx → Option Value
  | Sx.list [Sx.atom "val", k, b, v, p] => do some ⟨← str? k, ← b.bool?, ← v.bool?, ← p.bool?⟩
  | _ => none

def sv? : Sx → Option SV
  | Sx.list [Sx.atom "sv", n, ni, b, v, Sx.list vs] => do
    some ⟨← str? n, ← ni.bool?, ← b.bool?, ← v.bool?, ← vs.mapM value?⟩
  | _ => none

def routine? : Sx → Option Routine
  | Sx.list [Sx.atom "routine", n, ni, b, v, run, di, dl, si, sl, fb, Sx.list ds, Sx.list fs,
      Sx.list ss] => do
    some ⟨← str? n, ← ni.bool?, ← b.bool?, ← v.bool?, ← run.bool?, ← di.bool?, ← dl.bool?,
      ← si.bool?, ← sl.bool?, ← fb.bool?, ← ds.mapM ref?, ← fs.mapM ref?, ← ss.mapM sv?⟩
  | _ => none

def fld? : Sx → Option Fld
  | Sx.atom "N" => some .none
  | Sx.atom "ok" => some .ok
  | Sx.atom "bad" => some .bad
  | _ => none

def boot? : Sx → Option BootFld
  | Sx.atom "N" => some .none
  | Sx.atom "T" => some .t
  | Sx.atom "F" => some .f
  | _ => none

def event? : Sx → Option Event
  | Sx.list [Sx.atom "event", ie, b, d, m, w, t] => do
    some ⟨← ie.bool?, ← boot? b, ← fld? d, ← fld? m, ← fld? w, ← fld? t⟩
  | _ => none

def bot? : Sx → Option Bot
  | Sx.list [Sx.atom "bot", b, l, Sx.list rs] => do some ⟨← b.bool?, ← l.bool?, ← rs.mapM routine?⟩
  | _ => none

def events? : Sx → Option (List Event)
  | Sx.list [Sx.atom "events", Sx.list es] => es.mapM event?
  | _ => none

def fac? {α : Type} (content? : Sx → Option α) : Sx → Option (Option (Fac α))
  | Sx.atom "N" => some none
  | Sx.list [Sx.atom "factory", Sx.list ps, r, c] => do
    some (some ⟨← ps.mapM param?, ← r.bool?, ← content? c⟩)
  | _ => none

def pkg? : Sx → Option Pkg
  | Sx.list [Sx.atom "pkg", a, e, r, t] => do
    some ⟨← fac? bot? a, ← fac? events? e, ← fac? bot? r, ← fac? bot? t⟩
  | _ => none

def cbName : Cb → String
  | .ifbot => "ifbot" | .ifalg => "ifalg" | .ifsv => "ifsv" | .ifv => "ifv" | .ifanl => "ifanl"
  | .ifanz => "ifanz" | .ifret => "ifret" | .ifrec => "ifrec" | .ifref => "ifref" | .ifmom => "ifmom"

def allCbs : List Cb :=
  [.ifbot, .ifalg, .ifsv, .ifv, .ifanl, .ifanz, .ifret, .ifrec, .ifref, .ifmom]

def facName : Factory → String
  | .analysis => "analysis" | .events => "events" | .regress => "regress" | .task => "task"

def errName : BuildErr → String
  | .factoryCall k => "factoryCall-" ++ facName k
  | .routines k => "routines-" ++ facName k
  | .abstractMethod k => "abstractMethod-" ++ facName k
  | .badName k => "badName-" ++ facName k
  | .feedbackKey k => "feedbackKey-" ++ facName k
  | .moment => "moment"

/-- how often `cb` fires during `_walk`; `none` when the walk raises -/
def walkCount (p : Pkg) (cb : Cb) : Option Nat :=
  (Rules.factoryOrder.filter p.has).foldl (fun acc k =>
    match acc, p.root k (Rules.walkArity k) with
    | some a, some (some o) =>
      (Rules.walk k).foldl (fun acc2 f =>
        match acc2 with
        | none => none
        | some b =>
          match countPath f.arg f.path [o] with
          | none => none
          | some c => some (if f.cb == cb then b + c else b)) (some a)
    | _, _ => none) (some 0)

def dfltSx : Dflt → Sx
  | .empty => Sx.atom "empty"
  | .other => Sx.atom "other"
  | .int n => Sx.list [Sx.atom "int", Sx.ofInt n]
  | .str s => Sx.list [Sx.atom "str", Sx.list (s.toList.map (fun c => Sx.ofNat c.toNat))]

def annSx : Ann → Sx
  | .str => Sx.atom "str" | .int => Sx.atom "int" | .none => Sx.atom "none" | .other => Sx.atom "other"

def tablesSx : Sx :=
  Sx.list [
    Sx.list (Rules.ruleNames.map Sx.atom),
    Sx.list (Rules.factoryOrder.map (fun k => Sx.atom (facName k))),
    Sx.list (Rules.factoryOrder.map (fun k => Sx.list [Sx.atom (facName k), Sx.ofNat (Rules.walkArity k)])),
    Sx.list (Rules.ruleNames.map (fun r => Sx.list [Sx.atom r,
      Sx.list ((Rules.ruleCbs r).map (fun c => Sx.atom (cbName c)))])),
    Sx.list (Rules.factoryOrder.map (fun k =>
      let row := Rules.sigTable k
      Sx.list [Sx.atom (facName k), Sx.ofNat row.count, Sx.list (row.dflts.map dfltSx),
        Sx.list (row.anns.map annSx)])),
    Sx.ofNat Rules.rule06Arity, Sx.ofNat Rules.rule10Arity]

def handle : List Sx → Sx
  | [Sx.atom "verify", x] =>
    match pkg? x with
    | none => Sx.err "pkg"
    | some p =>
      Sx.list [Sx.ofBool (verify p), Sx.list (Rules.ruleNames.map (fun r => Sx.ofBool (runRule p r))),
        match construct p with
        | .ok _ => Sx.atom "ok"
        | .error e => Sx.atom (errName e)]
  | [Sx.atom "walk", x] =>
    match pkg? x with
    | none => Sx.err "pkg"
    | some p =>
      match allCbs.mapM (fun cb => (walkCount p cb).map (fun n => Sx.list [Sx.atom (cbName cb), Sx.ofNat n])) with
      | none => Sx.atom "raise"
      | some xs => Sx.list xs
  | [Sx.atom "tables"] => tablesSx
  | _ => Sx.err "compliant-op"

end DawgieVerif.Compliant
