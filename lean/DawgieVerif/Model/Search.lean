/-
C17 — executable model of the database search (`db.basis.SearchFacade`, shelve
`SearchImplementation`), core Lean only.

What is mirrored, function by function:
  `SearchFacade._divide`   ↦ `parse` (text branch, on the token list) and `divide`
  `SearchFacade._scrub`    ↦ `scrub`  (`sortByStart`, `mergeRanges`, `inScrub`, `sortDedup`)
  `SearchImplementation._prime_keys` ↦ `primeKeys` (`runC`, `nameC`, `cOk`, `keyOk`)
  `SearchImplementation._find`  ↦ `find` (`pySlice`, `render`, `pyIndex`)
  `SearchImplementation._facet` / `SearchFacade.facet` ↦ `facet`
`Range.__contains__`, the column order of `_align`, the table choice of `_table_index`
and the default `keylen` come from `Generated/Search.lean`.
-/
import DawgieVerif.Generated.Search

namespace DawgieVerif.Search
open DawgieVerif.Generated.Search

/-! ## run-ID expressions -/

/-- `db.basis.Range`: half-open `start..stop`, `stop = none` is `start..∞` -/
structure Range where
  start : Int
  stop : Option Int
deriving DecidableEq, Repr

/-- one member of a run-ID expression as the code sees it -/
inductive Item where
  | idx (i : Int)
  | rng (r : Range)
deriving DecidableEq, Repr

/-- a run-ID expression: what `Params.runids` holds once it is a list -/
abbrev Expr := List Item

/-- one comma separated piece of a run-ID text after `strip()` -/
inductive Tok where
  | int (i : Int)             -- `7`
  | rng (a b : Option Int)    -- `a:b`, `a:`, `:b`, `:`
  | empty                     -- `` : skipped
  | bad                       -- anything else: `int()` / the unpacking raises ValueError
deriving DecidableEq, Repr

/-- text branch of `_divide`, in text order; `none` = ValueError -/
def parse : List Tok → Option Expr
  | [] => some []
  | .int i :: ts => (parse ts).map (Item.idx i :: ·)
  | .rng a b :: ts =>
    (parse ts).map (Item.rng ⟨(match a with | some s => s | none => 0), b⟩ :: ·)
  | .empty :: ts => parse ts
  | .bad :: _ => none

def indicesOf (e : Expr) : List Int :=
  e.filterMap (fun it => match it with | .idx i => some i | .rng _ => none)

def rangesOf (e : Expr) : List Range :=
  e.filterMap (fun it => match it with | .idx _ => none | .rng r => some r)

/-- `_divide`: indices (a Python set: only membership matters) and ranges (in order) -/
def divide (e : Expr) : List Int × List Range := (indicesOf e, rangesOf e)

/-! ## sorting -/

/-- insertion into a strictly ascending list, dropping an equal element: `sorted(set(..))` -/
def insertBy {α : Type} (lt : α → α → Bool) (x : α) : List α → List α
  | [] => [x]
  | y :: ys =>
    if lt x y then x :: y :: ys
    else if lt y x then y :: insertBy lt x ys
    else y :: ys

def sortDedup {α : Type} (lt : α → α → Bool) (xs : List α) : List α :=
  xs.foldr (insertBy lt) []

def intLt (a b : Int) : Bool := decide (a < b)

/-- stable insertion by `start`: `ranges.sort(key=lambda r: r.start)` -/
def insByStart (r : Range) : List Range → List Range
  | [] => [r]
  | y :: ys => if r.start ≤ y.start then r :: y :: ys else y :: insByStart r ys

def sortByStart (rs : List Range) : List Range := rs.foldr insByStart []

/-! ## `_scrub` -/

/-- one turn of the merge loop; `acc` is `merged` reversed (its head is `merged[-1]`) -/
def mergeStep (acc : List Range) (r : Range) : List Range :=
  match acc with
  | [] => [r]
  | m :: ms =>
    match m.stop with
    | none => m :: ms
    | some e =>
      if r.start > e then r :: m :: ms
      else
        match r.stop with
        | none => ⟨m.start, none⟩ :: ms
        | some e' => if e' > e then ⟨m.start, some e'⟩ :: ms else m :: ms

def mergeRanges : List Range → List Range
  | [] => []
  | r :: rs => (rs.foldl mergeStep [r]).reverse

/-- the inline test of `_scrub`: `r.start <= i < (i + 1 if r.stop is None else r.stop)` -/
def inScrub (r : Range) (i : Int) : Bool :=
  decide (r.start ≤ i) && decide (i < (match r.stop with | none => i + 1 | some s => s))

/-- `indices == {-1}` -/
def isJustLatest (ix : List Int) : Bool := !ix.isEmpty && ix.all (· == -1)

/-- `_scrub` on the run-ID member of `Params` -/
def scrub (e : Expr) : Expr :=
  let ix := (divide e).1
  let rs := (divide e).2
  if isJustLatest ix && rs.isEmpty then [Item.idx (-1)]
  else
    let merged := mergeRanges (sortByStart rs)
    let kept := ix.filter (fun i => !(merged.any (fun r => inScrub r i)))
    merged.map Item.rng ++ (sortDedup intLt kept).map Item.idx

/-! ## the database as the search sees it -/

/-- a prime-table key `(runid, target, task, alg, state vector, value)` -/
structure Key where
  run : Int
  tgt : Int
  task : Int
  alg : Int
  sv : Int
  val : Int
deriving DecidableEq, Repr

/-- a key collapsed to state-vector granularity -/
structure Key5 where
  run : Int
  tgt : Int
  task : Int
  alg : Int
  sv : Int
deriving DecidableEq, Repr

def Key.toList (k : Key) : List Int := [k.run, k.tgt, k.task, k.alg, k.sv, k.val]
def Key5.toList (k : Key5) : List Int := [k.run, k.tgt, k.task, k.alg, k.sv]
def Key.collapse (k : Key) : Key5 := ⟨k.run, k.tgt, k.task, k.alg, k.sv⟩

def Key5.ofList? : List Int → Option Key5
  | [a, b, c, d, e] => some ⟨a, b, c, d, e⟩
  | _ => none

/-- Python's tuple order on 5-tuples of integers -/
def Key5.lt (a b : Key5) : Bool :=
  decide (a.run < b.run) || (a.run == b.run &&
  (decide (a.tgt < b.tgt) || (a.tgt == b.tgt &&
  (decide (a.task < b.task) || (a.task == b.task &&
  (decide (a.alg < b.alg) || (a.alg == b.alg && decide (a.sv < b.sv))))))))

/-- one catalogue table: `table` = (dissected name, id) for every entry of `DBI().tables.<t>`,
    `index` = dissected name by position of `DBI().indices.<t>` -/
structure Cat where
  table : List (String × Int)
  index : List String
deriving Repr

structure DB where
  prime : List Key
  target : Cat
  task : Cat
  alg : Cat
  state : Cat
  value : Cat
deriving Repr

def DB.cat? (db : DB) : String → Option Cat
  | "target" => some db.target
  | "task" => some db.task
  | "alg" => some db.alg
  | "state" => some db.state
  | "value" => some db.value
  | _ => none

/-- `db.basis.Params`; `runids` already divided into items when it is a list or a text -/
structure Params where
  runids : Option Expr
  targets : Option (List String)
  tasks : Option (List String)
  algs : Option (List String)
  svs : Option (List String)
  vals : Option (List String)
deriving Repr

def Params.names? (p : Params) : String → Option (Option (List String))
  | "targets" => some p.targets
  | "tasks" => some p.tasks
  | "algs" => some p.algs
  | "svs" => some p.svs
  | "vals" => some p.vals
  | _ => none

def scrubParams (p : Params) : Params := { p with runids := p.runids.map scrub }

/-! ## `_prime_keys` -/

/-- a constraint set: integers and, for run IDs, ranges -/
abbrev Constraint := List Item

def Item.matches (e : Int) : Item → Bool
  | .idx i => e == i
  | .rng r => rangeContains r.start r.stop e

/-- `not c or e in c or any(isinstance(m, Range) and e in m for m in c)` -/
def cOk (c : Constraint) (e : Int) : Bool := c.isEmpty || c.any (Item.matches e)

/-- run-ID constraint: skipped when falsy, otherwise the items without `-1` -/
def runC : Option Expr → Constraint
  | none => []
  | some v => if v.isEmpty then [] else v.filter (fun it => it != Item.idx (-1))

/-- `_subset(table, name).values()` -/
def subsetIds (table : List (String × Int)) (name : String) : List Int :=
  (table.filter (fun t => t.1 == name)).map (·.2)

/-- name constraint: ids of all entries with that exact dissected name, `-1` for a name
    that matches nothing -/
def nameC (table : List (String × Int)) : Option (List String) → Constraint
  | none => []
  | some names =>
    names.flatMap (fun n =>
      if (subsetIds table n).isEmpty then [Item.idx (-1)] else (subsetIds table n).map Item.idx)

def fieldConstraint (db : DB) (p : Params) (field : String) : Option Constraint :=
  if field == "runids" then some (runC p.runids)
  else
    match p.names? field, tableOf.lookup field with
    | some names, some t =>
      match db.cat? t with
      | some c => some (nameC c.table names)
      | none => none
    | _, _ => none

def mapOpt {α β : Type} (f : α → Option β) : List α → Option (List β)
  | [] => some []
  | x :: xs =>
    match f x, mapOpt f xs with
    | some y, some ys => some (y :: ys)
    | _, _ => none

/-- `constraints[_align(k)]` for every field `k` -/
def constraints (db : DB) (p : Params) : Option (List Constraint) :=
  mapOpt (fieldConstraint db p) alignOrder

def keyOk (cs : List Constraint) (k : Key) : Bool :=
  (cs.zip k.toList).all (fun ce => cOk ce.1 ce.2)

/-- `_prime_keys(parameters)`; `none` only if the generated tables are not the ones modelled -/
def primeKeys (db : DB) (p : Params) : Option (List Key5) :=
  match constraints db p with
  | none => none
  | some cs =>
    match mapOpt (fun k => Key5.ofList? (k.toList.take keyLen)) (db.prime.filter (keyOk cs)) with
    | none => none
    | some cut => some (sortDedup Key5.lt cut)

/-! ## `_find` -/

/-- Python list indexing with an integer (negative positions count from the end); `none` = IndexError -/
def pyIndex {α : Type} (xs : List α) (i : Int) : Option α :=
  if 0 ≤ i then xs[i.toNat]?
  else if 0 ≤ (xs.length : Int) + i then xs[((xs.length : Int) + i).toNat]?
  else none

/-- `pks[index : None if limit is None else index + limit]` for `index, limit ≥ 0` -/
def pySlice {α : Type} (xs : List α) (index : Nat) : Option Nat → List α
  | none => xs.drop index
  | some l => (xs.drop index).take l

/-- the pieces of one result string `rid.target.task.alg.sv` -/
structure Row where
  run : Int
  tgt : String
  task : String
  alg : String
  sv : String
deriving DecidableEq, Repr

def render (db : DB) (k : Key5) : Option Row :=
  match pyIndex db.target.index k.tgt, pyIndex db.task.index k.task,
        pyIndex db.alg.index k.alg, pyIndex db.state.index k.sv with
  | some t, some tk, some a, some s => some ⟨k.run, t, tk, a, s⟩
  | _, _, _, _ => none

/-- `SearchFacade.find`: scrub, then `_find`.  `none` = IndexError while rendering -/
def find (db : DB) (p : Params) (index : Nat) (limit : Option Nat) : Option (List Row × Nat) :=
  match primeKeys db (scrubParams p) with
  | none => none
  | some pks =>
    match mapOpt (render db) (pySlice pks index limit) with
    | none => none
    | some rows => some (rows, pks.length)

/-! ## `facet` -/

def isEmptyList {α : Type} : Option (List α) → Bool
  | some [] => true
  | _ => false

/-- number of `[]` members of the parameters (`SearchFacade._isempty`) -/
def empties (p : Params) : Nat :=
  (if isEmptyList p.runids then 1 else 0) + (if isEmptyList p.targets then 1 else 0)
  + (if isEmptyList p.tasks then 1 else 0) + (if isEmptyList p.algs then 1 else 0)
  + (if isEmptyList p.svs then 1 else 0) + (if isEmptyList p.vals then 1 else 0)

/-- first `[]` member in field order -/
def emptyField (p : Params) : Option String :=
  if isEmptyList p.runids then some "runids"
  else if isEmptyList p.targets then some "targets"
  else if isEmptyList p.tasks then some "tasks"
  else if isEmptyList p.algs then some "algs"
  else if isEmptyList p.svs then some "svs"
  else if isEmptyList p.vals then some "vals"
  else none

def strLt (a b : String) : Bool := decide (a < b)

inductive FacetErr where
  | valueError     -- not exactly one `[]`
  | indexError     -- a key column is not a position of the index
  | unmodelled     -- facet over run IDs or values (the shelve code indexes the wrong table there)
deriving DecidableEq, Repr

/-- the guard of `SearchFacade.facet` and the choice of the facet column in `_facet`, for the four
    name columns.  A run-ID parameter that is (or scrubs to) a list without members is outside the
    model: the code then facets over run IDs through the wrong table, and whether a member-less
    *text* counts as `[]` depends on the raw string. -/
def facetField (p : Params) : Except FacetErr String :=
  let sp := scrubParams p
  if isEmptyList sp.runids then .error .unmodelled
  else if empties p != 1 then .error .valueError
  else
    match emptyField sp with
    | none => .error .unmodelled
    | some f => if f == "runids" || f == "vals" then .error .unmodelled else .ok f

/-- `_facet` once the column is known: `sorted({dissect(table[pk[idx]])[1] for pk in pks})` -/
def facetNames (db : DB) (sp : Params) (f : String) : Except FacetErr (List String) :=
  match primeKeys db sp, tableOf.lookup f with
  | some pks, some t =>
    match db.cat? t with
    | none => .error .unmodelled
    | some c =>
      match mapOpt (fun pk => match pk.toList[alignOrder.idxOf f]? with
                              | some id => pyIndex c.index id
                              | none => none) pks with
      | none => .error .indexError
      | some names => .ok (sortDedup strLt names)
  | _, _ => .error .unmodelled

/-- `SearchFacade.facet` followed by `_facet` -/
def facet (db : DB) (p : Params) : Except FacetErr (List String) :=
  match facetField p with
  | .error e => .error e
  | .ok f => facetNames db (scrubParams p) f

end DawgieVerif.Search
