/-
Model of `security.TwistedWrapper` (legacy, non-TLS handshake) wrapped around a protocol whose
`dataReceived` is the frame loop of `Model/Frame.lean`.

Parameters (assumed behaviour, see DESIGN §6): `verify`/`decrypt` stand for `_PGP.verify(..).valid`
and `_PGP.decrypt(..).data.decode().strip()`; `challenge` is the stripped text generated in `_p3`.
Transport assumption: after `loseConnection` no further `dataReceived` is delivered (`feedT`).
-/
import DawgieVerif.Model.Frame

namespace DawgieVerif.Handshake
open DawgieVerif.Frame

inductive Phase where
  | p1 | p2 | p3 | p4 | p5 | p6
deriving Repr, DecidableEq

def Phase.rank : Phase → Nat
  | .p1 => 6 | .p2 => 5 | .p3 => 4 | .p4 => 3 | .p5 => 2 | .p6 => 1

structure Env where
  verify : Bytes → Bool
  decrypt : Bytes → Bytes
  challenge : Bytes

structure St where
  buf : Bytes
  len : Nat
  phase : Phase
  restored : Bool          -- `dataReceived` handed back to the wrapped protocol
  closed : Bool            -- `transport.loseConnection()` was called
  structErr : Bool         -- a `struct.unpack` saw a wrong-sized slice (exception)
  sent : Nat               -- challenges written to the peer
  inner : Frame.St         -- the wrapped protocol
  delivered : List Bytes   -- payloads handled by the wrapped protocol, in order
deriving Repr, DecidableEq

def init : St :=
  { buf := [], len := 4, phase := .p1, restored := false, closed := false, structErr := false,
    sent := 0, inner := Frame.init, delivered := [] }

inductive Outcome where
  | ok | fail | exc
deriving Repr, DecidableEq

/-- the phase methods `_p1 … _p6`; `s` already has the slice removed from `buf` -/
def phaseFn (e : Env) (s : St) (data : Bytes) : St × Outcome :=
  match s.phase with
  | .p1 =>
    if data.length = 4 then
      ({ s with phase := .p2 }, if beNat data = 4 then .ok else .fail)
    else (s, .exc)
  | .p2 =>
    if data.length = 4 then ({ s with len := beNat data, phase := .p3 }, .ok) else (s, .exc)
  | .p3 =>
    if e.verify data then ({ s with sent := s.sent + 1, len := 8, phase := .p4 }, .ok)
    else (s, .fail)
  | .p4 =>
    if data.length = 8 then
      ({ s with len := beNat (data.drop 4), phase := .p5 },
       if beNat (data.take 4) = 4 then .ok else .fail)
    else (s, .exc)
  | .p5 =>
    if e.verify data && (e.decrypt data == e.challenge) then
      let r := Frame.feed s.inner s.buf
      ({ s with restored := true, inner := r.1, delivered := s.delivered ++ r.2, buf := [],
                phase := .p6 }, .ok)
    else ({ s with phase := .p6 }, .fail)
  | .p6 => (s, .fail)

theorem phaseFn_ok_rank (e : Env) (s : St) (d : Bytes) (s' : St)
    (h : phaseFn e s d = (s', .ok)) : s'.phase.rank < s.phase.rank := by
  unfold phaseFn at h
  cases hp : s.phase <;> simp only [hp] at h <;> (repeat' split at h) <;>
    simp only [Prod.mk.injEq, reduceCtorEq, and_false, and_true] at h <;>
    (try (subst h; simp [Phase.rank])) <;>
    (try (obtain ⟨h1, _⟩ := h; subst h1; simp [Phase.rank]))

/-- the `while self.__len <= len(self.__buf)` loop of `process` -/
def run (e : Env) (s : St) : St :=
  if _hle : s.len ≤ s.buf.length then
    match h : phaseFn e { s with buf := s.buf.drop s.len } (s.buf.take s.len) with
    | (s2, .ok) => run e s2
    | (s2, .fail) => { s2 with closed := true, len := s2.buf.length + 1 }
    | (s2, .exc) => { s2 with closed := true, structErr := true }
  else s
termination_by s.phase.rank
decreasing_by
  have := phaseFn_ok_rank e _ _ _ h
  simpa using this

/-- one `dataReceived(data)` as the transport delivers it -/
def feedT (e : Env) (s : St) (data : Bytes) : St :=
  if s.closed then s
  else if s.restored then
    let r := Frame.feed s.inner data
    { s with inner := r.1, delivered := s.delivered ++ r.2 }
  else run e { s with buf := s.buf ++ data }

def feedAllT (e : Env) (s : St) : List Bytes → St
  | [] => s
  | c :: cs => feedAllT e (feedT e s c) cs

end DawgieVerif.Handshake
