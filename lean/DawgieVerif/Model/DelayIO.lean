import DawgieVerif.Model.Sexp
import DawgieVerif.Model.Delay

namespace DawgieVerif.Delay
open DawgieVerif

def optInt? : Sx → Option (Option Int)
  | Sx.atom "N" => some none
  | x => x.int?.map some

def optBool? : Sx → Option (Option Bool)
  | Sx.atom "N" => some none
  | x => x.bool?.map some

def ints3? (x : Sx) : Option (Int × Int × Int) :=
  match x with
  | Sx.list [a, b, c] => do pure (← a.int?, ← b.int?, ← c.int?)
  | _ => none

/-- `(ref boot day dom dow time)`: boot `N|T|F`, day `N|(y m d)`, dom/dow `N|int`, time `N|(h m s)` -/
def event? : Sx → Option Event
  | Sx.list [r, boot, day, dom, dow, time] => do
    let r ← r.nat?
    let boot ← optBool? boot
    let day ← match day with
      | Sx.atom "N" => some none
      | d => (ints3? d).map (fun (y, m, d) => some (⟨y, m, d⟩ : Date))
    let dom ← optInt? dom
    let dow ← optInt? dow
    let time ← match time with
      | Sx.atom "N" => some none
      | t => (ints3? t).map (fun (h, m, s) => some (⟨h, m, s⟩ : TimeOfDay))
    pure ⟨r, ⟨boot, day, dom, dow, time⟩⟩
  | _ => none

def errName : Err → String
  | .notKnowable => "notKnowable" | .valueError => "valueError"
  | .attributeError => "attributeError" | .overflow => "overflow"

def ofResult : Except Err Int → Sx
  | .ok d => Sx.list [Sx.atom "ok", Sx.ofInt d]
  | .error e => Sx.list [Sx.atom "err", Sx.atom (errName e)]

/-- `(tag isAsp level status (todo) (doing) (events) event|N)` -/
def node? : Sx → Option Node
  | Sx.list [tag, asp, level, status, todo, doing, evs, ev] => do
    let evs ← (← evs.list?).mapM event?
    let ev ← match ev with
      | Sx.atom "N" => some none
      | e => e.str?.map some
    pure ⟨← tag.str?, ← asp.bool?, ← level.int?, ← Status.ofName? (← status.str?), ← todo.strs?,
          ← doing.strs?, evs, ev⟩
  | _ => none

/-- `((node ...) (per ...) (que ...) (booted events) paused (targets ...))` -/
def sched? : Sx → Option Sched
  | Sx.list [nodes, per, que, booted, paused, targets] => do
    pure ⟨← (← nodes.list?).mapM node?, ← per.strs?, ← que.strs?, ← (← booted.list?).mapM event?,
          ← paused.bool?, ← targets.strs?⟩
  | _ => none

def ofSched (s : Sched) : Sx :=
  Sx.list [Sx.list (s.nodes.map (fun n => Sx.list [Sx.ofStr n.tag, Sx.ofStr n.status.name,
              Sx.list (n.todo.map Sx.ofStr), Sx.list (n.doing.map Sx.ofStr),
              match n.event with | none => Sx.atom "N" | some _ => Sx.atom "timer"])),
           Sx.list (s.que.map Sx.ofStr), Sx.list (s.booted.map (fun e => Sx.ofNat e.ref))]

/-- `(delays <event> (booted events) now ...)` → one result per instant (booted not threaded)
    `(boot <event> now ...)` → results with `booted` threaded from `[]`
    `(defer now <sched>)` → `(ok <state> timer|N)` | `(err name)`
    `(uptime tag horizon now <sched>)` → instants at which `tag` was queued
    `(due us ...)` → the regenerated window test
    `(accept <event>)` → `(rule_10 accepts, dawgie.schedule accepts)` -/
def handle : List Sx → Sx
  | Sx.atom "delays" :: ev :: booted :: nows =>
    match event? ev, booted.list?.bind (·.mapM event?), nows.mapM Sx.int? with
    | some ev, some b, some ts => Sx.list (ts.map (fun t => ofResult (delay t b ev).1))
    | _, _, _ => Sx.err "delays"
  | Sx.atom "boot" :: ev :: nows =>
    match event? ev, nows.mapM Sx.int? with
    | some ev, some ts => Sx.list ((evaluations' ev ts []).map ofResult)
    | _, _ => Sx.err "boot"
  | [Sx.atom "defer", now, s] =>
    match now.int?, sched? s with
    | some now, some s =>
      match defer now s with
      | .ok (s', timer) => Sx.list [Sx.atom "ok", ofSched s',
          match timer with | none => Sx.atom "N" | some w => Sx.ofInt w]
      | .error e => Sx.list [Sx.atom "err", Sx.atom (errName e)]
    | _, _ => Sx.err "defer"
  | [Sx.atom "uptime", tag, horizon, now, s] =>
    match tag.str?, horizon.int?, now.int?, sched? s with
    | some tag, some h, some now, some s => Sx.list ((uptime tag h now s).map Sx.ofInt)
    | _, _, _, _ => Sx.err "uptime"
  | Sx.atom "due" :: xs =>
    match xs.mapM Sx.int? with
    | some xs => Sx.list (xs.map (fun x => Sx.ofBool (Generated.Timer.due x)))
    | none => Sx.err "due"
  | [Sx.atom "accept", ev] =>
    match event? ev with
    | some ev => Sx.list [Sx.ofBool (rule10 ev.moment), Sx.ofBool (scheduleOK ev.moment)]
    | none => Sx.err "accept"
  | [Sx.atom "consts"] =>
    Sx.list [Sx.ofInt Generated.Timer.pausedRetry, Sx.list (Generated.Timer.deferSkips.map Sx.ofStr),
             Sx.ofStr Generated.Timer.queuedStatus, Sx.ofStr Generated.Timer.allMarker,
             Sx.list (Generated.Timer.rule10Fields.map Sx.ofStr)]
  | _ => Sx.err "delay-op"
where
  evaluations' (ev : Event) : List Int → List Event → List (Except Err Int)
    | [], _ => []
    | t :: ts, b => (delay t b ev).1 :: evaluations' ev ts (delay t b ev).2

end DawgieVerif.Delay
