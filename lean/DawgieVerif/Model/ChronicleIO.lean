import DawgieVerif.Model.Sexp
import DawgieVerif.Model.Chronicle

namespace DawgieVerif.Chronicle
open DawgieVerif

def optInt? : Sx → Option (Option Int)
  | Sx.atom "N" => some none
  | x => x.int?.map some

def entry? : List Sx → Option Entry
  | [c, r, tg, tk, st, u] => do
    pure ⟨← c.int?, ← r.int?, ← tg.str?, ← tk.str?, ← st.str?, ← u.nat?⟩
  | _ => none

def ofEntries (es : List Entry) : Sx := Sx.list (es.map (fun e => Sx.ofNat e.uid))

/-- one operation on the store:
    `(append (<key> ...) completed runid target task status uid)` → `ok` | `typeError`
    `(find now after before limit succeeded aoff boff)` (`N` = None; offsets in minutes) → `(ok uid ...)` | `valueError`
    `(files)` → `((y m d runid (uid ...)) ...)` in store order
    `(keep after completed before entryStatus status)` → `T`/`F` (the generated test of `_load`) -/
def step (j : Journal) : Sx → Journal × Sx
  | Sx.list (Sx.atom "append" :: keys :: rest) =>
    match keys.strs?, entry? rest with
    | some ks, some e =>
      match append j ks e with
      | .ok j' => (j', Sx.atom "ok")
      | .error _ => (j, Sx.atom "typeError")
    | _, _ => (j, Sx.err "append")
  | Sx.list [Sx.atom "find", now, after, before, limit, succ, aoff, boff] =>
    match now.int?, optInt? after, optInt? before, optInt? limit, succ.bool?, aoff.int?, boff.int? with
    | some now, some a, some b, some l, some s, some ao, some bo =>
      match find j now (a.map (fun t => ⟨t, ao⟩)) (b.map (fun t => ⟨t, bo⟩)) l s with
      | .ok r => (j, Sx.list (Sx.atom "ok" :: r.map (fun e => Sx.ofNat e.uid)))
      | .error _ => (j, Sx.atom "valueError")
    | _, _, _, _, _, _, _ => (j, Sx.err "find")
  | Sx.list [Sx.atom "files"] =>
    (j, Sx.list (j.map (fun f => Sx.list [Sx.ofInt f.dir.year, Sx.ofInt f.dir.month,
      Sx.ofInt f.dir.day, Sx.ofInt f.runid, ofEntries f.entries])))
  | Sx.list [Sx.atom "keep", a, c, b, es, s] =>
    match a.int?, c.int?, b.int?, es.str?, s.str? with
    | some a, some c, some b, some es, some s =>
      (j, Sx.ofBool (Generated.Chronicle.keep a c b es s))
    | _, _, _, _, _ => (j, Sx.err "keep")
  | _ => (j, Sx.err "chron-op")

/-- `(<op> ...)` run in order on an empty store → the list of results -/
def handle (ops : List Sx) : Sx :=
  Sx.list (ops.foldl (fun (st : Journal × List Sx) op =>
    let r := step st.1 op
    (r.1, r.2 :: st.2)) ([], [])).2.reverse

/-- constants regenerated from the source, for the harness to cross-check -/
def consts : Sx :=
  Sx.list [Sx.list (Generated.Chronicle.requiredKeys.map Sx.ofStr),
           Sx.ofStr (Generated.Chronicle.statusWord true), Sx.ofStr (Generated.Chronicle.statusWord false),
           Sx.ofInt floorInstant, Sx.list (Generated.Chronicle.sortKey.map Sx.ofStr)]

end DawgieVerif.Chronicle
