import DawgieVerif.Model.Sexp
import DawgieVerif.Model.Sched

namespace DawgieVerif.Sched
open DawgieVerif

def natLists? (x : Sx) : Option (List (List Nat)) := do
  let xs ← x.list?
  xs.mapM Sx.nats?

def kind? : Sx → Option Kind
  | Sx.atom "task" => some .task
  | Sx.atom "analysis" => some .analysis
  | Sx.atom "regress" => some .regress
  | _ => none

def outcome? : Sx → Option Outcome
  | Sx.atom "success" => some .success
  | Sx.atom "failure" => some .failure
  | Sx.atom "invalid" => some .invalid
  | _ => none

def optNat? : Sx → Option (Option Nat)
  | Sx.atom "N" => some none
  | x => x.nat?.map some

/-- `((kinds ..) (children ..) (desc ..) (ancestry ..) (consumes ..) (feedback (val name) ..) (levels ..) [(ranks ..)])` -/
def graph? (x : Sx) : Option Graph := do
  let xs ← x.list?
  let mk (ks ch de an co fb lv : Sx) (rk : List Nat) : Option Graph := do
    let kinds ← (← ks.list?).mapM kind?
    let ch ← natLists? ch
    let de ← natLists? de
    let an ← natLists? an
    let co ← natLists? co
    let fb ← natLists? fb
    let lv ← lv.nats?
    some { kind := fun n => kinds.getD n .task
           children := fun n => ch.getD n []
           desc := fun n => de.getD n []
           ancestry := fun n => an.getD n []
           consumes := fun n => co.getD n []
           feedbackTo := fun v => (fb.find? (fun p => p.head? == some v)).bind (fun p => p.getLast?)
           level := fun n => lv.getD n 0
           rank := fun n => rk.getD n n }
  match xs with
  | [ks, ch, de, an, co, fb, lv] => mk ks ch de an co fb lv []
  | [ks, ch, de, an, co, fb, lv, rk] => mk ks ch de an co fb lv (← rk.nats?)
  | _ => none

def op? (x : Sx) : Option Op := do
  let xs ← x.list?
  match xs with
  | [Sx.atom "org", names, rid, targets] =>
    some (.organize (← names.nats?) (← optNat? rid) (← targets.nats?))
  | [Sx.atom "disp"] => some .dispatch
  | [Sx.atom "reply", n, t, o, rid, news, ne] =>
    some (.reply (← n.nat?) (← t.nat?) (← outcome? o) (← rid.nat?) (← news.nats?) (← ne.bool?))
  | [Sx.atom "defer", per] =>
    let ps ← natLists? per
    some (.defer (ps.filterMap fun p => match p with | [a, b] => some (a, b) | _ => none))
  | [Sx.atom "pause", b] => some (.pause (← b.bool?))
  | [Sx.atom "addtarget", t] => some (.addTarget (← t.nat?))
  | _ => none

def ofNats (xs : List Nat) : Sx := Sx.list (xs.map Sx.ofNat)

def ofStatus : Status → Sx
  | .initial => Sx.atom "initial" | .delayed => Sx.atom "delayed"
  | .waiting => Sx.atom "waiting" | .running => Sx.atom "running"

def ofNode (nd : Node) : Sx :=
  Sx.list [ofNats nd.todo, ofNats nd.doing, ofNats nd.do_, ofStatus nd.status,
           match nd.runid with | none => Sx.atom "N" | some r => Sx.ofNat r]

def ofPairs (ps : List (Name × Target)) : Sx := Sx.list (ps.map fun p => ofNats [p.1, p.2])

/-- observation after one op: queue, every node, the op's own output -/
def observe (n : Nat) (s : St) (out : Sx) : Sx :=
  Sx.list [ofNats s.que, Sx.list ((List.range n).map fun i => ofNode (s.node i)), out,
           Sx.ofNat s.chron.length,
           Sx.list (s.msgs.map fun m => ofNats [m.job, m.target, m.runid]),
           ofPairs s.inflight]

/-- Re-tabulate the node map after every op (driver only): the model keeps `node` as a function,
    and chains of closures would make look-ups slower with every op.  Nodes `≥ n` are never
    touched by a case over `n` algorithms, so the tabulated function agrees with the original. -/
def retab (n : Nat) (s : St) : St :=
  let arr := ((List.range n).map s.node).toArray
  { s with node := fun i => arr.getD i Node.empty }

def stepObs' (g : Graph) (n : Nat) (s : St) (op : Op) : St × Sx :=
  match op with
  | .dispatch =>
    let r := dispatch g s
    (r.1, observe n r.1 (ofPairs r.2))
  | .reply x t o rid news ne =>
    let r := reply g s x t o rid news ne
    (r.1, observe n r.1 (Sx.atom (if r.2 = .applied then "applied" else "lost")))
  | op =>
    let s' := step g s op
    (s', observe n s' (Sx.atom "-"))

def stepObs (g : Graph) (n : Nat) (s : St) (op : Op) : St × Sx :=
  let r := stepObs' g n s op
  (retab n r.1, r.2)

def runObs (g : Graph) (n : Nat) : St → List Op → List Sx
  | _, [] => []
  | s, op :: ops =>
    let r := stepObs g n s op
    r.2 :: runObs g n r.1 ops

/-- `(run <n> <graph> (<target> ..) (<op> ..))` → one observation per op -/
def handle : List Sx → Sx
  | [Sx.atom "run", n, g, targets, ops] =>
    match n.nat?, graph? g, targets.nats?, ops.list?.bind (·.mapM op?) with
    | some n, some g, some ts, some ops => Sx.list (runObs g n (St.init ts) ops)
    | _, _, _, _ => Sx.err "sched-args"
  | _ => Sx.err "sched-op"

end DawgieVerif.Sched
