/-
S-expressions for the line protocol between the Python harness and the Lean models.
Atoms are maximal runs of characters other than blanks and parentheses.
-/
namespace DawgieVerif

inductive Sx where
  | atom (s : String)
  | list (xs : List Sx)
deriving Repr, Inhabited, BEq

namespace Sx

inductive Tok where
  | lp | rp | at (s : String)

def tokenize (s : String) : List Tok :=
  let flush (cur : List Char) (acc : List Tok) : List Tok :=
    if cur.isEmpty then acc else Tok.at (String.ofList cur.reverse) :: acc
  let (cur, acc) := s.toList.foldl (fun (st : List Char × List Tok) c =>
    let (cur, acc) := st
    if c = '(' then ([], Tok.lp :: flush cur acc)
    else if c = ')' then ([], Tok.rp :: flush cur acc)
    else if c = ' ' || c = '\n' || c = '\t' || c = '\r' then ([], flush cur acc)
    else (c :: cur, acc)) ([], [])
  (flush cur acc).reverse

/-- stack-based parser: `stack` holds the reversed items of every open list -/
def parseToks : List Tok → List (List Sx) → Option Sx
  | [], [top] => match top with
      | [x] => some x
      | _ => none
  | [], _ => none
  | Tok.lp :: ts, st => parseToks ts ([] :: st)
  | Tok.rp :: ts, top :: nxt :: st => parseToks ts ((Sx.list top.reverse :: nxt) :: st)
  | Tok.rp :: _, _ => none
  | Tok.at a :: ts, top :: st => parseToks ts ((Sx.atom a :: top) :: st)
  | Tok.at _ :: _, [] => none

def parse (s : String) : Option Sx := parseToks (tokenize s) [[]]

partial def render : Sx → String
  | atom s => s
  | list xs => "(" ++ " ".intercalate (xs.map render) ++ ")"

def nat? : Sx → Option Nat
  | atom s => s.toNat?
  | _ => none

def int? : Sx → Option Int
  | atom s => s.toInt?
  | _ => none

def str? : Sx → Option String
  | atom s => some s
  | _ => none

def list? : Sx → Option (List Sx)
  | list xs => some xs
  | _ => none

def bool? : Sx → Option Bool
  | atom "T" => some true
  | atom "F" => some false
  | _ => none

def ofNat (n : Nat) : Sx := atom (toString n)
def ofInt (n : Int) : Sx := atom (toString n)
def ofBool (b : Bool) : Sx := atom (if b then "T" else "F")
def ofStr (s : String) : Sx := atom s

def nats? (x : Sx) : Option (List Nat) := do
  let xs ← x.list?
  xs.mapM nat?

def strs? (x : Sx) : Option (List String) := do
  let xs ← x.list?
  xs.mapM str?

def err (msg : String) : Sx := list [atom "bad-op", atom msg]

end Sx
end DawgieVerif
