/-
What the farm does with a worker's answer (`pl.farm.Hand._res` / `Hand._translate`): the `suc`
field of the answer is translated to a scheduler state by a chain of `if .. return` clauses, then
the scheduler calls are made in the order the source makes them: some unconditionally, some under
`if state == State.<x>:` / `else:`.  The clause table and the call lists are regenerated from the
source (`Generated/HandGen.lean`); this file gives them meaning over `Model/Sched.lean`.
Core Lean only.
-/
import DawgieVerif.Model.Sched

namespace DawgieVerif.Hand
open DawgieVerif.Sched

/-- `msg.success` on the wire: `None`, a truthy value, a falsy value that is not `None` -/
inductive Suc where
  | none | yes | no
deriving Repr, DecidableEq

/-- the tests `_translate` may make on its argument -/
inductive Test where
  | isNone | isNotNone | truthy | falsy
deriving Repr, DecidableEq

def Test.holds : Test → Suc → Bool
  | .isNone, s => s == .none
  | .isNotNone, s => s != .none
  | .truthy, s => s == .yes
  | .falsy, s => s != .yes      -- `not state`: `None` is falsy too

/-- `Hand._translate`: the first clause whose test holds decides, else the final `return` -/
def translate (clauses : List (Test × Outcome)) (dflt : Outcome) (s : Suc) : Outcome :=
  match clauses.find? fun c => c.1.holds s with
  | some c => c.2
  | none => dflt

/-- the scheduler calls `_res` can make -/
inductive Act where
  | complete | update | purge
deriving Repr, DecidableEq

def act (g : Graph) (x : Name) (t : Target) (o : Outcome) (rid : Nat) (news : List Val)
    (nonempty : Bool) (s : St) : Act → St
  | .complete => complete s x t o rid
  | .update => update g s x t rid news nonempty
  | .purge => purge g s x t

/-- the calls made for state `o`: `pre` always, then `thenA` if `o == cmp` else `elseA` -/
def acts (pre : List Act) (cmp : Outcome) (thenA elseA : List Act) (o : Outcome) : List Act :=
  pre ++ (if o = cmp then thenA else elseA)

/-- `Hand._res` for a job `schedule.find` knows (`x ∈ s.que`; otherwise `IndexError` is caught
    and nothing is booked): the unit leaves the busy list, then the calls are made in order -/
def res (g : Graph) (pre : List Act) (cmp : Outcome) (thenA elseA : List Act) (s : St) (x : Name)
    (t : Target) (o : Outcome) (rid : Nat) (news : List Val) (nonempty : Bool) : St × ReplyResult :=
  let s0 := { s with inflight := s.inflight.erase (x, t) }
  if x ∈ s.que then
    ((acts pre cmp thenA elseA o).foldl (act g x t o rid news nonempty) s0, .applied)
  else (s0, .lost)

end DawgieVerif.Hand
