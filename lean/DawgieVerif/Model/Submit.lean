/-
Submission priorities, wait flags and pollers of `dawgie.pl.state.FSM` (C12), composed with the
life-cycle model `Model/Fsm.lean` (the waiters call `update_trigger` on the real machine, and
`reset` runs inside the life-cycle's `loading_trigger`).

  * `priority`   — `FSM.priority`: strongest priority requested since the last `reset`
                   (`Generated.Prio.max`, translated from `tools.submit.Priority.max`);
  * `setCrew/setDoing/setTodo` — the three `threading.Event`s (`true` = set = NOT waiting);
  * `thrCrew/thrDoing/thrTodo` — `crew_thread/doing_thread/todo_thread is not None`;
  * `env`        — what the pollers read: `farm._busy`, `schedule.view_doing()`, `schedule.que`
                   non-empty; changes arbitrarily between events (`Event.env`);
  * `log`        — ghost: every call of `update_trigger` with what the caller had just observed.

One poll of a waiter loop and, when the loop exits, its `done` callback are ONE step (DESIGN §5.1).
-/
import DawgieVerif.Generated.Priority
import DawgieVerif.Model.Fsm

namespace DawgieVerif.Submit
open DawgieVerif.Generated.Prio (Priority)
open DawgieVerif.Generated.Fsm (State Trigger)

inductive Waiter where
  | crew | doing | todo
deriving DecidableEq, Repr, Inhabited

/-- the priority a waiter serves -/
def Waiter.prio : Waiter → Priority
  | .crew => .CREW
  | .doing => .DOING
  | .todo => .TODO

/-- the lattice of the property text: NOW > CREW > DOING > TODO -/
def rank : Priority → Nat
  | .NOW => 3
  | .CREW => 2
  | .DOING => 1
  | .TODO => 0

structure Env where
  busy : Bool     -- `dawgie.pl.farm._busy` non-empty
  doing : Bool    -- `dawgie.pl.schedule.view_doing()` non-empty
  que : Bool      -- `dawgie.pl.schedule.que` non-empty
deriving DecidableEq, Repr, Inhabited

/-- the environment half of the loop condition of `is_crew_done / is_doing_done / is_todo_done` -/
def Env.blocks (e : Env) : Waiter → Bool
  | .crew => e.busy
  | .doing => e.doing
  | .todo => e.que

/-- the condition under which a priority allows the update (`NOW`: always) -/
def Env.allows (e : Env) : Priority → Bool
  | .NOW => true
  | .CREW => !e.busy
  | .DOING => !e.doing
  | .TODO => !e.que

/-- one call of `update_trigger` -/
structure Upd where
  who : Option Waiter      -- the waiter whose `done` fired it; `none`: `wait_for_nothing`
  forced : Bool            -- operator reset request (fe/api `cmd_reset`), not a submission
  prio : Option Priority   -- `FSM.priority` at that instant
  env : Env                -- what the poller had just observed
  active : Bool            -- `is_pipeline_active()` at that instant
  accepted : Bool          -- the machine took the trigger (state → updating)
  cycle : Nat              -- number of `reset`s so far
deriving DecidableEq, Repr

structure St where
  fsm : Fsm.St
  priority : Option Priority
  setCrew : Bool
  setDoing : Bool
  setTodo : Bool
  thrCrew : Bool
  thrDoing : Bool
  thrTodo : Bool
  env : Env
  cycle : Nat
  log : List Upd
deriving DecidableEq, Repr

def St.isSet (s : St) : Waiter → Bool
  | .crew => s.setCrew
  | .doing => s.setDoing
  | .todo => s.setTodo

def St.hasThread (s : St) : Waiter → Bool
  | .crew => s.thrCrew
  | .doing => s.thrDoing
  | .todo => s.thrTodo

def St.setThread (s : St) (k : Waiter) (b : Bool) : St :=
  match k with
  | .crew => { s with thrCrew := b }
  | .doing => { s with thrDoing := b }
  | .todo => { s with thrTodo := b }

/-- a fresh `FSM()` (its `__init__` calls `reset`) -/
def init (archive : Bool) (env : Env) : St :=
  { fsm := Fsm.init archive, priority := none, setCrew := true, setDoing := true, setTodo := true,
    thrCrew := false, thrDoing := false, thrTodo := false, env := env, cycle := 0, log := [] }

/-- the part of `FSM.reset` outside the life-cycle model: all three flags set, priority cleared -/
def applyResets (n : Nat) (s : St) : St :=
  if n = 0 then s
  else { s with setCrew := true, setDoing := true, setTodo := true, priority := none, cycle := s.cycle + n }

/-- run a life-cycle event and apply the `reset`s it performed -/
def life (s : St) (e : Fsm.Event) : St × Fsm.Outcome :=
  let r := Fsm.step s.fsm e
  (applyResets r.2.1.resets { s with fsm := r.1 }, r.2.2)

/-- `self.update_trigger()` called by `who`; the exception of a rejected trigger ends the caller -/
def fireUpdate (who : Option Waiter) (forced : Bool) (s : St) : St :=
  let r := Fsm.step s.fsm .update
  let u : Upd := { who := who, forced := forced, prio := s.priority, env := s.env, active := s.fsm.isActive,
                   accepted := r.2.2 = .ok, cycle := s.cycle }
  applyResets r.2.1.resets { s with fsm := r.1, log := s.log ++ [u] }

/-- `FSM.wait_for_crew / wait_for_doing / wait_for_todo / wait_for_nothing` -/
def waitFor (s : St) (forced : Bool) : Priority → St
  -- a poller is started only when the slot is free; either way the slot is occupied afterwards
  | .CREW => { s with setCrew := false, setDoing := true, setTodo := true, thrCrew := true }
  | .DOING => { s with setDoing := false, setTodo := true, thrDoing := true }
  | .TODO => { s with setTodo := false, thrTodo := true }
  | .NOW => fireUpdate none forced { s with setTodo := true, setDoing := true, setCrew := true }

/-- `FSM.submit_crossroads` -/
def crossroads (s : St) : St :=
  if !s.fsm.isActive then s
  else match s.priority with
    | none => s
    | some p => waitFor s false p

/-- `FSM.set_submit_info` (the changeset is not modelled) -/
def setSubmitInfo (p : Priority) (s : St) : St :=
  { s with priority := some (Generated.Prio.max [s.priority, some p]) }

inductive Event where
  | boot
  | submitBegin                      -- Process.step_1
  | submitDone (p : Priority)        -- Process.step_3: running_trigger, set_submit_info, submit_crossroads
  | submitFail                       -- Process.failure
  | dispatchArchive                  -- farm.dispatch (fires only with `farm._busy` empty)
  | flagArchive
  | complete (i : Nat) (reopen : Bool)
  | resetNow (archive : Bool)        -- fe/api cmd_reset: active → ARCHIVE |= archive; wait_for_nothing
  | poll (k : Waiter)                -- one evaluation of the loop condition; on exit the `done` callback
  | env (e : Env)                    -- the farm / the schedule move on
deriving DecidableEq, Repr

def step (s : St) : Event → St
  | .boot => (life s .boot).1
  | .submitBegin => (life s .submitBegin).1
  | .submitFail => (life s .submitEnd).1
  | .dispatchArchive => if s.env.busy then s else (life s .dispatchArchive).1   -- the farm must be idle
  | .flagArchive => (life s .flagArchive).1
  | .complete i b => (life s (.complete i b)).1
  | .submitDone p =>
    if s.fsm.core.state = .gitting then
      let r := life s .submitEnd
      if r.2 = .ok then crossroads (setSubmitInfo p r.1) else r.1   -- the exception ends step_3
    else s                                                           -- no Process in flight
  | .resetNow a =>
    if s.fsm.isActive then
      waitFor (if a then (life s .flagArchive).1 else s) true .NOW
    else s
  | .poll k =>
    if !s.hasThread k then s                                -- no such poller
    else if s.env.blocks k && !s.isSet k then s             -- loop condition true: sleep
    else
      let s1 := s.setThread k false                         -- done(): slot cleared first (F-C12 repair)
      if !s.isSet k then fireUpdate (some k) false s1 else s1     -- still the active wait → update_trigger
  | .env e => { s with env := e }

def run (s : St) : List Event → St
  | [] => s
  | e :: es => run (step s e) es

/-- the waiter of priority `p` is armed: its flag is clear and a poller holds its slot -/
def St.armed (s : St) (k : Waiter) : Bool := !s.isSet k && s.hasThread k

/-- a reload has been accepted and its `reset` has not run yet -/
def inReloadC (c : Fsm.Core) : Bool :=
  c.state = .updating ∨ (c.state = .archiving ∧ c.prior = some .updating)

def St.inReload (s : St) : Bool := inReloadC s.fsm.core

/-- liveness as a state predicate: whatever was requested since the last reload is being served —
    the reload is under way, or the waiter of the strongest priority is armed -/
def St.served (s : St) : Bool :=
  s.inReload ||
  match s.priority with
  | none => true
  | some .NOW => false
  | some .CREW => s.armed .crew
  | some .DOING => s.armed .doing
  | some .TODO => s.armed .todo

/-- soundness of one recorded `update_trigger`: unless it is an operator reset, the condition of
    the strongest priority requested since the last reload held in the state the caller observed,
    and the caller is the waiter of that priority (`wait_for_nothing` for `NOW`) -/
def Upd.sound (u : Upd) : Prop :=
  u.forced = true ∨ ∃ p, u.prio = some p ∧ u.env.allows p = true ∧
    (match u.who with | some k => p = k.prio | none => p = .NOW)

/-- at most one accepted update per reload cycle -/
def Once (log : List Upd) : Prop :=
  ∀ (i j : Nat) (ui uj : Upd), i < j → log[i]? = some ui → log[j]? = some uj →
    ui.accepted = true → uj.accepted = true → ui.cycle < uj.cycle

/-- hypothesis of `trigger_live_partial`: whenever a poll finds its condition satisfied while it is
    the active wait (so `done` is about to call `update_trigger`), the life-cycle is at rest in
    `running`.  Excludes exactly the known findings C12:update-while-archiving / -gitting. -/
def Calm (s : St) : List Event → Prop
  | [] => True
  | e :: es =>
    (match e with
     | .poll k => s.hasThread k = true → s.isSet k = false → s.env.blocks k = false → s.fsm.isActive = true
     | _ => True) ∧ Calm (step s e) es

end DawgieVerif.Submit
