/-
Model of the timer side of `pl/schedule.py` (C20): `_delay` exactly as written (boot / fixed
date / day-of-month with its month loop / day-of-week, every `datetime(...)` constructor with
its range check as an explicit error), and the decision of `defer` / `periodics`, `complete`
and `_prune` as far as timer events are concerned.

Time: UTC instants as `Int` micro-seconds since 1970-01-01T00:00:00Z over `Model/Cal.lean`.
Core Lean only.
-/
import DawgieVerif.Proofs.Cal
import DawgieVerif.Generated.TimerGen

namespace DawgieVerif.Delay
open DawgieVerif.Cal
open DawgieVerif.Generated.Timer (due pausedRetry deferSkips armedStatus queuedStatus queuedEvent
  allMarker rule10Fields rule10Count rule10TimeGuard scheduleFields scheduleCount)

/-- `datetime.time` (hour, minute, second; micro-seconds and tzinfo are not read by `_delay`) -/
structure TimeOfDay where
  hour : Int
  minute : Int
  second : Int
deriving DecidableEq, Repr

/-- `datetime.date` -/
structure Date where
  year : Int
  month : Int
  day : Int
deriving DecidableEq, Repr

/-- `dawgie.MOMENT(boot, day, dom, dow, time)`; `none` is Python's `None` -/
structure Moment where
  boot : Option Bool
  day : Option Date
  dom : Option Int
  dow : Option Int
  time : Option TimeOfDay
deriving DecidableEq, Repr

/-! acceptance of a moment, from the regenerated pieces of `rule_10` and `dawgie.schedule` -/

def fieldIsNone (m : Moment) : String → Bool
  | "boot" => m.boot.isNone
  | "day" => m.day.isNone
  | "dom" => m.dom.isNone
  | "dow" => m.dow.isNone
  | _ => false

def noneCount (m : Moment) (fields : List String) : Nat := (fields.filter (fieldIsNone m)).length

/-- `tools.compliant.rule_10` on one moment (the `isinstance` tests are the types of the model) -/
def rule10 (m : Moment) : Bool :=
  rule10Count (noneCount m rule10Fields) rule10Fields.length &&
    (if fieldIsNone m rule10TimeGuard then m.time.isSome else true)

/-- `dawgie.schedule` does not raise -/
def scheduleOK (m : Moment) : Bool := scheduleCount (noneCount m scheduleFields) scheduleFields.length

/-- `dawgie.EVENT`: `ref` stands for the algorithm reference (compared by `in booted`) -/
structure Event where
  ref : Nat
  moment : Moment
deriving DecidableEq, Repr

inductive Err where
  | notKnowable      -- `_DelayNotKnowableError`: boot event already fired
  | valueError       -- `datetime(...)`: "day is out of range for month", year outside 1..9999, …
  | attributeError   -- `when.moment.time` is None
  | overflow         -- `datetime + timedelta` leaves year 1..9999
deriving DecidableEq, Repr

instance decEqExcept {α : Type} [DecidableEq α] : DecidableEq (Except Err α) := fun a b =>
  match a, b with
  | .ok x, .ok y => if h : x = y then isTrue (by rw [h]) else isFalse (fun e => by injection e; contradiction)
  | .error x, .error y => if h : x = y then isTrue (by rw [h]) else isFalse (fun e => by injection e; contradiction)
  | .ok _, .error _ => isFalse (fun e => by cases e)
  | .error _, .ok _ => isFalse (fun e => by cases e)

/-- the exception, if any -/
def errOf {α : Type} : Except Err α → Option Err
  | .ok _ => none
  | .error e => some e

/-- the `datetime(year, month, day, hour, minute, second, tzinfo=UTC)` constructor -/
def mkDatetime (y m d hh mm ss : Int) : Except Err Int :=
  if 1 ≤ y ∧ y ≤ 9999 ∧ validDate y m d = true ∧ 0 ≤ hh ∧ hh < 24 ∧ 0 ≤ mm ∧ mm < 60 ∧ 0 ≤ ss ∧ ss < 60 then
    .ok (instant y m d hh mm ss)
  else .error .valueError

/-- `datetime + timedelta(days=dd)` -/
def addDays (t dd : Int) : Except Err Int :=
  let y := (civilFromDays (dayOf t + dd)).year
  if 1 ≤ y ∧ y ≤ 9999 then .ok (t + dd * usPerDay) else .error .overflow

/-- the `while True` loop of the day-of-month branch: normalise `(year, nm)`, stop at a month
    that has day `dom` (or when `dom` exceeds 31), else try the next month.  Terminates because
    a month shorter than 31 days is followed by one of 31 days. -/
def domLoop (dom year nm : Int) : Int × Int :=
  let y := year + (nm - 1) / 12
  let m := (nm - 1) % 12 + 1
  if dom ≤ daysInMonth y m ∨ 31 < dom then (y, m) else domLoop dom y (m + 1)
termination_by (if daysInMonth (year + (nm - 1) / 12) ((nm - 1) % 12 + 1) < 31 then 1 else 0 : Nat)
decreasing_by
  rename_i h
  have h' : ¬ (dom ≤ daysInMonth (year + (nm - 1) / 12) ((nm - 1) % 12 + 1) ∨ 31 < dom) := h
  have hm1 : 1 ≤ (nm - 1) % 12 + 1 := by omega
  have hm2 : (nm - 1) % 12 + 1 ≤ 12 := by omega
  have hd := daysInMonth_pos (year + (nm - 1) / 12) hm1 hm2
  have hlt : daysInMonth (year + (nm - 1) / 12) ((nm - 1) % 12 + 1) < 31 := by omega
  have h31 : ¬ daysInMonth (year + (nm - 1) / 12 + ((nm - 1) % 12 + 1 + 1 - 1) / 12)
      (((nm - 1) % 12 + 1 + 1 - 1) % 12 + 1) < 31 := by
    rcases month_cases hm1 hm2 with e | e | e | e | e | e | e | e | e | e | e | e <;>
      rw [e] at hlt ⊢ <;> simp [daysInMonth] at hlt ⊢
  rw [if_pos hlt, if_neg h31]
  decide

/-- `when.moment.time.<field>` -/
def timeOf (m : Moment) : Except Err TimeOfDay :=
  match m.time with
  | some t => .ok t
  | none => .error .attributeError

/-- `then` of the non-boot branch of `_delay`: the three `if … is not None` in sequence -/
def designated (now : Int) (m : Moment) : Except Err Int := do
  let c := civilFromDays (dayOf now)
  let today := weekday (dayOf now)
  let then0 := now
  let then1 ← match m.day with
    | none => pure then0
    | some d => do
      let t ← timeOf m
      mkDatetime d.year d.month d.day t.hour t.minute t.second
  let then2 ← match m.dom with
    | none => pure then1
    | some dom => do
      let r := domLoop dom c.year (c.month + (if dom < c.day then 1 else 0))
      let t ← timeOf m
      mkDatetime r.1 r.2 dom t.hour t.minute t.second
  let then3 ← match m.dow with
    | none => pure then2
    | some dow => do
      let dd := if dow < today then 7 + dow - today else dow - today
      let t ← timeOf m
      let base ← mkDatetime c.year c.month c.day t.hour t.minute t.second
      addDays base dd
  pure then3

/-- `_delay(when)` at clock reading `now` with the module list `booted`;
    returns `then - now` in micro-seconds and the new `booted` -/
def delay (now : Int) (booted : List Event) (ev : Event) : Except Err Int × List Event :=
  match ev.moment.boot with
  | some _ =>
    if ev ∈ booted then (.error .notKnowable, booted) else (.ok 0, booted ++ [ev])
  | none =>
    match designated now ev.moment with
    | .ok t => (.ok (t - now), booted)
    | .error e => (.error e, booted)

/-! ### defer / periodics / complete -/

inductive Status where
  | delayed | failure | initial | invalid | running | success | waiting
deriving DecidableEq, Repr

def Status.name : Status → String
  | .delayed => "delayed" | .failure => "failure" | .initial => "initial" | .invalid => "invalid"
  | .running => "running" | .success => "success" | .waiting => "waiting"

def Status.ofName? (s : String) : Option Status :=
  [Status.delayed, .failure, .initial, .invalid, .running, .success, .waiting].find? (fun x => x.name == s)

/-- the part of a `dag.Node` the timer code reads and writes -/
structure Node where
  tag : String
  isAsp : Bool            -- built by the analysis factory (`_is_asp`)
  level : Int
  status : Status
  todo : List String      -- `fifo.Unique`: no duplicates, insertion order
  doing : List String
  period : List Event
  event : Option String
deriving DecidableEq, Repr

/-- module state of `pl/schedule.py` as far as timers go; `que`/`per` hold node tags -/
structure Sched where
  nodes : List Node
  per : List String
  que : List String
  booted : List Event
  paused : Bool
  targets : List String    -- `dawgie.db.targets()`
deriving DecidableEq, Repr

def getNode (s : Sched) (tag : String) : Option Node := s.nodes.find? (fun n => n.tag == tag)

def setNode (s : Sched) (n : Node) : Sched :=
  { s with nodes := s.nodes.map (fun x => if x.tag == n.tag then n else x) }

/-- `Unique.add` / `Unique.update` -/
def addAll (todo : List String) (xs : List String) : List String :=
  xs.foldl (fun acc x => if acc.contains x then acc else acc ++ [x]) todo

def levelOf (s : Sched) (tag : String) : Int :=
  match getNode s tag with
  | some n => n.level
  | none => 0

/-- stable insertion by level: `que.append(t); que.sort(key=level)` on an already sorted queue -/
def insertByLevel (s : Sched) (tag : String) : List String → List String
  | [] => [tag]
  | x :: xs => if levelOf s tag < levelOf s x then tag :: x :: xs else x :: insertByLevel s tag xs

/-- `que.sort(key=level)` (stable) -/
def sortByLevel (s : Sched) (q : List String) : List String :=
  q.foldl (fun acc x => insertByLevel s x acc) []

/-- `_prune()` -/
def prune (s : Sched) : Sched :=
  { s with que := s.que.filter (fun tag =>
      match getNode s tag with
      | some n => !n.todo.isEmpty || !n.doing.isEmpty || n.status == Status.running
      | none => false) }

/-- banker's rounding of micro-seconds to whole seconds: `round(ts)` -/
def roundSeconds (us : Int) : Int :=
  let q := us / 1000000
  let r := us % 1000000
  if r < 500000 then q else if r > 500000 then q + 1 else if q % 2 = 0 then q else q + 1

/-- loop state of `defer`: the scheduler state, the list `delay`, and an error that escaped -/
structure DeferSt where
  s : Sched
  delays : List Int

/-- the inner `for p in t.get('period')` for one node (tag), one event -/
def deferEvent (now : Int) (tag : String) (st : DeferSt) (p : Event) : Except Err DeferSt :=
  let r := delay now st.s.booted p
  let s := { st.s with booted := r.2 }
  match r.1 with
  | .error .notKnowable => .ok { st with s := s }
  | .error e => .error e
  | .ok ts =>
    if due ts then
      match getNode s tag with
      | none => .ok { st with s := s }
      | some n =>
        let s1 := { s with que := sortByLevel s (s.que ++ [tag]) }
        let n' := { n with status := Status.waiting, event := some queuedEvent,
                           todo := if n.isAsp then addAll n.todo [allMarker] else addAll n.todo s.targets }
        .ok { st with s := setNode s1 n' }
    else .ok { s := s, delays := st.delays ++ [ts] }

/-- one element of `per` (the `filter` is lazy: the status is read when the element is reached) -/
def deferNode (now : Int) (st : DeferSt) (tag : String) : Except Err DeferSt :=
  match getNode st.s tag with
  | none => .ok st
  | some n =>
    if deferSkips.contains n.status.name then .ok st
    else
      let s := setNode st.s { n with status := Status.delayed }
      n.period.foldlM (deferEvent now tag) { st with s := s }

def minOf : List Int → Option Int
  | [] => none
  | x :: xs => match minOf xs with
    | none => some x
    | some m => some (if x ≤ m then x else m)

/-- `defer()` at clock reading `now`: the new state and the `callLater` request (seconds), if any -/
def defer (now : Int) (s : Sched) : Except Err (Sched × Option Int) :=
  if s.paused then .ok (s, some pausedRetry)
  else do
    let st ← s.per.foldlM (deferNode now) { s := s, delays := [] }
    let s' := prune st.s
    match minOf st.delays with
    | none => pure (s', none)
    | some w => pure (s', some (roundSeconds w))

/-- what the farm does with a queued node whose ancestors are idle: `next_job_batch` moves
    `todo` to `doing`, `dispatch` marks it running -/
def release (s : Sched) (tag : String) : Sched :=
  match getNode s tag with
  | none => s
  | some n => setNode s { n with doing := addAll n.doing n.todo, todo := [], status := Status.running }

/-- `complete(job, runid, target, timing, status)` as far as the queue is concerned -/
def complete (s : Sched) (tag target : String) : Sched :=
  match getNode s tag with
  | none => s
  | some n =>
    let doing := if target == allMarker then [] else n.doing.filter (· != target)
    let n' := { n with doing := doing, status := if doing.isEmpty then Status.waiting else n.status }
    prune (setNode s n')

/-- every unit released for `tag` runs and is answered -/
def runToCompletion (s : Sched) (tag : String) : Sched :=
  let s1 := release s tag
  match getNode s1 tag with
  | none => s1
  | some n => n.doing.foldl (fun acc t => complete acc tag t) s1

/-- tags newly queued by a `defer` call -/
def fired (before after : Sched) : List String :=
  after.que.filter (fun t => !before.que.contains t)

/-- The pipeline stays up from `now` to `horizon`: `defer` runs, every unit it queued runs to
    completion, and the reactor calls `defer` again when (and only when) the timer it was asked
    for elapses.  Result: the instants at which `tag` was queued. -/
def uptime (tag : String) (horizon : Int) (now : Int) (s : Sched) : List Int :=
  if horizon < now then []
  else
    match defer now s with
    | .error _ => []
    | .ok (s', timer) =>
      let here := if (fired s s').contains tag then [now] else []
      let s'' := (fired s s').foldl runToCompletion s'
      match timer with
      | none => here
      | some w => if 0 < w then here ++ uptime tag horizon (now + w * usPerSecond) s'' else here
termination_by (horizon - now + 1).toNat
decreasing_by
  rename_i hw
  unfold usPerSecond
  omega

end DawgieVerif.Delay
