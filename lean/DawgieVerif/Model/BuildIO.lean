import DawgieVerif.Model.Sexp
import DawgieVerif.Model.Build
import DawgieVerif.Generated.Version

/-
Line protocol of C15.

`(ver (a1 a2 a3) (b1 b2 b3))`
    → `(veq vge vgt vle vlt vne newer)` as `T`/`F`, evaluated by the GENERATED functions.
`(build (nodes ((t a) kind) …) (latest TBL …) (previous PTBL …) (targets x …))`
    with `TBL = (((c …) ver) …)`, `PTBL = (((c …) (ver …)) …)`
    → `(ok (que (t a) …) (todo ((t a) (x …)) …))` (todo of every node, in `nodes` order) or `(err index)`.
-/
namespace DawgieVerif.Build
open DawgieVerif

def triple? (x : Sx) : Option (Int × Int × Int) := do
  match ← x.list? with
  | [a, b, c] => some (← a.int?, ← b.int?, ← c.int?)
  | _ => none

open Generated.Version in
def verLine (a b : Int × Int × Int) : Sx :=
  Sx.list ([veq a b, vge a b, vgt a b, vle a b, vlt a b, vne a b, newer a b].map Sx.ofBool)

def node? (x : Sx) : Option Node := do
  match ← x.list? with
  | [n, k] => some ⟨← n.strs?, ← k.str?⟩
  | _ => none

def centry? (x : Sx) : Option (Name × Ver) := do
  match ← x.list? with
  | [n, v] => some (← n.strs?, ← v.str?)
  | _ => none

def pentry? (x : Sx) : Option (Name × List Ver) := do
  match ← x.list? with
  | [n, vs] => some (← n.strs?, ← vs.strs?)
  | _ => none

def ofName (n : Name) : Sx := Sx.list (n.map Sx.ofStr)

def handleBuild : List Sx → Option Sx
  | [Sx.list (Sx.atom "nodes" :: ns), Sx.list (Sx.atom "latest" :: ls),
     Sx.list (Sx.atom "previous" :: ps), Sx.list (Sx.atom "targets" :: ts)] => do
    let nodes ← ns.mapM node?
    let latest ← ls.mapM fun t => do (← t.list?).mapM centry?
    let previous ← ps.mapM fun t => do (← t.list?).mapM pentry?
    let targets ← ts.mapM Sx.str?
    match build ⟨nodes, latest, previous, targets⟩ with
    | .error Err.index => some (Sx.list [Sx.atom "err", Sx.atom "index"])
    | .ok o =>
      some (Sx.list [Sx.atom "ok",
        Sx.list (Sx.atom "que" :: o.que.map ofName),
        Sx.list (Sx.atom "todo" :: nodes.map fun n =>
          Sx.list [ofName n.name, Sx.list ((o.todo n).map Sx.ofStr)])])
  | _ => none

def handle : List Sx → Sx
  | [Sx.atom "ver", a, b] =>
    match triple? a, triple? b with
    | some x, some y => verLine x y
    | _, _ => Sx.err "triple"
  | Sx.atom "build" :: rest =>
    match handleBuild rest with
    | some r => r
    | none => Sx.err "build-args"
  | _ => Sx.err "c15-op"

end DawgieVerif.Build
