/-
Proleptic Gregorian calendar over `Int` day numbers (day 0 = 1970-01-01), shared by the
execution-history model (C18) and the timer model (C20).  Everything is integer arithmetic;
years, months and days are `Int` as in Python.  Core Lean only.

  daysFromCivil y m d   ~  (datetime.date(y, m, d) - datetime.date(1970, 1, 1)).days
  civilFromDays z       ~  datetime.date(1970, 1, 1) + timedelta(days=z)   (year, month, day)
  daysInMonth y m       ~  calendar.monthrange(y, m)[1]
  weekday z             ~  date.weekday()  (= isoweekday() - 1, Monday = 0)

The correspondence harness compares these four with `datetime`/`calendar` (every day of
1970-2100 in the thorough tier); `Proofs/Cal.lean` proves that the two conversions are
inverse to each other and monotone, for all integers (no range bound).
-/
namespace DawgieVerif.Cal

/-- leap-year rule of the (proleptic) Gregorian calendar -/
def isLeap (y : Int) : Bool := y % 4 = 0 && (y % 100 != 0 || y % 400 = 0)

/-- 365 or 366 -/
def yearLen (y : Int) : Int := if isLeap y then 366 else 365

/-- day number of January 1st of year `y` (477 = leap years before 1970) -/
def daysBeforeYear (y : Int) : Int :=
  365 * (y - 1970) + ((y - 1) / 4 - (y - 1) / 100 + (y - 1) / 400) - 477

/-- `calendar.monthrange(y, m)[1]`; `0` when `m` is not a month -/
def daysInMonth (y m : Int) : Int :=
  if m = 2 then (if isLeap y then 29 else 28)
  else if m = 4 ∨ m = 6 ∨ m = 9 ∨ m = 11 then 30
  else if 1 ≤ m ∧ m ≤ 12 then 31
  else 0

/-- days of year `y` before the first of month `m` (`m = 13` gives the length of the year) -/
def daysBeforeMonth (y m : Int) : Int :=
  let l : Int := if isLeap y then 1 else 0
  if m ≤ 1 then 0
  else if m = 2 then 31
  else if m = 3 then 59 + l
  else if m = 4 then 90 + l
  else if m = 5 then 120 + l
  else if m = 6 then 151 + l
  else if m = 7 then 181 + l
  else if m = 8 then 212 + l
  else if m = 9 then 243 + l
  else if m = 10 then 273 + l
  else if m = 11 then 304 + l
  else if m = 12 then 334 + l
  else 365 + l

/-- what the `datetime.date` constructor accepts (apart from its year range 1..9999) -/
def validDate (y m d : Int) : Bool :=
  decide (1 ≤ m) && decide (m ≤ 12) && decide (1 ≤ d) && decide (d ≤ daysInMonth y m)

/-- day number of the civil date `y-m-d` -/
def daysFromCivil (y m d : Int) : Int :=
  daysBeforeYear y + daysBeforeMonth y m + (d - 1)

/-- the year containing day number `z`: estimate from the mean year length (146097 days per
    400 years), then correct by at most one -/
def yearOf (z : Int) : Int :=
  let y0 := 400 * z / 146097 + 1970
  if z < daysBeforeYear y0 then y0 - 1
  else if daysBeforeYear (y0 + 1) ≤ z then y0 + 1
  else y0

/-- month of the 0-based day-of-year `doy` in year `y` -/
def monthOfDoy (y doy : Int) : Int :=
  if doy < daysBeforeMonth y 2 then 1
  else if doy < daysBeforeMonth y 3 then 2
  else if doy < daysBeforeMonth y 4 then 3
  else if doy < daysBeforeMonth y 5 then 4
  else if doy < daysBeforeMonth y 6 then 5
  else if doy < daysBeforeMonth y 7 then 6
  else if doy < daysBeforeMonth y 8 then 7
  else if doy < daysBeforeMonth y 9 then 8
  else if doy < daysBeforeMonth y 10 then 9
  else if doy < daysBeforeMonth y 11 then 10
  else if doy < daysBeforeMonth y 12 then 11
  else 12

structure Civil where
  year : Int
  month : Int
  day : Int
deriving DecidableEq, Repr

/-- civil date of day number `z` -/
def civilFromDays (z : Int) : Civil :=
  let y := yearOf z
  let doy := z - daysBeforeYear y
  let m := monthOfDoy y doy
  ⟨y, m, doy - daysBeforeMonth y m + 1⟩

/-- `date.weekday()`: Monday = 0 … Sunday = 6 (1970-01-01 was a Thursday) -/
def weekday (z : Int) : Int := (z + 3) % 7

/-! ### instants: micro-seconds since 1970-01-01T00:00:00Z (all datetimes are UTC) -/

def usPerSecond : Int := 1000000
def usPerDay : Int := 86400000000

/-- `datetime.date()` of a UTC instant, as a day number -/
def dayOf (t : Int) : Int := t / usPerDay

/-- micro-seconds since midnight -/
def timeOfDay (t : Int) : Int := t % usPerDay

/-- instant of `datetime(y, m, d, hh, mm, ss, tzinfo=UTC)` for a valid date -/
def instant (y m d hh mm ss : Int) : Int :=
  daysFromCivil y m d * usPerDay + (hh * 3600 + mm * 60 + ss) * usPerSecond

end DawgieVerif.Cal
