import DawgieVerif.Model.Sexp
import DawgieVerif.Model.Farm

namespace DawgieVerif.Farm
open DawgieVerif DawgieVerif.Sched

def msg? (x : Sx) : Option Msg := do
  match ← x.nats? with
  | [j, t, r] => some ⟨j, t, r⟩
  | _ => none

def fop? (x : Sx) : Option FOp := do
  let xs ← x.list?
  match xs with
  | [Sx.atom "reg", w, r] => some (.register (← w.nat?) (← r.nat?))
  | [Sx.atom "disc", w] => some (.disconnect (← w.nat?))
  | [Sx.atom "status", w, r] => some (.status (← w.nat?) (← r.nat?))
  | [Sx.atom "disp", ms] => some (.dispatch (← (← ms.list?).mapM msg?))
  | [Sx.atom "notify"] => some .notifyAll
  | [Sx.atom "reply", j, t] => some (.reply (← j.nat?) (← t.nat?))
  | [Sx.atom "setrev", r] => some (.setRev (← r.nat?))
  | [Sx.atom "clear"] => some .clear
  | [Sx.atom "active", b] => some (.setActive (← b.bool?))
  | [Sx.atom "archive", b] => some (.setArchive (← b.bool?))
  | _ => none

def ofMsg (m : Msg) : Sx := Sx.list [Sx.ofNat m.job, Sx.ofNat m.target, Sx.ofNat m.runid]

def ofWire : Wire → Sx
  | .task m => Sx.list [Sx.atom "task", ofMsg m]
  | .wait => Sx.atom "wait"
  | .abort => Sx.atom "abort"
  | .proceed => Sx.atom "proceed"

def observe (s s' : FSt) : Sx :=
  Sx.list [Sx.list (s'.workers.map Sx.ofNat), Sx.list (s'.cluster.map ofMsg),
           Sx.list (s'.busy.map fun p => Sx.list [Sx.ofNat p.1, Sx.ofNat p.2]),
           Sx.list ((s'.log.drop s.log.length).map fun p => Sx.list [Sx.ofNat p.1, ofWire p.2]),
           Sx.ofBool s'.active]

def runObs : FSt → List FOp → List Sx
  | _, [] => []
  | s, op :: ops => let s' := step s op; observe s s' :: runObs s' ops

/-- `(run <rev0> (<op> ..))` -/
def handle : List Sx → Sx
  | [Sx.atom "run", r, ops] =>
    match r.nat?, ops.list?.bind (·.mapM fop?) with
    | some r, some ops => Sx.list (runObs (FSt.init r) ops)
    | _, _ => Sx.err "farm-args"
  | _ => Sx.err "farm-op"

end DawgieVerif.Farm
