/-
Line protocol for the submission model (C12):

  (hist <archive> (<busy> <doing> <que>) <ev> ...)
      ev = boot | sb | (sd <PRIORITY>) | sf | da | fa | (c <i> <reopen>) | (rn <archive>)
         | (poll crew|doing|todo) | (env <busy> <doing> <que>)
      → (<obs> ...) one observation after every event
  (max <p> ...)   p = N | NOW | CREW | DOING | TODO     → the member `Priority.max` returns

  obs = (<state> <tr> (<outstanding> ...) <priority|N> <setCrew> <setDoing> <setTodo>
         <thrCrew> <thrDoing> <thrTodo> <cycle> (<upd> ...))        upd: the update_trigger calls of this event
  upd = (<who|N> <forced> <priority|N> (<busy> <doing> <que>) <active> <accepted> <cycle>)
-/
import DawgieVerif.Model.Sexp
import DawgieVerif.Model.FsmIO
import DawgieVerif.Model.Submit

namespace DawgieVerif.Submit
open DawgieVerif
open DawgieVerif.Generated.Prio (Priority)

def prioOf? (x : Sx) : Option Priority := do
  let n ← x.str?
  Priority.all.find? (fun p => p.name == n)

def optPrioOf? : Sx → Option (Option Priority)
  | .atom "N" => some none
  | x => (prioOf? x).map some

def Waiter.name : Waiter → String
  | .crew => "crew" | .doing => "doing" | .todo => "todo"

def waiterOf? : Sx → Option Waiter
  | .atom "crew" => some .crew
  | .atom "doing" => some .doing
  | .atom "todo" => some .todo
  | _ => none

def envOf? : List Sx → Option Env
  | [b, d, q] => do some ⟨← b.bool?, ← d.bool?, ← q.bool?⟩
  | _ => none

def eventOf? : Sx → Option Event
  | .atom "boot" => some .boot
  | .atom "sb" => some .submitBegin
  | .atom "sf" => some .submitFail
  | .atom "da" => some .dispatchArchive
  | .atom "fa" => some .flagArchive
  | .list [.atom "sd", p] => (prioOf? p).map .submitDone
  | .list [.atom "c", i, b] => do some (.complete (← i.nat?) (← b.bool?))
  | .list [.atom "rn", b] => b.bool?.map .resetNow
  | .list [.atom "poll", k] => (waiterOf? k).map .poll
  | .list (.atom "env" :: rest) => (envOf? rest).map .env
  | _ => none

def ofOptPrio : Option Priority → Sx
  | none => .atom "N"
  | some p => .atom p.name

def ofEnv (e : Env) : Sx := .list [Sx.ofBool e.busy, Sx.ofBool e.doing, Sx.ofBool e.que]

def ofUpd (u : Upd) : Sx :=
  .list [(match u.who with | none => .atom "N" | some k => .atom k.name), Sx.ofBool u.forced,
    ofOptPrio u.prio, ofEnv u.env, Sx.ofBool u.active, Sx.ofBool u.accepted, Sx.ofNat u.cycle]

def obs (s : St) (nlog : Nat) : Sx :=
  .list [.atom s.fsm.core.state.name, .atom (Fsm.Status.name s.fsm.core.tr),
    .list (s.fsm.outstanding.map fun k => .atom (Fsm.Step.name k)), ofOptPrio s.priority,
    Sx.ofBool s.setCrew, Sx.ofBool s.setDoing, Sx.ofBool s.setTodo,
    Sx.ofBool s.thrCrew, Sx.ofBool s.thrDoing, Sx.ofBool s.thrTodo, Sx.ofNat s.cycle,
    .list ((s.log.drop nlog).map ofUpd)]

def histObs (s : St) : List Event → List Sx
  | [] => []
  | e :: es =>
    let s' := step s e
    obs s' s.log.length :: histObs s' es

def handle : List Sx → Sx
  | .atom "hist" :: a :: .list env :: evs =>
    match a.bool?, envOf? env, evs.mapM eventOf? with
    | some a, some env, some es => .list (histObs (init a env) es)
    | _, _, _ => Sx.err "hist"
  | .atom "max" :: ps =>
    match ps.mapM optPrioOf? with
    | some ps => .atom (Generated.Prio.max ps).name
    | none => Sx.err "max"
  | _ => Sx.err "submit-op"

end DawgieVerif.Submit
