/-
C16 — vocabulary shared by the generated tables (`Generated/Rules.lean`, written by
`tools/gen_c16.py` from `tools/compliant.py`) and the hand-written model
(`Model/Compliant.lean`).  Core Lean only.
-/
namespace DawgieVerif.Compliant

/-- members of `dawgie.Factories` -/
inductive Factory where
  | analysis | events | regress | task
deriving DecidableEq, Repr, Inhabited

/-- the callback parameters of `tools.compliant._walk` -/
inductive Cb where
  | ifbot | ifalg | ifsv | ifv | ifanl | ifanz | ifret | ifrec | ifref | ifmom
deriving DecidableEq, Repr, Inhabited

/-- the methods `_walk` calls on what it visits (`iter` = plain iteration `for m in bot`) -/
inductive Meth where
  | routines | feedback | traits | previous | variables | stateVectors | items | iter
deriving DecidableEq, Repr, Inhabited

/-- which variable a call is made on: the `depth`-th enclosing binder of the same factory
branch (0 = `bot`, the factory's result; k = the variable of the k-th enclosing `for`), or a
name that no enclosing binder of the branch binds (`free`: at run time an
`UnboundLocalError`, or whatever an earlier branch left in that variable). -/
inductive Recv where
  | bound (depth : Nat)
  | free
deriving DecidableEq, Repr, Inhabited

/-- one `for v in recv.meth():` -/
structure Step where
  meth : Meth
  recv : Recv
deriving DecidableEq, Repr

/-- one callback call `cb(arg)` together with the loops that enclose it, outermost first -/
structure Firing where
  cb : Cb
  arg : Recv
  path : List Step
deriving DecidableEq, Repr

/-- default value of a factory parameter as `inspect.signature` reports it -/
inductive Dflt where
  | empty | int (n : Int) | str (s : String) | other
deriving DecidableEq, Repr, Inhabited

/-- annotation of a factory parameter -/
inductive Ann where
  | str | int | none | other
deriving DecidableEq, Repr, Inhabited

structure Param where
  dflt : Dflt
  ann : Ann
deriving DecidableEq, Repr

/-- one row of `rule_01`'s `fargs`: expected count, defaults, annotations -/
structure SigRow where
  count : Nat
  dflts : List Dflt
  anns : List Ann
deriving DecidableEq, Repr

end DawgieVerif.Compliant
