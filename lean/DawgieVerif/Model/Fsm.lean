/-
Life-cycle state machine of the pipeline (`dawgie.pl.state.FSM`), C10 / C12.

The transition table is `Generated.Fsm.edges` (regenerated from `pl/state.dot` on every run).
The callback bodies are hand-written mirrors of the methods of `FSM`.  The dispatch rule of the
`transitions` library is a stated assumption (`exec (.fire t)` below):

  * the first edge in table order with this trigger and the current state as source is taken;
    none → `MachineError`, nothing happens;
  * `before` callback, then the state changes to `dest`, then the `after` callback;
  * an exception in `before` aborts before the state change; an exception in `after`
    propagates with the state already changed;
  * a callback that names a trigger fires that trigger (nested, immediately — the machine is
    not `queued`).

One reactor event (a trigger fired from outside, or the completion callback of a background
step) is one call of `exec`; its effects are collected in `Out`.
-/
import DawgieVerif.Generated.FsmEdges

namespace DawgieVerif.Fsm
open DawgieVerif.Generated.Fsm

/-- `dawgie.pl.state.Status` -/
inductive Status where
  | active | entering | exiting
deriving DecidableEq, Repr, Inhabited

/-- background steps handed to `deferToThread` by the life-cycle callbacks -/
inductive Step where
  | load        -- `_pipeline`, then `load.done`
  | reload      -- `_reload`, then `reload.done`
  | archive     -- `_archive` (which ends in `_archive_done`)
  | navelGaze   -- `_navel_gaze`
deriving DecidableEq, Repr, Inhabited

structure Move where
  trigger : Trigger
  src : State
  dst : State
deriving DecidableEq, Repr

/-- what the callbacks read and write -/
structure Core where
  state : State
  tr : Status            -- `FSM.transitioning`
  prior : Option State   -- `FSM.__prior` (None until the first `save_prior_state`)
  openAgain : Bool       -- `FSM.open_again`
  archive : Bool         -- `dawgie.pl.farm.ARCHIVE`
deriving DecidableEq, Repr

/-- effects of one reactor event -/
structure Out where
  core : Core
  started : List Step := []   -- `deferToThread` calls, in order
  moves : List Move := []     -- state changes, in order
  resets : Nat := 0           -- completed bodies of `reset` (wait flags set, priority cleared: Model/Submit)
  ok : Bool := true           -- false: an exception is propagating out of the event
  fuelOut : Bool := false     -- the nesting bound of the model was hit (proved impossible: `fuel_suffices`)
deriving DecidableEq, Repr

def Out.pure (c : Core) : Out := { core := c }

/-- sequencing: the rest runs only when no exception is propagating; effects accumulate -/
def Out.bind (o : Out) (f : Core → Out) : Out :=
  if o.ok then
    let o2 := f o.core
    { core := o2.core, started := o.started ++ o2.started, moves := o.moves ++ o2.moves,
      resets := o.resets + o2.resets, ok := o2.ok, fuelOut := o2.fuelOut }
  else o

def raise (c : Core) : Out := { core := c, ok := false }

/-- the `transitioning` setter: entering/exiting are refused unless currently active -/
def setTr (x : Status) (c : Core) : Out :=
  if (x = .entering ∨ x = .exiting) ∧ c.tr ≠ .active then raise c
  else .pure { c with tr := x }

def defer (s : Step) (c : Core) : Out := { core := c, started := [s] }

/-- first edge in table order for (trigger, source) -/
def findEdge (t : Trigger) (s : State) : Option Edge :=
  edges.find? (fun e => e.trigger = t ∧ e.source = s)

inductive Call where
  | fire (t : Trigger)
  | cb (c : Cb)
  | archiveDone
deriving DecidableEq, Repr

/-- One call, with a bound on the nesting depth of calls (structural recursion on the bound). -/
def exec : Nat → Call → Core → Out
  | 0, _, c => { core := c, ok := false, fuelOut := true }
  | n + 1, .fire t, c =>
    match findEdge t c.state with
    | none => raise c                                            -- MachineError
    | some e =>
      ((match e.before with
        | none => Out.pure c
        | some b => exec n (.cb b) c).bind fun c1 =>
        { core := { c1 with state := e.dest }, moves := [⟨t, c1.state, e.dest⟩] }).bind fun c2 =>
      match e.after with
      | none => Out.pure c2
      | some a => exec n (.cb a) c2
  | _ + 1, .cb .start, c =>          -- _security, _gui, _logging, farm.plow: no life-cycle state
    (setTr .exiting c).bind (setTr .active)
  | _ + 1, .cb .load, c =>           -- farm.notify_all, farm.clear: C11
    (setTr .entering c).bind (defer .load)
  | _ + 1, .cb .navel_gaze, c =>
    (setTr .entering c).bind (defer .navelGaze)
  | _ + 1, .cb .reload, c =>
    (setTr .exiting c).bind (defer .reload)
  | n + 1, .cb .archive, c =>
    (setTr .entering c).bind fun c1 =>
      if c1.archive then defer .archive c1 else exec n .archiveDone c1
  | _ + 1, .cb .save_prior_state, c =>
    ((setTr .exiting c).bind fun c1 => Out.pure { c1 with prior := some c1.state }).bind (setTr .active)
  | _ + 1, .cb .reset, c =>
    ((setTr .exiting c).bind fun c1 => { core := c1, resets := 1 }).bind (setTr .active)
  | n + 1, .cb (.fire t), c => exec n (.fire t) c
  | n + 1, .archiveDone, c =>
    (setTr .active { c with archive := false, openAgain := false }).bind fun c1 =>
      match c1.prior with
      | none => raise c1                        -- TypeError: None + '_trigger'
      | some p => match trigOfState p with
        | none => raise c1                      -- AttributeError
        | some t => exec n (.fire t) c1

/-- nesting bound used by the model; `Proofs/Fsm.lean: fuel_suffices` shows it is never reached -/
def fuel : Nat := 12

def run (call : Call) (c : Core) : Out := exec fuel call c

/-- `FSM.is_pipeline_active` -/
def Core.isActive (c : Core) : Bool := c.state = .running ∧ c.tr = .active

structure St where
  core : Core
  outstanding : List Step     -- captured `deferToThread` steps not yet completed, oldest first
deriving DecidableEq, Repr

def St.isActive (s : St) : Bool := s.core.isActive

/-- state of a fresh `FSM()`; `farm.ARCHIVE` is whatever the environment left -/
def init (archive : Bool) : St :=
  { core := { state := initial, tr := .active, prior := none, openAgain := false, archive := archive },
    outstanding := [] }

/-- how an event ended -/
inductive Outcome where
  | ok          -- accepted, ran to the end
  | refused     -- the guard at the call site said no; the machine was not asked
  | rejected    -- exception before any state change
  | failed      -- exception after a state change
  | idle        -- completion of a step that is not outstanding / flag event
deriving DecidableEq, Repr

def Out.outcome (o : Out) : Outcome :=
  if o.ok then .ok else if o.moves = [] then .rejected else .failed

/-- events of the life-cycle as the code base produces them (call sites: `Generated.Fsm.callSites`) -/
inductive Event where
  | boot                       -- pl/__main__.py Start.run: starting_trigger
  | submitBegin                -- fe/submit.py, fe/api/submit.py Process.step_1: active → gitting_trigger
  | submitEnd                  -- Process.step_3 / Process.failure: (state = gitting) → running_trigger
  | dispatchArchive            -- farm.dispatch: active ∧ ARCHIVE ∧ idle → archiving_trigger
  | update                     -- waiter `done` callbacks, wait_for_nothing: update_trigger (unguarded)
  | flagArchive                -- farm.ARCHIVE |= True (worker reply with new values, reset request)
  | complete (i : Nat) (reopen : Bool)   -- the i-th outstanding step runs and its callback fires
  | strayRun                   -- Process.step_3 of a Process that no longer holds `gitting` (its call site
                               -- has no guard): second step_3 of the legacy chain, or step_3 after another
                               -- Process's failure handler left `gitting` — the known findings
                               -- C10:legacy-double-step3 / C10:submit-overlap.  `Guarded` histories exclude it.
deriving DecidableEq, Repr

/-- fire a trigger from outside a callback -/
def fireTop (t : Trigger) (s : St) : St × Out :=
  let o := run (.fire t) s.core
  ({ core := o.core, outstanding := s.outstanding ++ o.started }, o)

/-- body of a background step followed by its completion callback -/
def completion (k : Step) (reopen : Bool) (c : Core) : Out :=
  match k with
  | .load => (setTr .active c).bind (run (.fire .contemplation))
  | .reload => (setTr .active c).bind (run (.fire .archiving))
  | .archive => run .archiveDone { c with openAgain := reopen }
  | .navelGaze => (setTr .active c).bind (run (.fire .running))

def noop (s : St) (r : Outcome) : St × Out × Outcome := (s, Out.pure s.core, r)

def step (s : St) : Event → St × Out × Outcome
  | .boot => let (s', o) := fireTop .starting s; (s', o, o.outcome)
  | .submitBegin =>
    if s.isActive then let (s', o) := fireTop .gitting s; (s', o, o.outcome) else noop s .refused
  | .submitEnd =>
    if s.core.state = .gitting then let (s', o) := fireTop .running s; (s', o, o.outcome)
    else noop s .refused
  | .dispatchArchive =>
    if s.isActive ∧ s.core.archive then let (s', o) := fireTop .archiving s; (s', o, o.outcome)
    else noop s .refused
  | .update => let (s', o) := fireTop .update s; (s', o, o.outcome)
  | .flagArchive => noop { s with core := { s.core with archive := true } } .idle
  | .strayRun => let (s', o) := fireTop .running s; (s', o, o.outcome)
  | .complete i reopen =>
    match s.outstanding[i]? with
    | none => noop s .idle
    | some k =>
      let o := completion k reopen s.core
      ({ core := o.core, outstanding := s.outstanding.eraseIdx i ++ o.started }, o, o.outcome)

def next (s : St) (e : Event) : St := (step s e).1

def runEvents (s : St) : List Event → St
  | [] => s
  | e :: es => runEvents (next s e) es

/-- at rest: nothing outstanding, in `running` or `gitting`, not transitioning -/
def St.atRest (s : St) : Bool :=
  s.outstanding = [] ∧ (s.core.state = .running ∨ s.core.state = .gitting) ∧ s.core.tr = .active

/-! ### vocabulary of the C10 statements -/

/-- the documented machine as the property states it: start, load, introspect, run; submit and
    back; archive and back to where it came from; update, archive, refresh -/
def documented : List (State × State) :=
  [(.starting, .loading), (.loading, .contemplation), (.contemplation, .running),
   (.running, .gitting), (.gitting, .running),
   (.running, .archiving), (.archiving, .running), (.updating, .archiving), (.archiving, .updating),
   (.running, .updating), (.updating, .loading)]

/-- a move is an edge of the generated table -/
def IsEdge (m : Move) : Prop :=
  ∃ e ∈ edges, e.trigger = m.trigger ∧ e.source = m.src ∧ e.dest = m.dst

instance (m : Move) : Decidable (IsEdge m) := by unfold IsEdge; infer_instance

/-- `ms` is a path of moves leading from state `a` to state `b` (`[]`: no change) -/
def MovesFrom (a : State) : List Move → State → Prop
  | [], b => a = b
  | m :: ms, b => m.src = a ∧ MovesFrom m.dst ms b

instance : (a : State) → (ms : List Move) → (b : State) → Decidable (MovesFrom a ms b)
  | a, [], b => by unfold MovesFrom; infer_instance
  | a, m :: ms, b => by
    unfold MovesFrom
    have := instDecidableMovesFrom m.dst ms b
    infer_instance

/-- hypothesis of the `_partial` theorems: one submission Process in flight at a time and
    `step_3` once per Process, so that `step_3`'s unguarded `running_trigger` only ever fires in
    `gitting` (where it is `submitEnd`) -/
def Guarded (evs : List Event) : Prop := Event.strayRun ∉ evs

/-- reachable from a fresh `FSM()` by ANY history, stray `running_trigger`s included -/
def ReachAny (s : St) : Prop := ∃ archive evs, s = runEvents (init archive) evs

/-- reachable from a fresh `FSM()` by a guarded history -/
def Reach (s : St) : Prop := ∃ archive evs, Guarded evs ∧ s = runEvents (init archive) evs

/-- all moves of a history, in order -/
def trace (s : St) : List Event → List Move
  | [] => []
  | e :: es => (step s e).2.1.moves ++ trace (next s e) es

/-- number of completions still needed to come to rest (the well-founded measure of
    `returns_to_rest`): update → (archive) → load → navel gaze → running -/
def mu (s : St) : Nat :=
  match s.core.state with
  | .updating => 4
  | .archiving => if s.core.prior = some .updating then 3 else 1
  | .loading => 2
  | .contemplation => 1
  | _ => 0

/-- complete outstanding steps for `n` rounds; `pick k` chooses which outstanding step finishes
    in round `k` (any order) and what `db.reopen()` answers -/
def drain (pick : Nat → Nat × Bool) : Nat → St → St
  | 0, s => s
  | n + 1, s =>
    if s.outstanding = [] then s
    else drain (fun k => pick (k + 1)) n
      (next s (.complete ((pick 0).1 % s.outstanding.length) (pick 0).2))

/-! ghost for C11: `context.git_rev` changes in the `_reload` background step; `FSM.load`
    (`farm.notify_all(); farm.clear()` before deferring `_pipeline`) is the start of a `Step.load` -/

/-- the event is the completion of an outstanding `reload` step (its body `_reload` has run) -/
def isReloadCompletion (s : St) : Event → Bool
  | .complete i _ => s.outstanding[i]? = some .reload
  | _ => false

/-- `needsLoad`: a `reload` step has completed and no `load` has been started since -/
def ghostStep (g : Bool) (s : St) (e : Event) : Bool :=
  if Step.load ∈ (step s e).2.1.started then false else (g || isReloadCompletion s e)

def ghostRun (g : Bool) (s : St) : List Event → Bool × St
  | [] => (g, s)
  | e :: es => ghostRun (ghostStep g s e) (next s e) es

/-- the full-strength statement of `returns_to_rest`: some bound on the number of completions
    works for every completion order -/
def ReturnsToRest (s : St) : Prop := ∃ n, ∀ pick, (drain pick n s).atRest = true

end DawgieVerif.Fsm
