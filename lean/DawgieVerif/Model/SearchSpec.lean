/-
C17 — specification side of the search model: what a run-ID expression denotes, what it
means for a prime key to satisfy the given constraints, well-formedness of a database.
None of this is executed; the theorems of `Props/C17.lean` relate it to `Model/Search.lean`.
-/
import DawgieVerif.Model.Search

namespace DawgieVerif.Search

/-- half-open membership `start ≤ i < stop`, `stop = none` is unbounded (`test_24`, DESIGN §5.1) -/
def Range.Has (r : Range) (i : Int) : Prop :=
  r.start ≤ i ∧ match r.stop with | none => True | some s => i < s

def Item.Has : Item → Int → Prop
  | .idx j, i => i = j
  | .rng r, i => r.Has i

/-- an expression that constrains nothing: no member at all (an empty or absent parameter is
    "treated as though it was not given", fe/api/README) or nothing but `-1`
    ("-1 alone means no run-ID constraint", DESIGN §5.1) -/
def Unconstrained (e : Expr) : Prop := ∀ it, it ∈ e → it = Item.idx (-1)

/-- the set of run IDs a run-ID expression denotes -/
def denote (e : Expr) (i : Int) : Prop := Unconstrained e ∨ ∃ it, it ∈ e ∧ it.Has i

/-- a name constraint on one column: absent or empty constrains nothing; otherwise the id must be
    the id of a catalogue entry whose dissected name is exactly one of the names -/
def NameSat (c : Cat) (names : Option (List String)) (id : Int) : Prop :=
  match names with
  | none => True
  | some [] => True
  | some ns => ∃ n, n ∈ ns ∧ (n, id) ∈ c.table

/-- key `k` satisfies every given constraint of `p` (run-ID expression as the user gave it) -/
def Sat (db : DB) (p : Params) (k : Key) : Prop :=
  (∀ e, p.runids = some e → denote e k.run) ∧
  NameSat db.target p.targets k.tgt ∧ NameSat db.task p.tasks k.task ∧
  NameSat db.alg p.algs k.alg ∧ NameSat db.state p.svs k.sv ∧ NameSat db.value p.vals k.val

/-- ids of prime keys are non-negative (run IDs, positions in the catalogue tables) -/
def DB.NonNeg (db : DB) : Prop :=
  ∀ k, k ∈ db.prime → 0 ≤ k.run ∧ 0 ≤ k.tgt ∧ 0 ≤ k.task ∧ 0 ≤ k.alg ∧ 0 ≤ k.sv ∧ 0 ≤ k.val

/-- every id of a prime key is a position of the corresponding index list (so that a result can
    be rendered without IndexError) -/
def DB.InRange (db : DB) : Prop :=
  ∀ k, k ∈ db.prime → k.tgt < db.target.index.length ∧ k.task < db.task.index.length ∧
    k.alg < db.alg.index.length ∧ k.sv < db.state.index.length

/-- `row` is the rendering of the collapsed key `k`: run ID and the names at the key's positions -/
def RendersTo (db : DB) (k : Key5) (row : Row) : Prop :=
  row.run = k.run ∧
  0 ≤ k.tgt ∧ db.target.index[k.tgt.toNat]? = some row.tgt ∧
  0 ≤ k.task ∧ db.task.index[k.task.toNat]? = some row.task ∧
  0 ≤ k.alg ∧ db.alg.index[k.alg.toNat]? = some row.alg ∧
  0 ≤ k.sv ∧ db.state.index[k.sv.toNat]? = some row.sv

/-- the column a facet request asks for: the first `[]` among the four name parameters, with the
    catalogue whose names are listed -/
def facetColumn (db : DB) (p : Params) : Option ((Key → Int) × Cat) :=
  if isEmptyList p.targets then some (Key.tgt, db.target)
  else if isEmptyList p.tasks then some (Key.task, db.task)
  else if isEmptyList p.algs then some (Key.alg, db.alg)
  else if isEmptyList p.svs then some (Key.sv, db.state)
  else none

/-- the two lists have the same length and are related position by position -/
def Pointwise {α β : Type} (R : α → β → Prop) : List α → List β → Prop
  | [], [] => True
  | a :: as, b :: bs => R a b ∧ Pointwise R as bs
  | _, _ => False

end DawgieVerif.Search
