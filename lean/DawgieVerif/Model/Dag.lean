/-
Model of `dawgie.pl.dag.Construct` (the derived task graph) over an abstract
algorithm-engine descriptor.  Core Lean only, so that the driver can run it.

Python                                   here
---------------------------------------  -------------------------------------------
packages / bots / algorithms /           `Engine`, `Alg` (with `task`, `kind`), `SV`
  state vectors / values
ALG_REF / SV_REF / V_REF                 `Ref.alg / Ref.sv / Ref.val`
`util.refs.as_vref`                      `expand`
full names `task.alg.sv.value`           `Name α = List α` (4 components); the
`Construct.trim(tag, n)`                   `'.'.join(tag.split('.')[:n])` is `List.take n`
                                           (names contain no '.', `util.names.verify_name`)
`Construct._flat`, `_roots`              `Flat` (insertion-ordered association list, root set)
`_build_tree` + `_sub_task/_sub_analysis `buildFlat` (fold over the flattened loop nest,
   /_sub_regression`, `Node.add`            `visitValue`, `Tbl.upd … addU`)
`_feedback`, `feedbacks`                 `feedbackPass` (`Except`: the `KeyError` is explicit)
`_parents(roots, known)`                 `dfs` over `crossKids` (`Graph.known`) + `Graph.parT`
`_ancestry`                              `ancLoop` / `ancestryOf` (`none` = the Python `while`
                                           loop does not terminate)
`Node.trim`, `_trim_trees(1|2|3)`        `dfs` over feedback+children, `children`, `treeTags`,
                                           `feedbackT`, `ancestryAt`, `parentsAt`
`at / svt / tt / vt`                     levels 2 / 3 / 1 / value level

Sets are duplicate-free lists (membership is what the theorems speak about), dicts are
association lists.  The loop nests of `_build_tree` and `_feedback` are folds over their
flattened iteration space; `_parents` and `Node.trim` are one depth-first walk with a visited
set plus a point-wise set comprehension (the Python may meet a node twice; the second visit
only repeats idempotent set insertions).  Constants of `pl/dag.py` (tree build order, trim
lengths) come from `Generated/DagConsts.lean`, rewritten from the source on every run.  Scheduler attributes of the nodes (`do/doing/todo/status/level`) are not
modelled here.
-/
import DawgieVerif.Generated.DagConsts

namespace DawgieVerif.Dag

/-! ### sets and dictionaries -/
section Basics
variable {κ : Type} [DecidableEq κ] {ν : Type}

/-- `set.add` / `Node.add` (append unless an element with that tag is present) -/
def addU (l : List κ) (x : κ) : List κ := if x ∈ l then l else l ++ [x]

/-- `set.update` -/
def union (a b : List κ) : List κ := b.foldl addU a

def dedup (l : List κ) : List κ := union [] l

abbrev Tbl (κ ν : Type) := List (κ × ν)

def Tbl.has (t : Tbl κ ν) (k : κ) : Bool := t.any (fun p => decide (p.1 = k))

/-- `t.get(k)` -/
def Tbl.get? (t : Tbl κ ν) (k : κ) : Option ν := (t.find? (fun p => decide (p.1 = k))).map (·.2)

/-- `t.get(k, d)` -/
def Tbl.get (t : Tbl κ ν) (k : κ) (d : ν) : ν := (t.get? k).getD d

/-- `if k not in t: t[k] = d` -/
def Tbl.ensure (t : Tbl κ ν) (k : κ) (d : ν) : Tbl κ ν := if t.has k then t else t ++ [(k, d)]

/-- `t.setdefault(k, d); t[k] = f(t[k])` keeping the insertion position of `k` -/
def Tbl.upd (t : Tbl κ ν) (k : κ) (d : ν) (f : ν → ν) : Tbl κ ν :=
  (t.ensure k d).map (fun p => if p.1 = k then (p.1, f p.2) else p)

def Tbl.keys (t : Tbl κ ν) : List κ := t.map (·.1)

def tabulate (ks : List κ) (F : κ → ν) : Tbl κ ν := ks.map (fun k => (k, F k))

omit [DecidableEq κ] in
theorem filter_length_lt {l : List κ} {p q : κ → Bool} (hpq : ∀ x, p x = true → q x = true)
    {a : κ} (ha : a ∈ l) (hqa : q a = true) (hpa : ¬ p a = true) :
    (l.filter p).length < (l.filter q).length := by
  induction l with
  | nil => cases ha
  | cons x xs ih =>
    have hle : (xs.filter p).length ≤ (xs.filter q).length := by
      clear ih ha
      induction xs with
      | nil => simp
      | cons y ys ih2 =>
        by_cases hp : p y = true
        · simp [hp, hpq y hp]; exact ih2
        · by_cases hq : q y = true
          · simp [hp, hq]; omega
          · simp [hp, hq]; exact ih2
    rcases List.mem_cons.1 ha with rfl | hmem
    · simp [hqa, hpa]; omega
    · have := ih hmem
      by_cases hp : p x = true
      · simp [hp, hpq x hp]; exact this
      · by_cases hq : q x = true
        · simp [hp, hq]; omega
        · simp [hp, hq]; exact this

end Basics

/-! ### the engine descriptor -/

inductive Kind where
  | task | analysis | regress
deriving DecidableEq, Repr

/-- the member name of `dawgie.Factories` -/
def Kind.name : Kind → String
  | .task => "task"
  | .analysis => "analysis"
  | .regress => "regress"

/-- a reference names its target at algorithm, state-vector or value level -/
inductive Ref (α : Type) where
  | alg (t a : α)
  | sv (t a s : α)
  | val (t a s v : α)
deriving DecidableEq, Repr

structure SV (α : Type) where
  name : α
  vals : List α
deriving DecidableEq, Repr

/-- one `dawgie.Algorithm / Analyzer / Regression` of the bot of kind `kind` in package `task`;
    `inputs` is `previous() / traits() / variables()` -/
structure Alg (α : Type) where
  task : α
  name : α
  kind : Kind
  svs : List (SV α)
  inputs : List (Ref α)
  feedback : List (Ref α)
deriving DecidableEq, Repr

/-- the factories handed to `Construct`: algorithms in the order the factory lists and the
    bots' `routines()` produce them -/
structure Engine (α : Type) where
  algs : List (Alg α)
deriving Repr

abbrev Name (α : Type) := List α

section Model
variable {α : Type} [DecidableEq α]

/-- `Construct.trim` -/
def trim (n : Nat) (x : Name α) : Name α := x.take n

def Alg.id (A : Alg α) : Name α := [A.task, A.name]

def svValues (t a : α) (s : SV α) : List (Name α) := s.vals.map (fun v => [t, a, s.name, v])

/-- full names of the values an algorithm produces, in `state_vectors()` / key order -/
def algValues (A : Alg α) : List (Name α) := A.svs.flatMap (svValues A.task A.name)

def Engine.lookup (e : Engine α) (t a : α) : Option (Alg α) :=
  e.algs.find? (fun A => decide (A.task = t ∧ A.name = a))

/-- `as_vref` on one reference (the target instance is found by name) -/
def expandRef (e : Engine α) : Ref α → List (Name α)
  | .val t a s v => [[t, a, s, v]]
  | .sv t a s =>
    match e.lookup t a with
    | none => []
    | some A =>
      match A.svs.find? (fun S => decide (S.name = s)) with
      | none => []
      | some S => svValues t a S
  | .alg t a =>
    match e.lookup t a with
    | none => []
    | some A => algValues A

/-- `as_vref` followed by `vref_as_name` -/
def expand (e : Engine α) (refs : List (Ref α)) : List (Name α) := refs.flatMap (expandRef e)

/-- `Construct.__init__` walks analysis, then regression, then task factories; the order of
    the kinds is regenerated from the source (`Generated.Dag.buildOrder`) -/
def Engine.order (e : Engine α) : List (Alg α) :=
  Generated.Dag.buildOrder.flatMap (fun k => e.algs.filter (fun A => A.kind.name == k))

/-- each `_sub_*` expands the same method whose emptiness makes a root (regenerated tables) -/
def subConsistent : Bool := Generated.Dag.subReads == Generated.Dag.depMethod

/-- the algorithm a value node belongs to (its `alg` attribute) -/
def Engine.algOf (e : Engine α) (x : Name α) : Option (Alg α) :=
  match x with
  | t :: a :: _ => e.lookup t a
  | _ => none

def Engine.feedbackOf (e : Engine α) (x : Name α) : List (Name α) :=
  match e.algOf x with
  | some A => expand e A.feedback
  | none => []

/-! ### `_flat` and `_roots` -/

structure Flat (α : Type) where
  tbl : Tbl (Name α) (List (Name α))
  roots : List (Name α)

def Flat.empty : Flat α := ⟨[], []⟩

/-- `_sub_*`: `self._flat[pn].add(self._flat[fn])` for every expanded input `pn` -/
def subAlg (pns : List (Name α)) (fn : Name α) (t : Tbl (Name α) (List (Name α))) :
    Tbl (Name α) (List (Name α)) :=
  pns.foldl (fun t pn => t.upd pn [] (fun cs => addU cs fn)) t

/-- body of the innermost loop of `_build_tree` for value `fn` of algorithm `A` -/
def visitValue (e : Engine α) (f : Flat α) (Afn : Alg α × Name α) : Flat α :=
  let t1 := f.tbl.ensure Afn.2 []
  let r1 := if Afn.1.inputs.isEmpty then addU f.roots Afn.2 else f.roots
  ⟨subAlg (expand e Afn.1.inputs) Afn.2 t1, r1⟩

/-- the iteration space of `_build_tree`: factory, routine, state vector, value -/
def events (e : Engine α) : List (Alg α × Name α) :=
  e.order.flatMap (fun A => (algValues A).map (fun fn => (A, fn)))

def buildFlat (e : Engine α) : Flat α := (events e).foldl (visitValue e) Flat.empty

/-! ### `_feedback` -/

inductive Err (α : Type) where
  | keyError (n : Name α)   -- `self._flat[fbn]` for a fed-back value that is not a node
  | diverges (n : Name α)   -- the `while parents:` loop of `_ancestry` does not terminate
deriving DecidableEq, Repr

structure FbSt (α : Type) where
  fb : Tbl (Name α) (List (Name α))      -- node ↦ its `feedback` set
  feedbacks : Tbl (Name α) (Name α)      -- `Construct._feedbacks`

def fbStep (keys : List (Name α)) (st : FbSt α) (kf : Name α × Name α) : Except (Err α) (FbSt α) :=
  if kf.2 ∈ keys then
    .ok ⟨st.fb.upd kf.1 [] (fun s => addU s kf.2), st.feedbacks.upd kf.2 kf.1 (fun _ => kf.1)⟩
  else .error (.keyError kf.2)

def fbEvents (e : Engine α) (keys : List (Name α)) : List (Name α × Name α) :=
  keys.flatMap (fun k => (e.feedbackOf k).map (fun f => (k, f)))

def fbFold (keys : List (Name α)) : List (Name α × Name α) → FbSt α → Except (Err α) (FbSt α)
  | [], st => .ok st
  | kf :: rest, st =>
    match fbStep keys st kf with
    | .ok st' => fbFold keys rest st'
    | .error err => .error err

def feedbackPass (e : Engine α) (keys : List (Name α)) : Except (Err α) (FbSt α) :=
  fbFold keys (fbEvents e keys) ⟨[], []⟩

/-! ### graph walks -/

/-- depth-first visit with a visited set: `_parents` (`known`) and `Node.trim` (`visitors`).
    `univ` is `_flat`; successors are always nodes of `_flat`, the test only serves termination. -/
def dfs (succ : Name α → List (Name α)) (univ : List (Name α)) :
    List (Name α) → List (Name α) → List (Name α)
  | [], vis => vis
  | x :: todo, vis =>
    if x ∈ vis then dfs succ univ todo vis
    else if x ∈ univ then dfs succ univ (succ x ++ todo) (vis ++ [x])
    else dfs succ univ todo vis
termination_by todo vis => ((univ.filter (fun y => decide (y ∉ vis))).length, todo.length)
decreasing_by
  · exact Prod.Lex.right _ (by simp)
  · apply Prod.Lex.left
    apply filter_length_lt (a := x)
    · intro y hy
      simp only [List.mem_append, List.mem_singleton, not_or, decide_eq_true_eq] at hy ⊢
      exact hy.1
    · assumption
    · simpa using ‹x ∉ vis›
    · simp
  · exact Prod.Lex.right _ (by simp)

/-- the `while parents:` loop of `_ancestry` for the node `name`; one unit of `fuel` per round.
    `none`: the loop is still running after `fuel` rounds. -/
def ancLoop (par : Name α → List (Name α)) (name : Name α) :
    Nat → List (Name α) → List (Name α) → Option (List (Name α))
  | _, heritage, [] => some heritage
  | 0, _, _ :: _ => none
  | fuel + 1, heritage, p :: ps =>
    let grands := dedup (((p :: ps).filter (fun q => decide (q ≠ name))).flatMap par)
    ancLoop par name fuel (union heritage grands) grands

/-- `_ancestry` for one node.  With `|_flat|` rounds of fuel `none` means that the frontier is
    still non-empty after more rounds than there are nodes, i.e. the parent relation has a cycle
    and the Python loop never ends. -/
def ancestryOf (par : Name α → List (Name α)) (keys : List (Name α)) (name : Name α) :
    Option (List (Name α)) :=
  ancLoop par name keys.length (par name) (par name)

/-! ### the constructed graph -/

structure Graph (α : Type) where
  tbl : Tbl (Name α) (List (Name α))     -- `_flat` with the children of every node
  roots : List (Name α)                  -- `_roots`
  fbT : Tbl (Name α) (List (Name α))     -- the `feedback` attribute
  feedbacks : Tbl (Name α) (Name α)      -- `Construct.feedbacks`
  known : List (Name α)                  -- nodes visited by `_parents`
  parT : Tbl (Name α) (List (Name α))    -- the `parents` attribute (value level)
  visited : List (Name α)                -- nodes on which `Node.trim` ran

def Graph.keys (g : Graph α) : List (Name α) := g.tbl.keys
def Graph.kids (g : Graph α) (x : Name α) : List (Name α) := g.tbl.get x []
def Graph.fb (g : Graph α) (x : Name α) : List (Name α) := g.fbT.get x []
def Graph.parents (g : Graph α) (x : Name α) : List (Name α) := g.parT.get x []

/-- children in another algorithm: `trim(child.tag, 2) != trim(node.tag, 2)` in `_parents`
    (the length is regenerated from the source) -/
def crossKids (t : Tbl (Name α) (List (Name α))) (x : Name α) : List (Name α) :=
  (t.get x []).filter (fun c =>
    decide (trim Generated.Dag.crossLevel c ≠ trim Generated.Dag.crossLevel x))

/-- value-level `ancestry` attribute (`[]` stands for a non-terminating loop only when
    `construct` has reported `Err.diverges`) -/
def Graph.ancV (g : Graph α) (x : Name α) : List (Name α) :=
  match ancestryOf g.parents g.keys x with
  | some h => h
  | none => []

def mkGraph (f : Flat α) (st : FbSt α) : Graph α :=
  let keys := f.tbl.keys
  let known := dfs (crossKids f.tbl) keys f.roots []
  let parT := tabulate keys (fun c => known.filter (fun n => decide (c ∈ crossKids f.tbl n)))
  let visited := dfs (fun x => st.fb.get x [] ++ f.tbl.get x []) keys f.roots []
  ⟨f.tbl, f.roots, st.fb, st.feedbacks, known, parT, visited⟩

/-- `Construct(factories)` -/
def construct (e : Engine α) : Except (Err α) (Graph α) :=
  let f := buildFlat e
  match feedbackPass e f.tbl.keys with
  | .error err => .error err
  | .ok st =>
    let g := mkGraph f st
    match g.keys.find? (fun k => (ancestryOf g.parents g.keys k).isNone) with
    | some k => .error (.diverges k)
    | none => .ok g

/-! ### the trimmed trees `tt` (1), `at` (2), `svt` (3) and the value tree `vt` -/

/-- the list returned by `_trim_trees` (the same node object once per root value) as a set -/
def Graph.treeRoots (g : Graph α) (l : Nat) : List (Name α) := dedup (g.roots.map (trim l))

/-- tags of the nodes of the tree of level `l` -/
def Graph.treeTags (g : Graph α) (l : Nat) : List (Name α) := dedup (g.visited.map (trim l))

def Graph.members (g : Graph α) (l : Nat) (p : Name α) : List (Name α) :=
  g.visited.filter (fun x => decide (trim l x = p))

/-- children of the node `p` of the tree of level `l` (`short_node.add(c.trim(known, length))`) -/
def Graph.children (g : Graph α) (l : Nat) (p : Name α) : List (Name α) :=
  dedup ((g.members l p).flatMap (fun x => (g.kids x).map (trim l)))

/-- `feedback` attribute of node `p` of the tree of level `l` -/
def Graph.feedbackT (g : Graph α) (l : Nat) (p : Name α) : List (Name α) :=
  dedup ((g.members l p).flatMap (fun x => (g.fb x).map (trim l)))

/-- `ancestry` attribute of the algorithm node `p` (`length == 2` branch of `Node.trim`;
    the length is regenerated from the source) -/
def Graph.ancestryAt (g : Graph α) (p : Name α) : List (Name α) :=
  dedup ((g.members Generated.Dag.famLevel p).flatMap
    (fun x => (g.ancV x).map (trim Generated.Dag.famLevel)))

/-- `parents` attribute of the algorithm node `p` -/
def Graph.parentsAt (g : Graph α) (p : Name α) : List (Name α) :=
  dedup ((g.members Generated.Dag.famLevel p).flatMap
    (fun x => (g.parents x).map (trim Generated.Dag.famLevel)))

/-! ### vocabulary of the specification (used by `Props/C09.lean` and by other properties) -/

/-- the algorithm that produces value `b` declares value `a` as input (after `as_vref`) -/
def Declares (e : Engine α) (a b : Name α) : Prop :=
  ∃ B, B ∈ e.algs ∧ b ∈ algValues B ∧ a ∈ expand e B.inputs

/-- the declared dependency seen at granularity `l` (1 task, 2 algorithm, 3 state vector) -/
def edgeAt (e : Engine α) (l : Nat) (p c : Name α) : Prop :=
  ∃ a b, trim l a = p ∧ trim l b = c ∧ Declares e a b

/-- the property's hypothesis: the declared inputs are acyclic (at algorithm level; an
    algorithm reading its own output is a cycle) -/
def Acyclic (e : Engine α) : Prop := ∀ p, ¬ Relation.TransGen (edgeAt e 2) p p

/-- `tools.compliant.rule_11`: the reference resolves to a declared entity -/
def Ref.Resolves (e : Engine α) : Ref α → Prop
  | .alg t a => ∃ B, B ∈ e.algs ∧ B.task = t ∧ B.name = a
  | .sv t a s => ∃ B, B ∈ e.algs ∧ B.task = t ∧ B.name = a ∧ ∃ S, S ∈ B.svs ∧ S.name = s
  | .val t a s v =>
    ∃ B, B ∈ e.algs ∧ B.task = t ∧ B.name = a ∧ ∃ S, S ∈ B.svs ∧ S.name = s ∧ v ∈ S.vals

/-- what the compliance gate guarantees about an engine: unique algorithm names per package,
    every algorithm has a state vector (rule 9), every state vector a value (rule 5), every
    reference resolves (rule 11) -/
structure WF (e : Engine α) : Prop where
  ids_nodup : (e.algs.map Alg.id).Nodup
  has_sv : ∀ A, A ∈ e.algs → A.svs ≠ []
  has_val : ∀ A, A ∈ e.algs → ∀ S, S ∈ A.svs → S.vals ≠ []
  resolves : ∀ A, A ∈ e.algs → ∀ r, r ∈ A.inputs ∨ r ∈ A.feedback → r.Resolves e

/-- the same engine with every `feedback()` returning `[]` -/
def Engine.noFeedback (e : Engine α) : Engine α :=
  ⟨e.algs.map (fun A => { A with feedback := [] })⟩

/-- ancestry as other properties use it: transitively closed and containing the algorithm of
    every declared input -/
structure AncClosed (e : Engine α) (anc : Name α → List (Name α)) : Prop where
  trans : ∀ x a b, a ∈ anc x → b ∈ anc a → b ∈ anc x
  declared : ∀ a b, Declares e a b → trim 2 a ∈ anc (trim 2 b)

end Model
end DawgieVerif.Dag
