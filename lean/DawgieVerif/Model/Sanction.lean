/-
Model of the access decision of the front end:

* `Generated.Endpoints.isSanctioned`  — `security.is_sanctioned`, translated from the source
* `sanctioned`                        — the wrapper `security.sanctioned`: looks the configured
                                        hook up by name, calls it, and answers
                                        `wrapperOnRaise` (read from the source) when anything raises
* `render`                            — `DynamicContent.__render`: interpreter of the generated
                                        statement order `renderSteps` (guard / may-call-handler)

Core Lean only (no Mathlib) so the driver can run it.
-/
import DawgieVerif.Generated.Endpoints

namespace DawgieVerif.Sanction
open DawgieVerif.Generated.Endpoints

/-- what happens when `_lookup(dawgie.context.sanction_override)(endpoint, cert)` is evaluated -/
inductive Hook where
  /-- import, attribute lookup or the hook itself raises -/
  | raised
  /-- the hook returns a value whose truth is `b` -/
  | returned (b : Bool)
deriving DecidableEq, Repr

/-- `security.sanctioned(endpoint, cert)` -/
def sanctioned : Hook → Bool
  | .raised => wrapperOnRaise
  | .returned b => b

/-- the hook that is configured by default: `dawgie.security.is_sanctioned` -/
def defaultHook (clientsConfigured certPresent : Bool) (endpoint : String) : Hook :=
  .returned (isSanctioned clientsConfigured certPresent endpoint)

/-- observable steps of one `DynamicContent.render_<METHOD>` -/
inductive Ev where
  /-- `dawgie.security.sanctioned(self.__uri, cert)` was evaluated with this result -/
  | checked (ok : Bool)
  /-- the "requires a client certificate" response was returned -/
  | denied
  /-- the registered handler function was called -/
  | handler
  /-- the "not mapped to HTTP method" response was built instead of calling the handler -/
  | methodError
deriving DecidableEq, Repr

/-- interpreter of the top-level statements of `__render`;
    `ok` = result of the sanction wrapper, `methodOk` = the method is in the registered list -/
def run : List RStep → Bool → Bool → List Ev
  | [], _, _ => []
  | .other :: rest, ok, m => run rest ok m
  | .guard :: rest, ok, m =>
    if ok then .checked true :: run rest ok m else [.checked false, .denied]
  | .call :: rest, ok, m => (if m then Ev.handler else Ev.methodError) :: run rest ok m
  | .ret :: _, _, _ => []

/-- `DynamicContent.__render(request, method)` -/
def render (ok methodOk : Bool) : List Ev := run renderSteps ok methodOk

/-- an endpoint is a command when its handler reaches a mutator (G2) -/
def mutating (e : Endpoint) : Bool := !e.mutators.isEmpty

/-- registered for this method (`0 < self.__methods.count(method)`) -/
def allows (e : Endpoint) (method : String) : Bool := e.methods.contains method

/-- one anonymous-or-not request to a registered endpoint, end to end -/
def request (e : Endpoint) (method : String) (h : Hook) : List Ev :=
  render (sanctioned h) (allows e method)

end DawgieVerif.Sanction
