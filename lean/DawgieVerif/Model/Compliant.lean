/-
C16 — the compliance gate (`dawgie.tools.compliant`).

`Pkg` is an abstract description of ONE task package (`<ae>.<task>/__init__.py`): which of the
four factories it offers, what each factory's signature looks like, and what the objects the
factories hand out look like to the questions the gate asks of them (base classes, abstract
methods, names, keys, picklability, the element types of references, how references resolve,
the fields of schedule moments).  How a real Python package maps to a `Pkg` (import,
`inspect.signature`, `isinstance`, `pickle`, name lookups of `rule_11`) is the
descriptor⇄package relation implemented by `harness/c16_pkg.py`; it is modelled, not verified.

`verify` mirrors `_verify / _walk / rule_01 … rule_11` including
  * "any exception counts as failure" (`try … except: status = False`),
  * the order-free `all(findings)` of each rule,
  * `_walk` as DATA: which callback fires on which receiver inside which loops, per member of
    `dawgie.Factories`, taken from `Generated/Rules.lean` (regenerated from the source),
  * the arities with which the factories are called.
`Compliant` (in `Model/CompliantSpec.lean`) states the architecture rule by rule, position by
position, without any of that control flow.
Core Lean only.
-/
import DawgieVerif.Generated.Rules

namespace DawgieVerif.Compliant
open DawgieVerif.Generated

/-! ## the abstract package -/

/-- one value reference produced by `dawgie.util.as_vref` from a reference, as `rule_11` meets it:
is a state vector of that name among the resolved algorithm's, and is the feature a key of it -/
structure VRef where
  svFound : Bool
  featFound : Bool
deriving DecidableEq, Repr

inductive RefKind where
  | alg | sv | v
deriving DecidableEq, Repr, Inhabited

/-- an element of `previous() / traits() / variables() / feedback()` -/
structure Ref where
  kind : RefKind
  /-- `isinstance(ref, (ALG_REF, SV_REF, V_REF))` -/
  isRef : Bool
  /-- `inspect.isfunction(ref.factory) or inspect.ismethod(ref.factory)` -/
  factoryFunc : Bool
  /-- `isinstance(ref.impl, (Algorithm, Analyzer, Regression))` -/
  implOk : Bool
  /-- `isinstance(ref.item, StateVector)` -/
  itemOk : Bool
  /-- `isinstance(ref.feat, str)` -/
  featOk : Bool
  /-- `ref.impl.__module__.startswith(task_module(ref.factory))` -/
  underFactory : Bool
  /-- `rule_11._resolve` raises (the referenced factory cannot be called with the task name alone,
  or an object met during the look-up does not implement `routines/name/state_vectors`) -/
  resolveRaises : Bool
  /-- an algorithm named `ref.impl.name()` is among `ref.factory(name).routines()` -/
  algFound : Bool
  vrefs : List VRef
deriving DecidableEq, Repr

structure Value where
  key : String
  isValue : Bool
  verOk : Bool
  picklable : Bool
deriving DecidableEq, Repr

structure SV where
  name : String
  nameImpl : Bool
  isSV : Bool
  verOk : Bool
  values : List Value
deriving DecidableEq, Repr

/-- an Algorithm / Analyzer / Regression -/
structure Routine where
  name : String
  /-- `name()` is overridden (else it raises `NotImplementedError`) -/
  nameImpl : Bool
  /-- inherits from the dawgie class that belongs to its factory -/
  isBase : Bool
  /-- `_get_ver/_set_ver/design/implementation/bugfix` behave -/
  verOk : Bool
  /-- `run()` is overridden — NOT observable by the gate (see `Props/C16.lean`) -/
  runImpl : Bool
  /-- `previous() / traits() / variables()` is overridden and returns -/
  depsImpl : Bool
  /-- … and returns a `list` -/
  depsList : Bool
  svsImpl : Bool
  svsList : Bool
  /-- `feedback()` returns (it has a default implementation; it raises only when building one of
  its references raises) -/
  fbOk : Bool
  deps : List Ref
  feedback : List Ref
  svs : List SV
deriving DecidableEq, Repr

/-- what a task / analysis / regress factory returns -/
structure Bot where
  isBase : Bool
  /-- `list()`/`routines()` is overridden -/
  listImpl : Bool
  routines : List Routine
deriving DecidableEq, Repr

/-- a field of `dawgie.MOMENT` other than `boot`: absent, of the documented type, of another type -/
inductive Fld where
  | none | ok | bad
deriving DecidableEq, Repr, Inhabited

inductive BootFld where
  | none | t | f
deriving DecidableEq, Repr, Inhabited

structure Event where
  /-- `isinstance(e, dawgie.EVENT)` -/
  isEvent : Bool
  boot : BootFld
  day : Fld
  dom : Fld
  dow : Fld
  time : Fld
deriving DecidableEq, Repr

/-- a factory function: its parameters, whether its body raises, what it returns -/
structure Fac (α : Type) where
  params : List Param
  raises : Bool
  content : α
deriving Repr

structure Pkg where
  analysis : Option (Fac Bot)
  events : Option (Fac (List Event))
  regress : Option (Fac Bot)
  task : Option (Fac Bot)
deriving Repr

/-! ## calling a factory -/

/-- parameters without a default -/
def nreq (ps : List Param) : Nat := ps.countP (fun p => p.dflt == Dflt.empty)

/-- `f(*args)` with `n` positional arguments: `none` when Python raises (`TypeError` for a wrong
number of arguments, or the body raises) -/
def Fac.call {α : Type} (f : Fac α) (n : Nat) : Option α :=
  if f.raises then none
  else if nreq f.params ≤ n ∧ n ≤ f.params.length then some f.content
  else none

/-! ## the objects `_walk` visits and the methods it calls on them -/

inductive Obj where
  | bot (k : Factory) (b : Bot)
  | events (es : List Event)
  | routine (k : Factory) (r : Routine)
  | sv (s : SV)
  | item (v : Value)
  | ref (r : Ref)
  | event (e : Event)
deriving Repr

/-- `recv.meth()` (or `iter(recv)`): the list it yields, `none` when Python raises
(`NotImplementedError` of an abstract method, `AttributeError`/`TypeError` on a wrong receiver) -/
def callMeth : Meth → Obj → Option (List Obj)
  | .routines, .bot k b => if b.listImpl then some (b.routines.map (Obj.routine k)) else none
  | .feedback, .routine _ r => if r.fbOk then some (r.feedback.map Obj.ref) else none
  | .previous, .routine .task r => if r.depsImpl then some (r.deps.map Obj.ref) else none
  | .traits, .routine .analysis r => if r.depsImpl then some (r.deps.map Obj.ref) else none
  | .variables, .routine .regress r => if r.depsImpl then some (r.deps.map Obj.ref) else none
  | .stateVectors, .routine _ r => if r.svsImpl then some (r.svs.map Obj.sv) else none
  | .items, .sv s => some (s.values.map Obj.item)
  | .iter, .events es => some (es.map Obj.event)
  | _, _ => none

/-- the environment of one branch of `_walk`: index 0 is `bot`, index k the variable of the k-th
enclosing loop.  A free name is an `UnboundLocalError` here (exact whenever no earlier branch
left a value in that name; `Props/C16.lean` proves the generated table has no free name). -/
def lookup (env : List Obj) : Recv → Option Obj
  | .bound d => env[d]?
  | .free => none

/-- Run one callback call with its enclosing loops.  `sem o` says: the callback returns on `o`
without raising and everything it appends to `findings` is true.  The result is true iff no
call on the way raises and `sem` holds at every object reached. -/
def runPath (sem : Obj → Bool) (arg : Recv) : List Step → List Obj → Bool
  | [], env =>
    match lookup env arg with
    | none => false
    | some o => sem o
  | s :: rest, env =>
    match lookup env s.recv with
    | none => false
    | some o =>
      match callMeth s.meth o with
      | none => false
      | some objs => objs.all (fun x => runPath sem arg rest (env ++ [x]))

/-- how often a callback fires (for the walk-trace correspondence with the real `_walk`);
`none` when the walk raises -/
def countPath (arg : Recv) : List Step → List Obj → Option Nat
  | [], env => (lookup env arg).map (fun _ => 1)
  | s :: rest, env =>
    match lookup env s.recv with
    | none => none
    | some o =>
      match callMeth s.meth o with
      | none => none
      | some objs => objs.foldl (fun acc x =>
          match acc, countPath arg rest (env ++ [x]) with
          | some a, some b => some (a + b)
          | _, _ => none) (some 0)

/-- what the factory of kind `k` returns when `_walk` calls it -/
def Pkg.root (p : Pkg) (k : Factory) (n : Nat) : Option (Option Obj) :=
  match k with
  | .analysis => p.analysis.map (fun f => (f.call n).map (Obj.bot .analysis))
  | .events => p.events.map (fun f => (f.call n).map Obj.events)
  | .regress => p.regress.map (fun f => (f.call n).map (Obj.bot .regress))
  | .task => p.task.map (fun f => (f.call n).map (Obj.bot .task))

def Pkg.has (p : Pkg) : Factory → Bool
  | .analysis => p.analysis.isSome
  | .events => p.events.isSome
  | .regress => p.regress.isSome
  | .task => p.task.isSome

/-- `_walk(task, **callbacks)` under a rule whose callbacks behave as `sem`: true iff nothing
raises and every finding is true.  Generic in the tables `order`, `arity`, `table`. -/
def walkWith (order : List Factory) (arity : Factory → Nat) (table : Factory → List Firing)
    (sem : Cb → Obj → Bool) (p : Pkg) : Bool :=
  (order.filter p.has).all fun k =>
    match p.root k (arity k) with
    | some (some o) => (table k).all (fun f => runPath (sem f.cb) f.arg f.path [o])
    | _ => false

/-- `_walk` as the source has it now -/
def walk (sem : Cb → Obj → Bool) (p : Pkg) : Bool :=
  walkWith Rules.factoryOrder Rules.walkArity Rules.walk sem p

/-- a rule passes only some callbacks; the others default to `_t` (returns, no finding) -/
def withCbs (rule : String) (sem : Cb → Obj → Bool) : Cb → Obj → Bool :=
  fun cb o => if cb ∈ Rules.ruleCbs rule then sem cb o else true

/-! ## the rules -/

def hasDot (s : String) : Bool := s.toList.contains '.'

/-- rule_01: at least one factory, and each offered factory has the documented signature
(count, then defaults pairwise, then annotations pairwise — `zip` as in the source) -/
def sigMatches (row : SigRow) (ps : List Param) : Bool :=
  ps.length == row.count
    && (row.dflts.zip ps).all (fun dp => dp.2.dflt == dp.1)
    && (row.anns.zip ps).all (fun ap => ap.2.ann == ap.1)

def Pkg.params (p : Pkg) : Factory → Option (List Param)
  | .analysis => p.analysis.map (·.params)
  | .events => p.events.map (·.params)
  | .regress => p.regress.map (·.params)
  | .task => p.task.map (·.params)

def rule01 (p : Pkg) : Bool :=
  Rules.factoryOrder.any p.has
    && Rules.factoryOrder.all (fun k =>
        match p.params k with
        | none => true
        | some ps => sigMatches (Rules.sigTable k) ps)

/-- rule_02: base types (`isinstance` never raises) -/
def sem02 : Cb → Obj → Bool
  | .ifbot, .bot .task b => b.isBase
  | .ifanl, .bot .analysis b => b.isBase
  | .ifret, .bot .regress b => b.isBase
  | .ifalg, .routine .task r => r.isBase
  | .ifanz, .routine .analysis r => r.isBase
  | .ifrec, .routine .regress r => r.isBase
  | .ifsv, .sv s => s.isSV
  | .ifv, .item v => v.isValue
  | .ifref, .ref r => r.isRef
  | .ifmom, .event e => e.isEvent
  | _, _ => false

/-- the reference types a routine of kind `k` may list as inputs (`_verify_alg` accepts all three,
`_verify_analyzer` / `_verify_regression` only state-vector and value references) -/
def depTypeOk (k : Factory) (r : Ref) : Bool :=
  r.isRef && (k == .task || r.kind != .alg)

/-- `_verify_alg / _verify_analyzer / _verify_regression` (with the `a.name()` the lambda evaluates first) -/
def routineAbstractOk (k : Factory) (r : Routine) : Bool :=
  r.nameImpl && r.depsImpl && r.deps.all (depTypeOk k) && r.svsImpl && r.svs.all (·.isSV)
    && r.verOk && r.depsList && r.svsList

/-- `_verify_task / _verify_analysis / _verify_regress` -/
def botAbstractOk (b : Bot) : Bool :=
  b.listImpl && !b.routines.isEmpty && b.routines.all (·.isBase)

/-- rule_03: abstract methods -/
def sem03 : Cb → Obj → Bool
  | .ifbot, .bot .task b => botAbstractOk b
  | .ifanl, .bot .analysis b => botAbstractOk b
  | .ifret, .bot .regress b => botAbstractOk b
  | .ifalg, .routine .task r => routineAbstractOk .task r
  | .ifanz, .routine .analysis r => routineAbstractOk .analysis r
  | .ifrec, .routine .regress r => routineAbstractOk .regress r
  | .ifsv, .sv s => s.nameImpl && s.verOk
  | .ifv, .item v => v.verOk
  | _, _ => false

/-- rule_04: no "." in names (`x.name()` raising counts as failure) -/
def sem04 : Cb → Obj → Bool
  | .ifbot, .bot _ _ => true
  | .ifanl, .bot _ _ => true
  | .ifret, .bot _ _ => true
  | .ifalg, .routine _ r => r.nameImpl && !hasDot r.name
  | .ifanz, .routine _ r => r.nameImpl && !hasDot r.name
  | .ifrec, .routine _ r => r.nameImpl && !hasDot r.name
  | .ifsv, .sv s => s.nameImpl && !hasDot s.name
  | .ifv, .item v => !hasDot v.key
  | _, _ => false

/-- rule_05: state vectors have keys -/
def sem05 : Cb → Obj → Bool
  | .ifsv, .sv s => !s.values.isEmpty
  | _, _ => false

/-- rule_07: values pickle -/
def sem07 : Cb → Obj → Bool
  | .ifv, .item v => v.picklable
  | _, _ => false

/-- rule_08: element types of references -/
def sem08 : Cb → Obj → Bool
  | .ifref, .ref r =>
    r.factoryFunc && r.implOk
      && (!(r.isRef && r.kind != .alg) || r.itemOk)
      && (!(r.isRef && r.kind == .v) || r.featOk)
  | _, _ => false

/-- rule_09: algorithms, analyzers and regressions have state vectors -/
def sem09 : Cb → Obj → Bool
  | .ifalg, .routine _ r => r.svsImpl && !r.svs.isEmpty
  | .ifanz, .routine _ r => r.svsImpl && !r.svs.isEmpty
  | .ifrec, .routine _ r => r.svsImpl && !r.svs.isEmpty
  | _, _ => false

/-- rule_11: references resolve -/
def sem11 : Cb → Obj → Bool
  | .ifref, .ref r =>
    !r.resolveRaises && r.algFound && r.vrefs.all (fun v => v.svFound && v.featFound)
  | _, _ => false

/-- rule_06: the implementation named by a task's `previous()` lives under its factory's module -/
def rule06 (p : Pkg) : Bool :=
  match p.task with
  | none => true
  | some f =>
    match f.call Rules.rule06Arity with
    | none => false
    | some b => b.listImpl && b.routines.all (fun r => r.depsImpl && r.deps.all (·.underFactory))

/-- rule_10 on one event -/
def momentOk (e : Event) : Bool :=
  let undefined := (if e.boot == .none then 1 else 0) + (if e.day == .none then 1 else 0)
    + (if e.dom == .none then 1 else 0) + (if e.dow == .none then 1 else 0)
  undefined == 3 && e.day != .bad && e.dom != .bad && e.dow != .bad
    && (e.boot != .none || e.time == .ok)

def rule10 (p : Pkg) : Bool :=
  match p.events with
  | none => true
  | some f =>
    match f.call Rules.rule10Arity with
    | none => false
    | some es => es.all momentOk

/-- one rule by name, as `_verify` runs it: its value, `false` when it raises.  A name the model
does not know (a rule added to the source) is `false`, which breaks `gate_exact`. -/
def runRule (p : Pkg) : String → Bool
  | "rule_01" => rule01 p
  | "rule_02" => walk (withCbs "rule_02" sem02) p
  | "rule_03" => walk (withCbs "rule_03" sem03) p
  | "rule_04" => walk (withCbs "rule_04" sem04) p
  | "rule_05" => walk (withCbs "rule_05" sem05) p
  | "rule_06" => rule06 p
  | "rule_07" => walk (withCbs "rule_07" sem07) p
  | "rule_08" => walk (withCbs "rule_08" sem08) p
  | "rule_09" => walk (withCbs "rule_09" sem09) p
  | "rule_10" => rule10 p
  | "rule_11" => walk (withCbs "rule_11" sem11) p
  | _ => false

/-- `_verify([task], …)`: every rule of `_get_rules()` passes -/
def verify (p : Pkg) : Bool := Rules.ruleNames.all (runRule p)

/-- `_verify(tasks, …)` -/
def verifyAll (ps : List Pkg) : Bool := ps.all verify

/-! ## turning an accepted package into a task graph (`dag.Construct`, `schedule.build`,
`schedule.periodics`): the places where that code raises on what a package hands it -/

inductive BuildErr where
  /-- `factory(name, -1)` / `factory(name)` / `events()` raises -/
  | factoryCall (k : Factory)
  /-- `bot.routines()` raises -/
  | routines (k : Factory)
  /-- `alg.name()`, `alg.state_vectors()`, `sv.name()` or the input method raises -/
  | abstractMethod (k : Factory)
  /-- a node name cannot be joined / compared (name or key not usable) -/
  | badName (k : Factory)
  /-- `_feedback`: `self._flat[name]` has no node for a fed-back value (`KeyError`) -/
  | feedbackKey (k : Factory)
  /-- `_delay`: the moment's fields cannot be turned into a date (`AttributeError`/`TypeError`) -/
  | moment
deriving DecidableEq, Repr

def refResolved (r : Ref) : Bool :=
  !r.resolveRaises && r.algFound && r.vrefs.all (fun v => v.svFound && v.featFound)

def buildBot (k : Factory) (f : Fac Bot) : Except BuildErr Unit :=
  -- dag._build_tree calls factory(name, -1); version.current calls factory(name)
  match f.call 2, f.call 1 with
  | some b, some _ =>
    if !b.listImpl then .error (.routines k)
    else if !b.routines.all (fun r => r.nameImpl && r.svsImpl && r.depsImpl && r.fbOk
        && r.svs.all (·.nameImpl)) then .error (.abstractMethod k)
    else if !b.routines.all (fun r => r.feedback.all refResolved) then .error (.feedbackKey k)
    else .ok ()
  | _, _ => .error (.factoryCall k)

/-- `schedule._delay` on one event: a boot event needs nothing; otherwise the defined one of
day / dom / dow is read as a date / number and `moment.time.hour` is read -/
def momentBuilds (e : Event) : Bool :=
  e.boot != .none
    || ((e.day == .none || (e.day == .ok && e.time == .ok))
      && (e.dom == .none || (e.dom == .ok && e.time == .ok))
      && (e.dow == .none || e.time == .ok))

def buildEvents (f : Fac (List Event)) : Except BuildErr Unit :=
  match f.call 0 with
  | none => .error (.factoryCall .events)
  | some es => if es.all momentBuilds then .ok () else .error .moment

def optBuild {α : Type} (o : Option α) (f : α → Except BuildErr Unit) : Except BuildErr Unit :=
  match o with
  | none => .ok ()
  | some x => f x

/-- `Construct(factories)`; `schedule.build`; `schedule.periodics` restricted to what one package
contributes.  Termination of `Construct._ancestry` (which needs acyclic inputs) is C09's subject
and not represented here. -/
def construct (p : Pkg) : Except BuildErr Unit := do
  optBuild p.analysis (buildBot .analysis)
  optBuild p.regress (buildBot .regress)
  optBuild p.task (buildBot .task)
  optBuild p.events buildEvents

end DawgieVerif.Compliant
