/-
Line protocol of the C07 model (content-addressed store).
Keys are atoms, contents and names are naturals; the driver's digest is the identity on
content ids (the harness canonicalises real digests to content ids, the digest *format* is
checked by the monitor on the real files, not here), the empty file is content 0.

  (run <op> ...)   with <op> = (upd <key> <content> <budget>) | (del <key>) | (purge (<name> ...))
      → ((stage <content> ...) (store (<name> <content>) ...) (prime (<key> <name>) ...) (flags T|F|N ...))
  (program)        → the regenerated micro-step program, one atom/list per step
-/
import DawgieVerif.Model.Sexp
import DawgieVerif.Model.Blob
import DawgieVerif.Generated.Blob

namespace DawgieVerif.Blob
open DawgieVerif

def op? : Sx → Option (Op String Nat Nat)
  | Sx.list [Sx.atom "upd", Sx.atom k, c, b] => do
    let c ← c.nat?
    let b ← b.nat?
    pure (.upd k c b)
  | Sx.list [Sx.atom "del", Sx.atom k] => some (.del k)
  | Sx.list [Sx.atom "purge", v] => do
    let v ← v.nats?
    pure (.purge v)
  | _ => none

def ofFlag : Option Bool → Sx
  | none => Sx.atom "N"
  | some b => Sx.ofBool b

def ofAct : Act → Sx
  | .unlink => Sx.atom "unlink"
  | .rename => Sx.atom "rename"
  | .keep => Sx.atom "keep"

def ofInstr : Instr → Sx
  | .mkstemp => Sx.atom "mkstemp"
  | .dump => Sx.atom "dump"
  | .digest => Sx.atom "digest"
  | .probe => Sx.atom "probe"
  | .place a b => Sx.list [Sx.atom "place", ofAct a, ofAct b]
  | .record .moved => Sx.list [Sx.atom "record", Sx.atom "moved"]
  | .record .requested => Sx.list [Sx.atom "record", Sx.atom "requested"]
  | .reply n => Sx.list [Sx.atom "reply", Sx.ofBool n]
  | .flag n => Sx.list [Sx.atom "flag", Sx.ofBool n]

def ofSt (s : St String Nat Nat) (fl : List (Option Bool)) : Sx :=
  Sx.list [
    Sx.list (Sx.atom "stage" :: s.stage.map (fun p => Sx.ofNat p.2)),
    Sx.list (Sx.atom "store" :: s.store.map (fun p => Sx.list [Sx.ofNat p.1, Sx.ofNat p.2])),
    Sx.list (Sx.atom "prime" :: s.prime.map (fun p => Sx.list [Sx.atom p.1, Sx.ofNat p.2])),
    Sx.list (Sx.atom "flags" :: fl.map ofFlag)]

def handle : List Sx → Sx
  | Sx.atom "run" :: ops =>
    match ops.mapM op? with
    | some os =>
      let r := run (fun c : Nat => c) 0 Generated.Blob.program (init : St String Nat Nat) os
      ofSt r.1 r.2
    | none => Sx.err "blob-op"
  | [Sx.atom "program"] => Sx.list (Generated.Blob.program.map ofInstr)
  | _ => Sx.err "blob-cmd"

end DawgieVerif.Blob
