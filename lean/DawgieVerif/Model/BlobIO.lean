/-
Line protocol of the C07 model (content-addressed store).
Keys are atoms, contents and names are naturals; the driver's digest is the identity on
content ids (the harness canonicalises real digests to content ids, the digest *format* is
checked by the monitor on the real files, not here), the empty file is content 0.

  (run <xfs T|F> <op> ...)   with <op> = (upd <key> <content> <budget>) | (del <key>) | (purge (<name> ...))
      → ((stage <content> ...) (incoming <content> ...) (store (<name> <content>) ...)
         (prime (<key> <name>) ...) (flags T|F|N ...))
  (program <xfs T|F>)  → the regenerated program expanded for the configuration: (<branch N|T|F> <step> ..) ...
-/
import DawgieVerif.Model.Sexp
import DawgieVerif.Model.Blob
import DawgieVerif.Generated.Blob

namespace DawgieVerif.Blob
open DawgieVerif

def op? : Sx → Option (Op String Nat Nat)
  | Sx.list [Sx.atom "upd", Sx.atom k, c, b] => do
    let c ← c.nat?
    let b ← b.nat?
    pure (.upd k c b)
  | Sx.list [Sx.atom "del", Sx.atom k] => some (.del k)
  | Sx.list [Sx.atom "purge", v] => do
    let v ← v.nats?
    pure (.purge v)
  | _ => none

def ofFlag : Option Bool → Sx
  | none => Sx.atom "N"
  | some b => Sx.ofBool b

def ofDst : Dst → String
  | .incoming => "incoming"
  | .store => "store"

def ofAct : Act → String
  | .unlink => "unlink"
  | .mkdirs => "mkdirs"
  | .move d => "move:" ++ ofDst d
  | .replace => "replace"
  | .rename d => "rename:" ++ ofDst d
  | .create d => "create:" ++ ofDst d
  | .torn d => "torn:" ++ ofDst d
  | .fill d => "fill:" ++ ofDst d
  | .dropSrc => "dropSrc"

/-- `(<branch N|T|F> <step>)` -/
def ofInstr : Instr → Sx
  | .mkstemp => Sx.list [Sx.atom "N", Sx.atom "mkstemp"]
  | .dump => Sx.list [Sx.atom "N", Sx.atom "dump"]
  | .digest => Sx.list [Sx.atom "N", Sx.atom "digest"]
  | .probe => Sx.list [Sx.atom "N", Sx.atom "probe"]
  | .act g a => Sx.list [ofFlag g, Sx.atom (ofAct a)]
  | .record .moved => Sx.list [Sx.atom "N", Sx.atom "record", Sx.atom "moved"]
  | .record .requested => Sx.list [Sx.atom "N", Sx.atom "record", Sx.atom "requested"]
  | .reply n => Sx.list [Sx.atom "N", Sx.atom "reply", Sx.ofBool n]
  | .flag n => Sx.list [Sx.atom "N", Sx.atom "flag", Sx.ofBool n]

def ofSt (s : St String Nat Nat) (fl : List (Option Bool)) : Sx :=
  Sx.list [
    Sx.list (Sx.atom "stage" :: s.stage.map (fun p => Sx.ofNat p.2)),
    Sx.list (Sx.atom "incoming" :: s.incoming.map (fun p => Sx.ofNat p.2)),
    Sx.list (Sx.atom "store" :: s.store.map (fun p => Sx.list [Sx.ofNat p.1, Sx.ofNat p.2])),
    Sx.list (Sx.atom "prime" :: s.prime.map (fun p => Sx.list [Sx.atom p.1, Sx.ofNat p.2])),
    Sx.list (Sx.atom "flags" :: fl.map ofFlag)]

/-- digest = identity on content ids, empty file = 0, a partial copy of `c` = 500000 + c -/
def cfgOf (xfs : Bool) : Cfg Nat Nat := ⟨fun c => c, 0, fun c => 500000 + c, xfs⟩

def handle : List Sx → Sx
  | Sx.atom "run" :: x :: ops =>
    match x.bool?, ops.mapM op? with
    | some xfs, some os =>
      let r := run (cfgOf xfs) Generated.Blob.program (init : St String Nat Nat) os
      ofSt r.1 r.2
    | _, _ => Sx.err "blob-op"
  | [Sx.atom "program", x] =>
    match x.bool? with
    | some xfs => Sx.list ((expand xfs Generated.Blob.program).map ofInstr)
    | none => Sx.err "blob-cfg"
  | _ => Sx.err "blob-cmd"

end DawgieVerif.Blob
