/-
Model of the execution history `pl/logger/chronicle.py` (C18).

The store is the directory tree `chronicles/YYYY/MM/DD/<run id>.json`; every file holds a JSON
list of entries.  Here: a list of files, each with its directory (a civil date), its run id and
its list of entries.  Directories exist exactly when a file lives below them (`append` is the
only writer and creates them with `makedirs`; nothing is ever removed).

Time: completion times are timezone-aware UTC datetimes (the pipeline stamps them with
`datetime.now(UTC)`); an instant is an `Int` number of micro-seconds since
1970-01-01T00:00:00Z.  The directory of an entry is the date part of `str(completed)`, i.e. the
civil date of the instant.  Query bounds are timezone-aware datetimes written with ANY UTC
offset (`Bound`: instant + offset); naive datetimes are outside the model (the code raises
`TypeError` when it compares them).

Core Lean only.
-/
import DawgieVerif.Proofs.Cal
import DawgieVerif.Generated.ChronicleGen

namespace DawgieVerif.Chronicle
open DawgieVerif.Cal
open DawgieVerif.Generated.Chronicle (requiredKeys statusWord keep floorYear floorMonth floorDay
  oneUs onedayUs normalisesAfter normalisesBefore)

/-- one execution message.  `uid` stands for everything the history carries along without
    looking at it (changeset, version, the other timings). -/
structure Entry where
  completed : Int
  runid : Int
  target : String
  task : String
  status : String
  uid : Nat
deriving DecidableEq, Repr

/-- one `<run id>.json` below `chronicles/YYYY/MM/DD` -/
structure File where
  dir : Civil
  runid : Int
  entries : List Entry
deriving DecidableEq, Repr

abbrev Journal := List File

inductive Err where
  | typeError    -- `append`: "does not look like an execution message"
  | valueError   -- `find`: "all arguments are None"
deriving DecidableEq, Repr

/-- `entry['timing']['completed'].split(' ')[0]` : the civil date of the completion instant -/
def dirOf (e : Entry) : Civil := civilFromDays (dayOf e.completed)

def sameFile (d : Civil) (r : Int) (f : File) : Bool := decide (f.dir = d) && decide (f.runid = r)

/-- `json.load` of the file when `os.path.isfile`, else the initial `[]` -/
def readFile (j : Journal) (d : Civil) (r : Int) : List Entry :=
  match j.find? (sameFile d r) with
  | some f => f.entries
  | none => []

/-- `json.dump(entries, open(journal, 'tw'))` : replace the file's content or create the file -/
def writeFile (j : Journal) (d : Civil) (r : Int) (es : List Entry) : Journal :=
  if j.any (sameFile d r) then j.map (fun f => if sameFile d r f then { f with entries := es } else f)
  else j ++ [⟨d, r, es⟩]

/-- `chronicle.append`: `keys` are the keys present in the message -/
def append (j : Journal) (keys : List String) (e : Entry) : Except Err Journal :=
  if requiredKeys.all (fun k => keys.contains k) then
    .ok (writeFile j (dirOf e) e.runid (readFile j (dirOf e) e.runid ++ [e]))
  else .error .typeError

/-- everything the store holds -/
def allEntries (j : Journal) : List Entry := j.flatMap (·.entries)

/-- the store after the messages `es` (all with the required keys) were appended in order -/
def journalOf (es : List Entry) : Journal :=
  es.foldl (fun j e => writeFile j (dirOf e) e.runid (readFile j (dirOf e) e.runid ++ [e])) []

/-! ### find -/

/-- `_most_recent_first` compared the way `sort(reverse=True)` uses it: `a` may stand before `b`.
    (`completed` is compared as ISO text in the code; for UTC datetimes that is the order of
    the instants.) -/
def keyGe (a b : Entry) : Bool :=
  decide (b.completed < a.completed) || (a.completed == b.completed &&
    (decide (b.runid < a.runid) || (a.runid == b.runid &&
      (decide (b.target < a.target) || (a.target == b.target && decide (b.task ≤ a.task))))))

def hasYear (j : Journal) (y : Int) : Bool := j.any (fun f => decide (f.dir.year = y))
def hasMonth (j : Journal) (y m : Int) : Bool :=
  j.any (fun f => decide (f.dir.year = y) && decide (f.dir.month = m))
def hasDay (j : Journal) (c : Civil) : Bool := j.any (fun f => decide (f.dir = c))

/-- `_load(after, before, journal, succeeded)` for the day directory `c` -/
def load (j : Journal) (after upper : Int) (c : Civil) (status : String) : List Entry :=
  (((j.filter (fun f => decide (f.dir = c))).flatMap (·.entries)).filter
    (fun e => keep after e.completed upper e.status status)).mergeSort keyGe

/-- `len(entries) < limit` unless `limit is None` -/
def wants (limit : Option Int) (acc : List Entry) : Bool :=
  match limit with
  | none => true
  | some n => decide ((acc.length : Int) < n)

/-- the `while` loop of `find`: `cursor` is the local `before` as its calendar reads (wall clock of the
    offset it carries), `lo` the day number of `after.date()`, `after`/`upper` the instants of the fixed
    window bounds -/
def walk (j : Journal) (after upper : Int) (lo : Int) (limit : Option Int) (status : String)
    (cursor : Int) (acc : List Entry) : List Entry :=
  if wants limit acc ∧ lo ≤ dayOf cursor then
    let c := civilFromDays (dayOf cursor)
    if hasYear j c.year then
      if hasMonth j c.year c.month then
        let acc' := if hasDay j c then acc ++ load j after upper c status else acc
        walk j after upper lo limit status (cursor - onedayUs) acc'
      else
        walk j after upper lo limit status
          (daysFromCivil c.year c.month 1 * usPerDay - oneUs) acc
    else
      walk j after upper lo limit status (daysFromCivil c.year 1 1 * usPerDay - oneUs) acc
  else acc
termination_by (dayOf cursor - lo + 1).toNat
decreasing_by
  all_goals simp_wf
  · have : dayOf (cursor - onedayUs) = dayOf cursor - 1 := by
      unfold dayOf onedayUs usPerDay; omega
    omega
  · have h := (civil_bounds (dayOf cursor)).2.2.1
    have : dayOf (daysFromCivil (civilFromDays (dayOf cursor)).year
        (civilFromDays (dayOf cursor)).month 1 * usPerDay - oneUs)
        = daysFromCivil (civilFromDays (dayOf cursor)).year (civilFromDays (dayOf cursor)).month 1 - 1 := by
      unfold dayOf oneUs usPerDay; omega
    omega
  · have h := (civil_bounds (dayOf cursor)).1
    have : dayOf (daysFromCivil (civilFromDays (dayOf cursor)).year 1 1 * usPerDay - oneUs)
        = daysFromCivil (civilFromDays (dayOf cursor)).year 1 1 - 1 := by
      unfold dayOf oneUs usPerDay; omega
    omega

/-- `entries[:n]` -/
def pyFirst (l : List Entry) (n : Int) : List Entry :=
  if 0 ≤ n then l.take n.toNat else l.take (l.length - (-n).toNat)

/-- `entries[-n:]` -/
def pyLast (l : List Entry) (n : Int) : List Entry :=
  if 0 < n then l.drop (l.length - n.toNat) else l.drop (-n).toNat

/-- the 1980 floor -/
def floorInstant : Int := instant floorYear floorMonth floorDay 0 0 0

/-- a timezone-aware datetime: the instant it denotes and the UTC offset (minutes) it is written with -/
structure Bound where
  instant : Int
  offsetMin : Int
deriving DecidableEq, Repr

/-- what `.year .month .day .date()` read: the wall clock of the carried offset -/
def Bound.wall (b : Bound) : Int := b.instant + b.offsetMin * 60000000

/-- `b.astimezone(UTC)` -/
def Bound.toUTC (b : Bound) : Bound := ⟨b.instant, 0⟩

/-- `chronicle.find(after, before, limit, succeeded)`; `now` is `datetime.now(UTC)` -/
def find (j : Journal) (now : Int) (after before : Option Bound) (limit : Option Int)
    (succeeded : Bool) : Except Err (List Entry) :=
  if after.isNone ∧ before.isNone ∧ limit.isNone then .error .valueError
  else
    let limit := if after.isSome ∧ before.isSome then none else limit
    let after0 : Bound := match after with | none => ⟨floorInstant, 0⟩ | some a => a
    let before0 : Bound := match before with | none => ⟨now, 0⟩ | some b => b
    let after' := if normalisesAfter then after0.toUTC else after0
    let before' := if normalisesBefore then before0.toUTC else before0
    let entries := walk j after'.instant before'.instant (dayOf after'.wall) limit
      (statusWord succeeded) before'.wall []
    match limit with
    | none => .ok entries
    | some n =>
      if floorInstant < after'.instant then .ok (pyLast entries n) else .ok (pyFirst entries n)

end DawgieVerif.Chronicle
