import DawgieVerif.Model.Sexp
import DawgieVerif.Model.Search

/-!
Line protocol of the C17 model.

  (range <start> <stop|N> <member>)           → T | F          generated `rangeContains`
  (consts)                                     → ((align…) ((field table)…) keyLen)
  (divide <runids>)                            → err | (ok (<int>…) (<range>…))
  (scrub <runids>)                             → err | (ok (<item>…))
  (db <db> (<query>…))                         → (<answer>…)
     query  = (find <params> <index> <limit|N>) | (facet <params>)
     answer = err | (ok ((run tgt task alg sv)…) total) | (err <kind>) | (ok (name…))

  runids = N | (toks <tok>…) | (items <item>…)      tok = <int> | (<a|N> <b|N>) | E | B
  item   = <int> | (<start> <stop|N>)
  params = (<runids> <names|N> <names|N> <names|N> <names|N> <names|N>)
  db     = (((r t k a s v)…) <cat> <cat> <cat> <cat> <cat>)   target task alg state value
  cat    = (((name id)…) (name…))
-/
namespace DawgieVerif.Search
open DawgieVerif

def optInt? : Sx → Option (Option Int)
  | Sx.atom "N" => some none
  | x => x.int?.map some

def ofOptInt : Option Int → Sx
  | none => Sx.atom "N"
  | some i => Sx.ofInt i

def tok? : Sx → Option Tok
  | Sx.atom "E" => some Tok.empty
  | Sx.atom "B" => some Tok.bad
  | Sx.list [a, b] => do
    let a ← optInt? a
    let b ← optInt? b
    pure (Tok.rng a b)
  | x => x.int?.map Tok.int

def item? : Sx → Option Item
  | Sx.list [a, b] => do
    let a ← a.int?
    let b ← optInt? b
    pure (Item.rng ⟨a, b⟩)
  | x => x.int?.map Item.idx

def ofRange (r : Range) : Sx := Sx.list [Sx.ofInt r.start, ofOptInt r.stop]

def ofItem : Item → Sx
  | .idx i => Sx.ofInt i
  | .rng r => ofRange r

/-- outer `none`: malformed line; inner: `N` ↦ `some none`, a text that does not parse ↦ `none` -/
def runids? : Sx → Option (Option (Option Expr))
  | Sx.atom "N" => some (some none)
  | Sx.list (Sx.atom "toks" :: ts) => do
    let ts ← ts.mapM tok?
    pure ((parse ts).map some)
  | Sx.list (Sx.atom "items" :: is) => do
    let is ← is.mapM item?
    pure (some (some is))
  | _ => none

def names? : Sx → Option (Option (List String))
  | Sx.atom "N" => some none
  | x => x.strs?.map some

def params? : Sx → Option (Option Params)
  | Sx.list [r, t, k, a, s, v] => do
    let r ← runids? r
    let t ← names? t
    let k ← names? k
    let a ← names? a
    let s ← names? s
    let v ← names? v
    pure (r.map (fun r => ⟨r, t, k, a, s, v⟩))
  | _ => none

def key? (x : Sx) : Option Key := do
  let xs ← x.list?
  match ← xs.mapM Sx.int? with
  | [r, t, k, a, s, v] => some ⟨r, t, k, a, s, v⟩
  | _ => none

def entry? : Sx → Option (String × Int)
  | Sx.list [n, i] => do
    let n ← n.str?
    let i ← i.int?
    pure (n, i)
  | _ => none

def cat? : Sx → Option Cat
  | Sx.list [t, i] => do
    let t ← t.list?
    let t ← t.mapM entry?
    let i ← i.strs?
    pure ⟨t, i⟩
  | _ => none

def db? : Sx → Option DB
  | Sx.list [ks, tg, tk, al, st, vl] => do
    let ks ← ks.list?
    let ks ← ks.mapM key?
    pure ⟨ks, ← cat? tg, ← cat? tk, ← cat? al, ← cat? st, ← cat? vl⟩
  | _ => none

def ofRow (r : Row) : Sx :=
  Sx.list [Sx.ofInt r.run, Sx.ofStr r.tgt, Sx.ofStr r.task, Sx.ofStr r.alg, Sx.ofStr r.sv]

def query (db : DB) : Sx → Sx
  | Sx.list [Sx.atom "find", p, index, limit] =>
    match params? p, index.nat?, (match limit with | Sx.atom "N" => some none | l => l.nat?.map some) with
    | some none, some _, some _ => Sx.atom "valueError"
    | some (some p), some index, some limit =>
      match find db p index limit with
      | none => Sx.atom "err"
      | some (rows, total) => Sx.list [Sx.atom "ok", Sx.list (rows.map ofRow), Sx.ofNat total]
    | _, _, _ => Sx.err "find"
  | Sx.list [Sx.atom "facet", p] =>
    match params? p with
    | some none => Sx.atom "valueError"
    | some (some p) =>
      match facet db p with
      | .error .valueError => Sx.list [Sx.atom "err", Sx.atom "valueError"]
      | .error .indexError => Sx.list [Sx.atom "err", Sx.atom "indexError"]
      | .error .unmodelled => Sx.list [Sx.atom "err", Sx.atom "unmodelled"]
      | .ok names => Sx.list [Sx.atom "ok", Sx.list (names.map Sx.ofStr)]
    | none => Sx.err "facet"
  | _ => Sx.err "query"

def handle : List Sx → Sx
  | [Sx.atom "range", a, b, m] =>
    match a.int?, optInt? b, m.int? with
    | some a, some b, some m => Sx.ofBool (Generated.Search.rangeContains a b m)
    | _, _, _ => Sx.err "range"
  | [Sx.atom "consts"] =>
    Sx.list [Sx.list (Generated.Search.alignOrder.map Sx.ofStr),
             Sx.list (Generated.Search.tableOf.map (fun t => Sx.list [Sx.ofStr t.1, Sx.ofStr t.2])),
             Sx.ofNat Generated.Search.keyLen]
  | [Sx.atom "divide", r] =>
    match runids? r with
    | some none => Sx.atom "err"
    | some (some (some e)) =>
      Sx.list [Sx.atom "ok", Sx.list ((sortDedup intLt (divide e).1).map Sx.ofInt),
               Sx.list ((divide e).2.map ofRange)]
    | _ => Sx.err "divide"
  | [Sx.atom "scrub", r] =>
    match runids? r with
    | some none => Sx.atom "err"
    | some (some (some e)) => Sx.list [Sx.atom "ok", Sx.list ((scrub e).map ofItem)]
    | _ => Sx.err "scrub"
  | [Sx.atom "db", d, Sx.list qs] =>
    match db? d with
    | some db => Sx.list (qs.map (query db))
    | none => Sx.err "db"
  | _ => Sx.err "search-op"

end DawgieVerif.Search
