/-
Line protocol of the catalogue model (`Model/Store.lean`).  One input line is a whole history
`(store <op> <op> ...)`; the reply lists one observation per operation.
Names travel as lists of code points so that any Python `str` can be sent.
-/
import DawgieVerif.Model.Sexp
import DawgieVerif.Model.Store

namespace DawgieVerif.Store
open DawgieVerif

def name? (x : Sx) : Option Name := do
  let ns ← x.nats?
  pure (ns.map Char.ofNat)

def ofName (n : Name) : Sx := Sx.list (n.map (fun c => Sx.ofNat c.toNat))

def ver? (x : Sx) : Option Ver := do
  match ← x.nats? with
  | [d, i, b] => pure ⟨d, i, b⟩
  | _ => none

def ofVer (v : Ver) : Sx := Sx.list [Sx.ofNat v.d, Sx.ofNat v.i, Sx.ofNat v.b]

def ofKey (k : Key) : Sx := Sx.list (k.toList.map Sx.ofNat)

def ofErr : Err → Sx
  | .closed => Sx.list [Sx.atom "err", Sx.atom "closed"]
  | .keyError => Sx.list [Sx.atom "err", Sx.atom "key"]
  | .indexError => Sx.list [Sx.atom "err", Sx.atom "index"]
  | .valueError => Sx.list [Sx.atom "err", Sx.atom "value"]
  | .attrError => Sx.list [Sx.atom "err", Sx.atom "attr"]
  | .dangling => Sx.list [Sx.atom "err", Sx.atom "dangling"]

def ok (xs : List Sx) : Sx := Sx.list (Sx.atom "ok" :: xs)

def ofOptVer : Option Ver → Sx
  | none => Sx.atom "N"
  | some v => ofVer v

def ofTbl (t : Tbl) : Sx :=
  Sx.list [Sx.list (t.index.map ofName),
           Sx.list (t.dict.map (fun e => Sx.list [ofName e.1, Sx.ofNat e.2]))]

def dump (s : St) : Sx :=
  Sx.list [Sx.ofBool s.opened, ofTbl s.target, ofTbl s.task, ofTbl s.alg, ofTbl s.state, ofTbl s.value,
           Sx.list (s.prime.map (fun e => Sx.list [ofKey e.1, ofName e.2]))]

def nameVer? (n v : Sx) : Option (Name × Ver) := do
  pure (← name? n, ← ver? v)

/-- one operation: new state and observation -/
def stepSx (s : St) : Sx → St × Sx
  | Sx.list [Sx.atom "add", tn] =>
    match name? tn with
    | some tn => match add s tn with
      | .ok s' => (s', ok [])
      | .error e => (s, ofErr e)
    | none => (s, Sx.err "add")
  | Sx.list [Sx.atom "register", task, alg, av, sv, svv, truthy, vn, vv] =>
    match name? task, nameVer? alg av, nameVer? sv svv, truthy.bool?, nameVer? vn vv with
    | some task, some a, some b, some t, some c =>
      match register s task a b t c with
      | .ok (s', ids) => (s', ok [Sx.list (ids.map Sx.ofNat)])
      | .error e => (s, ofErr e)
    | _, _, _, _, _ => (s, Sx.err "register")
  | Sx.list [Sx.atom "store", run, tn, task, alg, av, sv, svv, vn, vv, blob, content] =>
    match run.nat?, name? tn, name? task, nameVer? alg av, nameVer? sv svv, nameVer? vn vv,
          name? blob, content.nat? with
    | some run, some tn, some task, some a, some b, some c, some blob, some content =>
      match store s run tn task a b c blob content with
      | .ok (s', k, ex) => (s', ok [ofKey k, Sx.ofBool ex])
      | .error e => (s, ofErr e)
    | _, _, _, _, _, _, _, _ => (s, Sx.err "store")
  | Sx.list [Sx.atom "load", run, tn, task, alg, av, sv, svv, vn, vv] =>
    match run.nat?, name? tn, name? task, nameVer? alg av, nameVer? sv svv, nameVer? vn vv with
    | some run, some tn, some task, some a, some b, some c =>
      match load s run tn task a b c with
      | .ok (s', none) => (s', ok [Sx.atom "N"])
      | .ok (s', some (k, c)) => (s', ok [ofKey k, Sx.ofNat c])
      | .error e => (s, ofErr e)
    | _, _, _, _, _, _ => (s, Sx.err "load")
  | Sx.list [Sx.atom "remove", run, tn, task, alg, sv, vn] =>
    match run.nat?, name? tn, name? task, name? alg, name? sv, name? vn with
    | some run, some tn, some task, some a, some b, some c =>
      match remove s run tn task a b c with
      | .ok s' => (s', ok [])
      | .error e => (s, ofErr e)
    | _, _, _, _, _, _ => (s, Sx.err "remove")
  | Sx.list [Sx.atom "next"] =>
    match next s with
    | .ok n => (s, ok [Sx.ofNat n])
    | .error e => (s, ofErr e)
  | Sx.list [Sx.atom "trace", tans] =>
    match tans.list?.bind (fun l => l.mapM (fun p => match p with
        | Sx.list [a, b] => do pure (← name? a, ← name? b)
        | _ => none)) with
    | some tans =>
      match trace s tans with
      | .ok r => (s, ok [Sx.list (r.map (fun t => Sx.list [ofName t.1,
          Sx.list (t.2.map (fun c => Sx.list [ofName c.1, ofName c.2.1, Sx.ofNat c.2.2]))]))])
      | .error e => (s, ofErr e)
    | none => (s, Sx.err "trace")
  | Sx.list [Sx.atom "reset", run, tn, task, alg, svs] =>
    match run.nat?, name? tn, name? task, name? alg, svs.list?.bind (fun l => l.mapM name?) with
    | some run, some tn, some task, some a, some svs =>
      match reset s run tn task a svs with
      | .ok r => (s, ok [Sx.list (r.map (fun x =>
          Sx.list [ofKey x.key, ofVer x.algVer, ofName x.svName, ofOptVer x.svVer]))])
      | .error e => (s, ofErr e)
    | _, _, _, _, _ => (s, Sx.err "reset")
  | Sx.list [Sx.atom "versions"] =>
    match versions s with
    | .ok r => (s, ok [Sx.list (r.map (fun x => Sx.list [ofName x.task, ofName x.alg, ofVer x.algVer,
        ofName x.sv, ofVer x.svVer, ofName x.v, ofVer x.vVer]))])
    | .error e => (s, ofErr e)
  | Sx.list [Sx.atom "keys"] =>
    match primeKeys s with
    | .ok r => (s, ok [Sx.list (r.map (fun x => Sx.list [Sx.ofNat x.1, ofName x.2.1, ofName x.2.2.1,
        ofName x.2.2.2.1, ofName x.2.2.2.2.1, ofName x.2.2.2.2.2]))])
    | .error e => (s, ofErr e)
  | Sx.list [Sx.atom "close"] => (closeDb s, ok [])
  | Sx.list [Sx.atom "open"] => (openDb s, ok [])
  | Sx.list [Sx.atom "dump"] => (s, dump s)
  | _ => (s, Sx.err "store-op")

def runOps (s : St) : List Sx → List Sx
  | [] => []
  | o :: os => let r := stepSx s o; r.2 :: runOps r.1 os

/-- `(history <op> ...)` : observations of a whole history from the empty, closed catalogue;
    `(dissect <name>)`, `(construct <name> <parent|N> <ver|N>)`, `(subset p|n <t> <sn>)`,
    `(nextrun <runs>)` : the pure pieces, for the grid validation of the generated definitions -/
def handle : List Sx → Sx
  | Sx.atom "history" :: ops => Sx.list (runOps init ops)
  | [Sx.atom "dissect", n] =>
    match name? n with
    | some n => match dissect n with
      | none => Sx.atom "raises"
      | some (p, nm, v) => Sx.list [match p with | none => Sx.atom "N" | some p => Sx.ofNat p,
                                    ofName nm, ofOptVer v]
    | none => Sx.err "dissect"
  | [Sx.atom "construct", n, p, v] =>
    match name? n with
    | some n =>
      let p := p.nat?
      let v := ver? v
      ofName (construct n p v)
    | none => Sx.err "construct"
  | [Sx.atom "subset", Sx.atom kind, t, sn] =>
    match name? t, name? sn with
    | some t, some sn =>
      Sx.ofBool (if kind == "p" then Generated.Store.subsetParents t sn
                 else Generated.Store.subsetPlain t sn)
    | _, _ => Sx.err "subset"
  | [Sx.atom "nextrun", runs] =>
    match runs.nats? with
    | some r => Sx.ofNat (Generated.Store.nextRun r)
    | none => Sx.err "nextrun"
  | _ => Sx.err "store"

end DawgieVerif.Store
