import DawgieVerif.Model.Sexp
import DawgieVerif.Generated.WorkerGen

/-! `(worker <ending>)` → the answer `pl.worker.cluster.execute` sends according to the regenerated
clause table: `success | failure | invalid | none` -/
namespace DawgieVerif.Worker
open DawgieVerif

def ending? : Sx → Option Ending
  | Sx.atom "ok" => some .ok
  | Sx.atom "invalidIn" => some .invalidIn
  | Sx.atom "invalidOut" => some .invalidOut
  | Sx.atom "error" => some .error
  | Sx.atom "exit" => some .exit
  | Sx.atom "interrupt" => some .interrupt
  | _ => none

def handle : List Sx → Sx
  | [e] =>
    match ending? e with
    | some e =>
      match answer Generated.WorkerGen.bodyAnswer Generated.WorkerGen.handlers e with
      | some .success => Sx.atom "success"
      | some .failure => Sx.atom "failure"
      | some .invalid => Sx.atom "invalid"
      | none => Sx.atom "none"
    | none => Sx.err "worker-ending"
  | _ => Sx.err "worker-op"

end DawgieVerif.Worker
