/-
Line protocol for the task-graph model (C09).

  (construct <alg> ...)        <alg> = (task name kind ((sv (v ...)) ...) (<ref> ...) (<ref> ...))
                               kind  = task | analysis | regress
                               <ref> = (A t a) | (S t a s) | (V t a s v)
  →  (ok <at> <svt> <tt> <vt> (feedbacks (k v) ...))  |  (error KeyError <name>) | (error diverges <name>)
  <tree> = ((roots n ...) (tags n ...) (children (p c ...) ...) (feedback (p f ...) ...)
            (ancestry (p m ...) ...) (parents (p m ...) ...))      -- the last two for at and vt
  (trim n (c ...))             → the name cut to its first n components
Names are printed with their components joined by '.'; nothing is sorted here.
-/
import DawgieVerif.Model.Sexp
import DawgieVerif.Model.Dag

namespace DawgieVerif.Dag
open DawgieVerif

def kind? : Sx → Option Kind
  | Sx.atom "task" => some .task
  | Sx.atom "analysis" => some .analysis
  | Sx.atom "regress" => some .regress
  | _ => none

def ref? : Sx → Option (Ref String)
  | Sx.list [Sx.atom "A", Sx.atom t, Sx.atom a] => some (.alg t a)
  | Sx.list [Sx.atom "S", Sx.atom t, Sx.atom a, Sx.atom s] => some (.sv t a s)
  | Sx.list [Sx.atom "V", Sx.atom t, Sx.atom a, Sx.atom s, Sx.atom v] => some (.val t a s v)
  | _ => none

def sv? : Sx → Option (SV String)
  | Sx.list [Sx.atom s, vs] => do
    let vs ← vs.strs?
    some ⟨s, vs⟩
  | _ => none

def alg? : Sx → Option (Alg String)
  | Sx.list [Sx.atom t, Sx.atom a, k, Sx.list svs, Sx.list ins, Sx.list fbs] => do
    let k ← kind? k
    let svs ← svs.mapM sv?
    let ins ← ins.mapM ref?
    let fbs ← fbs.mapM ref?
    some ⟨t, a, k, svs, ins, fbs⟩
  | _ => none

def ofName (n : Name String) : Sx := Sx.atom (if n.isEmpty then "<empty>" else ".".intercalate n)

def ofNames (tag : String) (ns : List (Name String)) : Sx := Sx.list (Sx.atom tag :: ns.map ofName)

def ofMap (tag : String) (ks : List (Name String)) (F : Name String → List (Name String)) : Sx :=
  Sx.list (Sx.atom tag :: ks.map (fun k => Sx.list (ofName k :: (F k).map ofName)))

def ofTree (g : Graph String) (l : Nat) (family : Bool) : Sx :=
  let tags := g.treeTags l
  Sx.list ([ofNames "roots" (g.treeRoots l), ofNames "tags" tags,
            ofMap "children" tags (g.children l), ofMap "feedback" tags (g.feedbackT l)] ++
           (if family then [ofMap "ancestry" tags g.ancestryAt, ofMap "parents" tags g.parentsAt]
            else []))

def ofValueTree (g : Graph String) : Sx :=
  let tags := g.visited
  Sx.list [ofNames "roots" g.roots, ofNames "tags" tags,
           ofMap "children" tags g.kids, ofMap "feedback" tags g.fb,
           ofMap "ancestry" tags g.ancV, ofMap "parents" tags g.parents]

def handle : List Sx → Sx
  | Sx.atom "construct" :: algs =>
    match algs.mapM alg? with
    | none => Sx.err "engine"
    | some as =>
      match construct (⟨as⟩ : Engine String) with
      | .error (.keyError n) => Sx.list [Sx.atom "error", Sx.atom "KeyError", ofName n]
      | .error (.diverges n) => Sx.list [Sx.atom "error", Sx.atom "diverges", ofName n]
      | .ok g =>
        Sx.list [Sx.atom "ok", ofTree g Generated.Dag.atLevel true, ofTree g Generated.Dag.svtLevel false,
                 ofTree g Generated.Dag.ttLevel false, ofValueTree g,
                 Sx.list (Sx.atom "feedbacks" ::
                   g.feedbacks.map (fun kv => Sx.list [ofName kv.1, ofName kv.2]))]
  | [Sx.atom "trim", n, name] =>
    match n.nat?, name.strs? with
    | some n, some cs => ofName (trim n cs)
    | _, _ => Sx.err "trim"
  | _ => Sx.err "dag-op"

end DawgieVerif.Dag
