/-
Model of the control flow of `dawgie.fe._static` (static file service of the front end).

Everything the function learns from the outside world — `Path.resolve`, `is_dir`,
`is_file`, `is_relative_to` — is an ARBITRARY function of the model (`World`): the theorems
hold for every file system, every symlink layout and every behaviour of `resolve`.
Calls inside the `try` answer `Res.failed` when they raise `OSError`/`RuntimeError` (missing
file, symlink loop, name too long: the root is skipped) and `Res.raised` for any other
exception (embedded NUL: `ValueError` leaves `_static`); `is_file` stands outside the `try`,
`none` = it raises.

Python (current tree):

    fn = fn.lstrip('/')
    valid = False
    for d in [Path(fe_path).resolve(), Path(bdir).resolve()]:
        try:
            ffn = (d / fn).resolve(strict=True)
            if ffn.is_dir():
                ffn = (ffn / 'index.html').resolve(strict=True)
        except (OSError, RuntimeError):
            ffn = d / fn
            continue
        if not ffn.is_relative_to(d):
            continue
        if ffn.is_file():
            valid = True
            break
    if valid and ffn.is_file():
        ... open(ffn) ...          # html + isdep: style sheets named in the CONTENT are inlined
    else:
        ... error text ...

Core Lean only (no Mathlib) so the driver can run it.
-/
namespace DawgieVerif.Static

/-- outcome of a call made inside the `try` block -/
inductive Res (α : Type) where
  | ok (a : α)
  /-- raised `OSError` / `RuntimeError`: caught, this root is skipped -/
  | failed
  /-- raised something else: the exception leaves `_static` -/
  | raised
deriving DecidableEq, Repr

/-- answers of pathlib / the file system -/
structure World (Root Req Path : Type) where
  /-- `(d / fn).resolve(strict=True)` -/
  resolve : Root → Req → Res Path
  /-- `ffn.is_dir()` -/
  isDir : Path → Res Bool
  /-- `(ffn / 'index.html').resolve(strict=True)` -/
  resolveIndex : Path → Res Path
  /-- `d / fn`, the unresolved join that `ffn` is bound to after a caught failure (only logged) -/
  join : Root → Req → Path
  /-- `ffn.is_relative_to(d)` (purely lexical, cannot raise) -/
  within : Path → Root → Bool
  /-- `ffn.is_file()` inside the loop; `none` = raises -/
  isFile : Path → Option Bool
  /-- `ffn.is_file()` after the loop: a second look at the file system, which may answer differently -/
  isFileAgain : Path → Option Bool

inductive Outcome (Path : Type) where
  /-- `open(p)` is read and its content (raw, or html with inlined style sheets) is returned -/
  | served (p : Path)
  /-- the error text is returned, no file is opened -/
  | notFound
  /-- an exception leaves `_static` -/
  | raised
deriving DecidableEq, Repr

variable {Root Req Path : Type}

/-- value of `ffn` when the containment check of root `d` is reached:
    fully (strictly) resolved, with `index.html` appended AND re-resolved for directories -/
def candidate (w : World Root Req Path) (d : Root) (fn : Req) : Res Path :=
  match w.resolve d fn with
  | .failed => .failed
  | .raised => .raised
  | .ok ffn =>
    match w.isDir ffn with
    | .failed => .failed
    | .raised => .raised
    | .ok true => w.resolveIndex ffn
    | .ok false => .ok ffn

/-- result of the `for d in roots` loop -/
inductive Scan (Path : Type) where
  | raised
  /-- `valid = True; break` with `ffn = p` -/
  | found (p : Path)
  /-- loop ran to its end with `valid = False`; `last` is what `ffn` is bound to (only logged) -/
  | exhausted (last : Option Path)
deriving DecidableEq, Repr

def scan (w : World Root Req Path) (fn : Req) : List Root → Option Path → Scan Path
  | [], last => .exhausted last
  | d :: ds, _ =>
    match candidate w d fn with
    | .raised => .raised
    | .failed => scan w fn ds (some (w.join d fn))   -- `except (OSError, RuntimeError): continue`
    | .ok ffn =>
      if w.within ffn d then
        match w.isFile ffn with
        | none => .raised
        | some true => .found ffn
        | some false => scan w fn ds (some ffn)
      else
        scan w fn ds (some ffn)   -- `continue` (jail break attempt is logged)

/-- `_static(fn, bdir, isdep, request)` up to the decision which file is opened -/
def static (w : World Root Req Path) (roots : List Root) (fn : Req) : Outcome Path :=
  match scan w fn roots none with
  | .raised => .raised
  | .found p =>
    match w.isFileAgain p with
    | none => .raised
    | some true => .served p
    | some false => .notFound
  | .exhausted (some _) => .notFound
  | .exhausted none => .raised     -- no root at all: `ffn` is unbound in the log call

/-! ### what the oracle answers are about

`is_relative_to` is a lexical test on the string that `resolve` returned.  It means "inside the
root" only if that string is the real location of the file, i.e. if `resolve` left no symlink
unresolved.  The two laws are assumptions about pathlib / the operating system, named here so
that the theorems can state exactly where they are used. -/

structure Truth (Root Path : Type) where
  /-- the location the operating system reads when `p` is opened (every symlink followed) -/
  real : Path → Path
  /-- genuine containment of a real location in a root -/
  inside : Path → Root → Bool

/-- L1: `Path.resolve` returns real locations (no symlink left in its result) -/
def ResolveCanonical (w : World Root Req Path) (t : Truth Root Path) : Prop :=
  (∀ d fn p, w.resolve d fn = .ok p → t.real p = p) ∧
  (∀ q p, w.resolveIndex q = .ok p → t.real p = p)

/-- L2: on a real location the lexical `is_relative_to` is containment -/
def WithinSound (w : World Root Req Path) (t : Truth Root Path) : Prop :=
  ∀ p d, t.real p = p → w.within p d = true → t.inside p d = true

/-! ### what is opened once a file is served

The deprecated-site branch (`isdep` and suffix `.html`) replaces every
`<link href='/stylesheets…'>` found in the CONTENT of the served file (and of the style sheets
spliced in) by the text of `os.path.join(bdir, name)`.  The names come from site content, never
from the request: the model makes that explicit by giving the inlining function no access to
the request. -/

structure Inliner (Root Path : Type) where
  /-- suffix is `.html` -/
  isHtml : Path → Bool
  /-- paths opened by the inlining loop for served file `p`: determined by `bdir` and file contents -/
  sheets : Root → Path → List Path

/-- every path handed to `open` by one call -/
def opened (w : World Root Req Path) (inl : Inliner Root Path) (roots : List Root)
    (isdep : Bool) (bdir : Root) (fn : Req) : List Path :=
  match static w roots fn with
  | .served p => p :: (if isdep && inl.isHtml p then inl.sheets bdir p else [])
  | _ => []

/-! ### the code before the repairs (kept to show that the theorem discriminates)

`ffn` was served whenever it was a file after the loop — also after `continue` on every root —
and `index.html` was appended after the containment check without a second `resolve`.  There
was no `try`: every failure of a call left `_static`. -/

def scanOld (w : World Root Req Path) (fn : Req) : List Root → Option Path → Scan Path
  | [], last => .exhausted last
  | d :: ds, _ =>
    match w.resolve d fn with
    | .ok ffn =>
      if w.within ffn d then
        match w.isDir ffn with
        | .ok isd =>
          -- `ffn / 'index.html'`: not resolved again, not checked again
          match (if isd then w.resolveIndex ffn else .ok ffn) with
          | .ok ffn' =>
            match w.isFile ffn' with
            | none => .raised
            | some true => .found ffn'
            | some false => scanOld w fn ds (some ffn')
          | _ => .raised
        | _ => .raised
      else scanOld w fn ds (some ffn)
    | _ => .raised

def staticOld (w : World Root Req Path) (roots : List Root) (fn : Req) : Outcome Path :=
  -- `if ffn.is_file():` on whatever the loop left in `ffn` — there is no `valid` flag
  let after (p : Path) : Outcome Path :=
    match w.isFileAgain p with
    | none => .raised
    | some true => .served p
    | some false => .notFound
  match scanOld w fn roots none with
  | .raised => .raised
  | .found p => after p
  | .exhausted (some p) => after p
  | .exhausted none => .raised

end DawgieVerif.Static
