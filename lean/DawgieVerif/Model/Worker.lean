/-
What the worker answers (`pl.worker.cluster.execute`): the algorithm's run ends in one of several
ways; the first `except` clause that catches the ending decides the answer; an ending no clause
catches leaves `execute` with the ORIGINAL task message in `m`, which the farm does not accept as an
answer (no outcome is ever recorded).  Core Lean only.
-/
namespace DawgieVerif.Worker

inductive Outcome where
  | success | failure | invalid
deriving Repr, DecidableEq

/-- how `Context.run` (scan, version record, `Task.do`) ends -/
inductive Ending where
  | ok            -- returns normally
  | invalidIn     -- raises dawgie.NoValidInputDataError
  | invalidOut    -- raises dawgie.NoValidOutputDataError
  | error         -- raises any other subclass of Exception
  | exit          -- raises SystemExit (`sys.exit()` in library code)
  | interrupt     -- raises KeyboardInterrupt
deriving Repr, DecidableEq

/-- what an `except` clause catches -/
inductive Catch where
  | bare                          -- `except:` / `except BaseException:`
  | exceptions                    -- `except Exception:`
  | classes (cs : List Ending)    -- the named invalid-data errors
deriving Repr

def Ending.isException : Ending → Bool
  | .invalidIn | .invalidOut | .error => true
  | _ => false

def Catch.catches : Catch → Ending → Bool
  | .bare, e => e != .ok
  | .exceptions, e => e.isException
  | .classes cs, e => cs.contains e

/-- the answer the worker sends; `none`: nothing the farm accepts as an answer -/
def answer (body : Outcome) (handlers : List (Catch × Outcome)) (e : Ending) : Option Outcome :=
  if e = .ok then some body
  else (handlers.find? fun h => h.1.catches e).map (·.2)

def Ending.all : List Ending := [.ok, .invalidIn, .invalidOut, .error, .exit, .interrupt]

end DawgieVerif.Worker
