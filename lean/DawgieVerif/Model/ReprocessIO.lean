import DawgieVerif.Model.SchedIO
import DawgieVerif.Model.Reprocess

/-! Line protocol for `Model/Reprocess.lean`:

`(repro run <n> <graph> (<target> ..) (<outs of node 0> <outs of node 1> ..) (<values written by
analyses> ..) (<op> ..))`

ops: `(s <scheduler op>)`, `(poke x t c)`, `(read x t (c ..))` (contents found, in the order
of `readCells`: per declared input, per target read), `(write x t (c ..))` (contents in the
order of the outs of `x`), `(reply x t rid)`, `(check)`.  One observation per op. -/
namespace DawgieVerif.Reprocess
open DawgieVerif DawgieVerif.Sched

/-- a report that will make `(c, u)` pending is on its way (`Caused`) -/
def causedB (g : Graph) (w : W) (c : Name) (u : Target) : Bool :=
  w.done.any fun e =>
    decide (c ∈ dependents g e.1.1 e.2) && decide (u ∈ wanted g w.s.targets [e.1.2] c)

/-- `Pend` -/
def pendB (g : Graph) (w : W) (c : Name) (t : Target) : Bool :=
  decide (t ∈ (w.s.node c).todo) || causedB g w c t

/-- the cells unit `(x, u)` reads, in the order the harness lists what the real load found -/
def readCells (g : Graph) (prodA : Val → Bool) (T : List Target) (x : Name) (u : Target) :
    List (Val × Target) :=
  (g.consumes x).flatMap fun v => (readsT g prodA T x u v).map fun t => (v, t)

/-- the load found the latest stored content of every cell it reads -/
def agreeB (g : Graph) (prodA : Val → Bool) (T : List Target) (w : W) (x : Name) (t : Target)
    (sn : Val → Target → Content) : Bool :=
  (g.consumes x).all fun v => (readsT g prodA T x t v).all fun t' => sn v t' == w.store v t'

/-- the conditions of `WOk` for a load -/
def okRead (g : Graph) (prodA : Val → Bool) (T : List Target) (w : W) (x : Name) (t : Target)
    (sn : Val → Target → Content) : Bool :=
  decide ((x, t) ∈ w.s.inflight) && (lookupK (x, t) w.reading).isNone &&
    (lookupK (x, t) w.done).isNone &&
    ((g.consumes x).all fun v => (readsT g prodA T x t v).all fun t' =>
      sn v t' == w.store v t' || pendB g w x t)

def okWrite (w : W) (x : Name) (t : Target) : Bool := (lookupK (x, t) w.reading).isSome

def okReply (w : W) (x : Name) (t : Target) : Bool := (lookupK (x, t) w.done).isSome

/-- the premise `Novel`, as a Boolean -/
def novelB (outs : List Val) (w : W) (t : Target) (outc : Val → Content) : Bool :=
  outs.all fun v =>
    outc v == w.store v t ||
      (!decide (outc v ∈ w.seen) && outs.all fun u => u == v || outc u != outc v)

inductive IOp where
  | op (o : WOp)
  | readL (x : Name) (t : Target) (cs : List Content)
  | writeL (x : Name) (t : Target) (cs : List Content)
  | check

def iop? (x : Sx) : Option IOp := do
  let xs ← x.list?
  match xs with
  | [Sx.atom "s", o] => some (.op (.sched (← op? o)))
  | [Sx.atom "poke", n, t, c] => some (.op (.poke (← n.nat?) (← t.nat?) (← c.nat?)))
  | [Sx.atom "read", n, t, cs] => some (.readL (← n.nat?) (← t.nat?) (← cs.nats?))
  | [Sx.atom "write", n, t, cs] => some (.writeL (← n.nat?) (← t.nat?) (← cs.nats?))
  | [Sx.atom "reply", n, t, rid] => some (.op (.reply (← n.nat?) (← t.nat?) (← rid.nat?)))
  | [Sx.atom "check"] => some .check
  | _ => none

def outcOf (vs : List Val) (cs : List Content) : Val → Content :=
  fun v => ((vs.zip cs).lookup v).getD 0

/-- Re-tabulate the function-valued components after every op (driver only; the components
    agree with the originals on every algorithm, value and target of the case). -/
def retabW (n : Nat) (vals : List Val) (ts : List Target) (w : W) : W :=
  let st := (vals.map fun v => (ts.map fun t => w.store v t).toArray).toArray
  let so := ((List.range n).map fun x => (ts.map fun t => w.source x t).toArray).toArray
  { w with
    s := Sched.retab n w.s
    store := fun v t => match vals.idxOf? v, ts.idxOf? t with
      | some i, some j => (st.getD i #[]).getD j 0
      | _, _ => 0
    source := fun x t => match ts.idxOf? t with
      | some j => (so.getD x #[]).getD j 0
      | none => 0 }

def ofB (b : Bool) : Sx := Sx.ofBool b

def snapOf (cells : List (Val × Target)) (cs : List Content) : Val → Target → Content :=
  fun v t => ((cells.zip cs).lookup (v, t)).getD 0

def stepIO (g : Graph) (n : Nat) (outs : Name → List Val) (prodA : Val → Bool) (vals : List Val)
    (ts : List Target) (w : W) : IOp → W × Sx
  | .op (.sched o) =>
    let r := Sched.stepObs' g n w.s o
    ({ w with s := r.1 }, Sx.list [Sx.atom "s", r.2])
  | .op (.poke x t c) => (poke w x t c, Sx.list [Sx.atom "poke"])
  | .op (.read x t sn) => (read w x t sn, Sx.list [Sx.atom "read"])
  | .readL x t cs =>
    -- contents found, in the order of `readCells`
    let cells := readCells g prodA ts x t
    let sn := snapOf cells cs
    let ok := okRead g prodA ts w x t sn && cs.length == cells.length
    (read w x t sn, Sx.list [Sx.atom "read", ofB ok, ofB (agreeB g prodA ts w x t sn), Sx.ofNat (w.source x t),
                             ofNats (cells.map fun c => w.store c.1 c.2)])
  | .op (.write x t outc) => (write outs w x t outc, Sx.list [Sx.atom "write"])
  | .writeL x t cs =>
    let outc := outcOf (outs x) cs
    let ok := okWrite w x t && cs.length == (outs x).length
    let nov := novelB (outs x) w t outc
    let w' := write outs w x t outc
    let news := ((lookupK (x, t) w'.done.reverse).getD [])
    (w', Sx.list [Sx.atom "write", ofB ok, ofB nov, ofNats news])
  | .op (.reply x t rid) =>
    let ok := okReply w x t
    let w' := reply g outs w x t rid
    (w', Sx.list [Sx.atom "reply", ofB ok, Sched.observe n w'.s (Sx.atom "-")])
  | .check =>
    let quiet := w.s.que.isEmpty && w.s.inflight.isEmpty && w.dirty.isEmpty && w.done.isEmpty &&
      w.reading.isEmpty
    (w, Sx.list [Sx.atom "check", ofB quiet,
                 Sx.list ((ts ++ [ALL]).map fun t => ofNats (vals.map fun v => w.store v t)),
                 ofPairs w.dirty])

def runIO (g : Graph) (n : Nat) (outs : Name → List Val) (prodA : Val → Bool) (vals : List Val)
    (ts : List Target) : W → List IOp → List Sx
  | _, [] => []
  | w, o :: os =>
    let r := stepIO g n outs prodA vals ts w o
    r.2 :: runIO g n outs prodA vals ts (retabW n vals (ts ++ [ALL]) r.1) os

def W.init (ts : List Target) : W :=
  { s := St.init ts, source := fun _ _ => 0, store := fun _ _ => 0, seen := [], reading := [],
    done := [], dirty := [] }

/-- `(run <n> <graph> (<target> ..) (<outs of node 0> ..) (<values written by analyses> ..) (<op> ..))` -/
def handle : List Sx → Sx
  | [Sx.atom "run", n, g, targets, outs, avals, ops] =>
    match n.nat?, graph? g, targets.nats?, natLists? outs, avals.nats?, ops.list?.bind (·.mapM iop?) with
    | some n, some g, some ts, some outs, some avals, some ops =>
      let outsF : Name → List Val := fun x => outs.getD x []
      Sx.list (runIO g n outsF (fun v => decide (v ∈ avals)) outs.flatten ts (W.init ts) ops)
    | _, _, _, _, _, _ => Sx.err "repro-args"
  | _ => Sx.err "repro-op"

end DawgieVerif.Reprocess
