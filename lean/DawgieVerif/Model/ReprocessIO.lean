import DawgieVerif.Model.SchedIO
import DawgieVerif.Model.Reprocess

/-! Line protocol for `Model/Reprocess.lean`:

`(repro run <n> <graph> (<target> ..) (<outs of node 0> <outs of node 1> ..) (<op> ..))`

ops: `(s <scheduler op>)`, `(poke x t c)`, `(read x t (c ..))` (contents found, in the order
of the declared inputs of `x`), `(write x t (c ..))` (contents in the
order of the outs of `x`), `(reply x t rid)`, `(check)`.  One observation per op. -/
namespace DawgieVerif.Reprocess
open DawgieVerif DawgieVerif.Sched

/-- a report that will make `(c, t)` pending is on its way (`Caused`) -/
def causedB (g : Graph) (w : W) (c : Name) (t : Target) : Bool :=
  w.done.any fun e => e.1.2 == t && decide (c ∈ dependents g e.1.1 e.2)

/-- `Pend` -/
def pendB (g : Graph) (w : W) (c : Name) (t : Target) : Bool :=
  decide (t ∈ (w.s.node c).todo) || causedB g w c t

/-- the load found the latest stored content of every declared input -/
def agreeB (g : Graph) (w : W) (x : Name) (t : Target) (sn : Val → Content) : Bool :=
  (g.consumes x).all fun v => sn v == w.store v t

/-- the conditions of `WOk` for a load -/
def okRead (g : Graph) (w : W) (x : Name) (t : Target) (sn : Val → Content) : Bool :=
  decide ((x, t) ∈ w.s.inflight) && (lookupK (x, t) w.reading).isNone &&
    (lookupK (x, t) w.done).isNone &&
    ((g.consumes x).all fun v => sn v == w.store v t || pendB g w x t)

def okWrite (w : W) (x : Name) (t : Target) : Bool := (lookupK (x, t) w.reading).isSome

def okReply (w : W) (x : Name) (t : Target) : Bool := (lookupK (x, t) w.done).isSome

/-- the premise `Novel`, as a Boolean -/
def novelB (outs : List Val) (w : W) (t : Target) (outc : Val → Content) : Bool :=
  outs.all fun v =>
    outc v == w.store v t ||
      (!decide (outc v ∈ w.seen) && outs.all fun u => u == v || outc u != outc v)

inductive IOp where
  | op (o : WOp)
  | readL (x : Name) (t : Target) (cs : List Content)
  | writeL (x : Name) (t : Target) (cs : List Content)
  | check

def iop? (x : Sx) : Option IOp := do
  let xs ← x.list?
  match xs with
  | [Sx.atom "s", o] => some (.op (.sched (← op? o)))
  | [Sx.atom "poke", n, t, c] => some (.op (.poke (← n.nat?) (← t.nat?) (← c.nat?)))
  | [Sx.atom "read", n, t, cs] => some (.readL (← n.nat?) (← t.nat?) (← cs.nats?))
  | [Sx.atom "write", n, t, cs] => some (.writeL (← n.nat?) (← t.nat?) (← cs.nats?))
  | [Sx.atom "reply", n, t, rid] => some (.op (.reply (← n.nat?) (← t.nat?) (← rid.nat?)))
  | [Sx.atom "check"] => some .check
  | _ => none

def outcOf (vs : List Val) (cs : List Content) : Val → Content :=
  fun v => ((vs.zip cs).lookup v).getD 0

/-- Re-tabulate the function-valued components after every op (driver only; the components
    agree with the originals on every algorithm, value and target of the case). -/
def retabW (n : Nat) (vals : List Val) (ts : List Target) (w : W) : W :=
  let st := (vals.map fun v => (ts.map fun t => w.store v t).toArray).toArray
  let so := ((List.range n).map fun x => (ts.map fun t => w.source x t).toArray).toArray
  { w with
    s := Sched.retab n w.s
    store := fun v t => match vals.idxOf? v, ts.idxOf? t with
      | some i, some j => (st.getD i #[]).getD j 0
      | _, _ => 0
    source := fun x t => match ts.idxOf? t with
      | some j => (so.getD x #[]).getD j 0
      | none => 0 }

def ofB (b : Bool) : Sx := Sx.ofBool b

def stepIO (g : Graph) (n : Nat) (outs : Name → List Val) (vals : List Val) (ts : List Target)
    (w : W) : IOp → W × Sx
  | .op (.sched o) =>
    let r := Sched.stepObs' g n w.s o
    ({ w with s := r.1 }, Sx.list [Sx.atom "s", r.2])
  | .op (.poke x t c) => (poke w x t c, Sx.list [Sx.atom "poke"])
  | .op (.read x t sn) => (read w x t sn, Sx.list [Sx.atom "read"])
  | .readL x t cs =>
    -- contents found, in the order of `g.consumes x`
    let sn := outcOf (g.consumes x) cs
    let ok := okRead g w x t sn && cs.length == (g.consumes x).length
    (read w x t sn, Sx.list [Sx.atom "read", ofB ok, ofB (agreeB g w x t sn), Sx.ofNat (w.source x t),
                             ofNats ((g.consumes x).map fun v => w.store v t)])
  | .op (.write x t outc) => (write outs w x t outc, Sx.list [Sx.atom "write"])
  | .writeL x t cs =>
    let outc := outcOf (outs x) cs
    let ok := okWrite w x t && cs.length == (outs x).length
    let nov := novelB (outs x) w t outc
    let w' := write outs w x t outc
    let news := ((lookupK (x, t) w'.done.reverse).getD [])
    (w', Sx.list [Sx.atom "write", ofB ok, ofB nov, ofNats news])
  | .op (.reply x t rid) =>
    let ok := okReply w x t
    let w' := reply g outs w x t rid
    (w', Sx.list [Sx.atom "reply", ofB ok, Sched.observe n w'.s (Sx.atom "-")])
  | .check =>
    let quiet := w.s.que.isEmpty && w.s.inflight.isEmpty && w.dirty.isEmpty && w.done.isEmpty &&
      w.reading.isEmpty
    (w, Sx.list [Sx.atom "check", ofB quiet,
                 Sx.list (ts.map fun t => ofNats (vals.map fun v => w.store v t)),
                 ofPairs w.dirty])

def runIO (g : Graph) (n : Nat) (outs : Name → List Val) (vals : List Val) (ts : List Target) :
    W → List IOp → List Sx
  | _, [] => []
  | w, o :: os =>
    let r := stepIO g n outs vals ts w o
    r.2 :: runIO g n outs vals ts (retabW n vals ts r.1) os

def W.init (ts : List Target) : W :=
  { s := St.init ts, source := fun _ _ => 0, store := fun _ _ => 0, seen := [], reading := [],
    done := [], dirty := [] }

def handle : List Sx → Sx
  | [Sx.atom "run", n, g, targets, outs, ops] =>
    match n.nat?, graph? g, targets.nats?, natLists? outs, ops.list?.bind (·.mapM iop?) with
    | some n, some g, some ts, some outs, some ops =>
      let outsF : Name → List Val := fun x => outs.getD x []
      Sx.list (runIO g n outsF outs.flatten ts (W.init ts) ops)
    | _, _, _, _, _ => Sx.err "repro-args"
  | _ => Sx.err "repro-op"

end DawgieVerif.Reprocess
