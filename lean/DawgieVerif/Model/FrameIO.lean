import DawgieVerif.Model.Sexp
import DawgieVerif.Model.Frame
import DawgieVerif.Model.Handshake

namespace DawgieVerif.Frame
open DawgieVerif

def bytes? (x : Sx) : Option Bytes := do
  let ns ← x.nats?
  if ns.all (· < 256) then some (ns.map UInt8.ofNat) else none

def ofBytes (b : Bytes) : Sx := Sx.list (b.map (fun u => Sx.ofNat u.toNat))

def ofSt (s : St) : Sx :=
  Sx.list [ofBytes s.buf, match s.len with | none => Sx.atom "N" | some n => Sx.ofNat n]

/-- `(feedall <chunk> <chunk> ...)` → `(<state> (<msg> ...))`;
    `(recv1 <stream>)` → `N` or `(<msg> <rest>)` -/
def handle : List Sx → Sx
  | Sx.atom "feedall" :: chunks =>
    match chunks.mapM bytes? with
    | some cs =>
      let r := feedAll init cs
      Sx.list [ofSt r.1, Sx.list (r.2.map ofBytes)]
    | none => Sx.err "bytes"
  | [Sx.atom "recv1", stream] =>
    match bytes? stream with
    | some s => match recv1 s with
      | none => Sx.atom "N"
      | some (m, rest) => Sx.list [ofBytes m, ofBytes rest]
    | none => Sx.err "bytes"
  | _ => Sx.err "frame-op"

end DawgieVerif.Frame

namespace DawgieVerif.Handshake
open DawgieVerif DawgieVerif.Frame

/-- the table-driven PGP fake of the harness: a packet verifies iff it starts with "OK";
    decryption strips that marker -/
def fakeEnv (challenge : Bytes) : Env :=
  { verify := fun b => b.take 2 == [79, 75], decrypt := fun b => b.drop 2, challenge := challenge }

/-- `(hs <challenge> <chunk> ...)` → `(closed restored sent (<delivered> ...))` -/
def handle : List Sx → Sx
  | Sx.atom "hs" :: ch :: chunks =>
    match bytes? ch, chunks.mapM bytes? with
    | some c, some cs =>
      let s := feedAllT (fakeEnv c) init cs
      Sx.list [Sx.ofBool s.closed, Sx.ofBool s.restored, Sx.ofNat s.sent,
               Sx.list (s.delivered.map ofBytes), Sx.ofBool s.structErr]
    | _, _ => Sx.err "bytes"
  | _ => Sx.err "hs-op"

end DawgieVerif.Handshake
