-- every executable model used by the driver
import DawgieVerif.Model.Sexp
import DawgieVerif.Model.FrameIO
