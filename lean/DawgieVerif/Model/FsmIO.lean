/-
Line protocol for the life-cycle model (C10):

  (hist <archive> <ev> ...)   ev = boot | sb | se | da | up | fa | sr | (c <i> <reopen>) | rf | rt | (raw <trigger>)
      → (<obs> ...) one observation after every event
      (raw: the trigger fired from outside a callback with no call-site guard - probes of the harness)
      (rf / rt: the reset request of fe/api `cmd_reset(archive)`: when active, `ARCHIVE |= archive`
       then wait_for_nothing → update_trigger, i.e. the events [fa]? ++ [up]; otherwise refused)
  (fire <state> <tr> <prior|N> <openAgain> <archive> <trigger>)
      → <obs> of firing the trigger from outside in that (forced) core
  (done <state> <tr> <prior|N> <openAgain> <archive> <step> <reopen>)
      → <obs> of the completion callback of <step> in that (forced) core

  obs = (<state> <tr> <prior|N> <openAgain> <archive> (<outstanding> ...) <outcome>
         ((<trigger> <src> <dst>) ...) <resets> <is_pipeline_active>)
-/
import DawgieVerif.Model.Sexp
import DawgieVerif.Model.Fsm

namespace DawgieVerif.Fsm
open DawgieVerif DawgieVerif.Generated.Fsm

def stateOf? (x : Sx) : Option State := do
  let n ← x.str?
  State.all.find? (fun s => s.name == n)

def triggerOf? (x : Sx) : Option Trigger := do
  let n ← x.str?
  Trigger.all.find? (fun s => s.name == n)

def Status.name : Status → String
  | .active => "active" | .entering => "entering" | .exiting => "exiting"

def statusOf? : Sx → Option Status
  | .atom "active" => some .active
  | .atom "entering" => some .entering
  | .atom "exiting" => some .exiting
  | _ => none

def Step.name : Step → String
  | .load => "load" | .reload => "reload" | .archive => "archive" | .navelGaze => "navel"

def stepOf? : Sx → Option Step
  | .atom "load" => some .load
  | .atom "reload" => some .reload
  | .atom "archive" => some .archive
  | .atom "navel" => some .navelGaze
  | _ => none

def priorOf? : Sx → Option (Option State)
  | .atom "N" => some none
  | x => (stateOf? x).map some

def Outcome.name : Outcome → String
  | .ok => "ok" | .refused => "refused" | .rejected => "rejected" | .failed => "failed" | .idle => "idle"

def eventOf? : Sx → Option Event
  | .atom "boot" => some .boot
  | .atom "sb" => some .submitBegin
  | .atom "se" => some .submitEnd
  | .atom "da" => some .dispatchArchive
  | .atom "up" => some .update
  | .atom "fa" => some .flagArchive
  | .atom "sr" => some .strayRun
  | .list [.atom "c", i, b] => do some (.complete (← i.nat?) (← b.bool?))
  | _ => none

def coreOf? (st tr pr oa ar : Sx) : Option Core := do
  some ⟨← stateOf? st, ← statusOf? tr, ← priorOf? pr, ← oa.bool?, ← ar.bool?⟩

def obs (c : Core) (outstanding : List Step) (r : Outcome) (o : Out) : Sx :=
  .list [.atom c.state.name, .atom c.tr.name,
    (match c.prior with | none => .atom "N" | some p => .atom p.name),
    Sx.ofBool c.openAgain, Sx.ofBool c.archive,
    .list (outstanding.map fun k => .atom k.name), .atom r.name,
    .list (o.moves.map fun m => .list [.atom m.trigger.name, .atom m.src.name, .atom m.dst.name]),
    Sx.ofNat o.resets, Sx.ofBool c.isActive]

/-- events of the line protocol: model events, or the composite reset request -/
inductive IOEvent where
  | ev (e : Event)
  | reset (archive : Bool)
  | raw (t : Trigger)

def ioEventOf? : Sx → Option IOEvent
  | .atom "rf" => some (.reset false)
  | .atom "rt" => some (.reset true)
  | .list [.atom "raw", t] => (triggerOf? t).map .raw
  | x => (eventOf? x).map .ev

def ioStep (s : St) : IOEvent → St × Out × Outcome
  | .ev e => step s e
  | .raw t => let r := fireTop t s; (r.1, r.2, r.2.outcome)
  | .reset a =>
    if s.isActive then step (if a then next s .flagArchive else s) .update else noop s .refused

def histObs (s : St) : List IOEvent → List Sx
  | [] => []
  | e :: es =>
    let r := ioStep s e
    obs r.1.core r.1.outstanding r.2.2 r.2.1 :: histObs r.1 es

def handle : List Sx → Sx
  | .atom "hist" :: a :: evs =>
    match a.bool?, evs.mapM ioEventOf? with
    | some a, some es => .list (histObs (init a) es)
    | _, _ => Sx.err "hist"
  | [.atom "fire", st, tr, pr, oa, ar, t] =>
    match coreOf? st tr pr oa ar, triggerOf? t with
    | some c, some t =>
      let r := fireTop t ⟨c, []⟩
      obs r.1.core r.1.outstanding r.2.outcome r.2
    | _, _ => Sx.err "fire"
  | [.atom "done", st, tr, pr, oa, ar, k, b] =>
    match coreOf? st tr pr oa ar, stepOf? k, b.bool? with
    | some c, some k, some b =>
      let o := completion k b c
      obs o.core o.started o.outcome o
    | _, _, _ => Sx.err "done"
  | _ => Sx.err "fsm-op"

end DawgieVerif.Fsm
