/-
Model of the scheduler core of `pl/schedule.py` together with the reply handling of
`pl/farm.py` (`Hand._res`) and the per-job part of `farm.dispatch`.

Mirrors, function by function: `organize`, `_prune`, `next_job_batch`, the `_jobs` loop of
`farm.dispatch` (status := running, one message per target in `do`, `do.clear()`), `find`,
`complete`, `update`, `purge`/`_purge`, `defer` (the queuing decision), `build` (the queuing
decision), `view_todo`, `view_doing`.

Conventions: algorithm nodes and targets are natural numbers; target `0` is the all-targets
marker `'__all__'`.  Python sets / `fifo.Unique` are duplicate-free lists (`addU`).
Promotion is off (`dawgie.context.allow_promotion = False`, the default), so `promote()` is
`False` and `promote(values, node, rid)` has no effect on the schedule.
Core Lean only.
-/
namespace DawgieVerif.Sched

abbrev Name := Nat
abbrev Target := Nat
abbrev Val := Nat

/-- the `'__all__'` marker -/
def ALL : Target := 0

inductive Kind where
  | task | analysis | regress
deriving Repr, DecidableEq

inductive Outcome where
  | success | failure | invalid
deriving Repr, DecidableEq

/-- What the scheduler reads from `dag.Construct` (`ae.at`, `ae.feedbacks`) and from the
    algorithm objects (`_priors`): produced by the real graph in the harness, by `Model/Dag` in Lean. -/
structure Graph where
  kind : Name → Kind
  children : Name → List Name       -- iteration over a node = its direct children (self excluded)
  desc : Name → List Name           -- the nodes `_purge` visits from `x`: `x` and everything below
  ancestry : Name → List Name       -- `node.get('ancestry')`
  consumes : Name → List Val        -- declared inputs expanded to value level (`as_vref (_priors alg)`)
  feedbackTo : Val → Option Name    -- `ae.feedbacks`: fed-back value ↦ consuming algorithm
  level : Name → Nat                -- `node.get('level')`, the sort key of the queue
  rank : Name → Nat := fun n => n   -- position of the node's tag in string order (`sorted(task_names)`)

/-- the values of `jobinfo.State` a node's `status` takes -/
inductive Status where
  | initial | delayed | waiting | running
deriving Repr, DecidableEq

structure Node where
  todo : List Target
  doing : List Target
  do_ : List Target
  status : Status
  runid : Option Nat
deriving Repr, DecidableEq

def Node.empty : Node := { todo := [], doing := [], do_ := [], status := .initial, runid := none }

/-- `status is State.running` -/
def Node.running (nd : Node) : Bool := nd.status == .running

structure Entry where
  job : Name
  target : Target
  outcome : Outcome
  runid : Nat
deriving Repr, DecidableEq

/-- a task message queued by `farm._put` -/
structure Msg where
  job : Name
  target : Target          -- `ALL` stands for `target=None` (analysis)
  runid : Nat
deriving Repr, DecidableEq

structure St where
  node : Name → Node
  que : List Name
  targets : List Target         -- `dawgie.db.targets()`
  paused : Bool
  nextRun : Nat                 -- `dawgie.db.next()` would return this
  chron : List Entry            -- appends to the execution history, oldest first
  inflight : List (Name × Target)   -- ghost: released and not yet answered
  msgs : List Msg               -- ghost: every task message queued so far (`farm._put`), oldest first

def St.init (targets : List Target) : St :=
  { node := fun _ => Node.empty, que := [], targets := targets, paused := false, nextRun := 1,
    chron := [], inflight := [], msgs := [] }

/-- `Unique.add` / `set.add` -/
def addU (xs : List Target) (t : Target) : List Target := if t ∈ xs then xs else xs ++ [t]

/-- `Unique.update` / `set.update` -/
def updU (xs ys : List Target) : List Target := ys.foldl addU xs

def setNode (f : Name → Node) (n : Name) (v : Node) : Name → Node :=
  fun m => if m = n then v else f m

/-- has work or is marked running: the entries `_prune` keeps -/
def Node.live (nd : Node) : Bool := !nd.todo.isEmpty || !nd.doing.isEmpty || nd.running

/-- `schedule._prune` -/
def prune (s : St) : St := { s with que := s.que.filter (fun n => (s.node n).live) }

/-- what `organize` adds to the todo of node `n` for the requested `targets` -/
def wanted (g : Graph) (all : List Target) (targets : List Target) (n : Name) : List Target :=
  if g.kind n = .analysis then [ALL] else if ALL ∈ targets then all else targets

/-- the run id of a located node: work that is still pending is never moved back to an older
    run id (a request for a fresh id wins); otherwise the id of the request -/
def mergeRid (nd : Node) (rid : Option Nat) : Option Nat :=
  if nd.todo.isEmpty then rid
  else match rid, nd.runid with
    | some a, some b => some (max a b)
    | _, _ => none

/-- the body of `organize`'s loop for one located node (status: running stays running,
    anything else becomes waiting) -/
def organizeNode (g : Graph) (all targets : List Target) (rid : Option Nat) (n : Name) (nd : Node) :
    Node :=
  { nd with runid := mergeRid nd rid, status := if nd.running then .running else .waiting,
            todo := updU nd.todo (wanted g all targets n) }

def addQ (q : List Name) (n : Name) : List Name := if n ∈ q then q else q ++ [n]

/-- insert `n` behind every entry whose level is not larger (keeps the sort stable) -/
def insLevel (g : Graph) (n : Name) : List Name → List Name
  | [] => [n]
  | m :: ms => if g.level m ≤ g.level n then m :: insLevel g n ms else n :: m :: ms

/-- `sorted(..., key=lambda i: i.get('level'))` (stable) -/
def byLevel (g : Graph) (q : List Name) : List Name :=
  q.foldl (fun acc n => insLevel g n acc) []

/-- `schedule.organize(task_names, runid, targets, event)` -/
def organize (g : Graph) (s : St) (names : List Name) (rid : Option Nat) (targets : List Target) :
    St :=
  prune { s with
    node := names.foldl (fun f n => setNode f n (organizeNode g s.targets targets rid n (f n))) s.node
    que := byLevel g (names.foldl addQ s.que) }

/-- an all-targets marker anywhere in play between `x` and a queued ancestor empties `available` -/
def blockedAll (g : Graph) (s : St) (x : Name) : Bool :=
  (g.ancestry x).any fun a =>
    decide (a ∈ s.que) &&
      (decide (ALL ∈ (s.node x).todo) || decide (ALL ∈ (s.node a).todo) ||
        decide (ALL ∈ (s.node a).doing))

/-- target `t` of `x` is held back by a queued ancestor that has it pending or executing -/
def heldBy (g : Graph) (s : St) (x : Name) (t : Target) : Bool :=
  (g.ancestry x).any fun a =>
    decide (a ∈ s.que) && (decide (t ∈ (s.node a).todo) || decide (t ∈ (s.node a).doing))

/-- the `available` set of `next_job_batch` for job `x` (empty todo: the job is skipped) -/
def available (g : Graph) (s : St) (x : Name) : List Target :=
  if blockedAll g s x then []
  else (s.node x).todo.filter fun t => !decide (t ∈ (s.node x).doing) && !heldBy g s x t

/-- one iteration of the loop of `next_job_batch` over the queue -/
def releaseJob (g : Graph) (s : St) (x : Name) : St × List (Name × Target) :=
  let av := available g s x
  let nd := s.node x
  ({ s with
      node := setNode s.node x
        { nd with todo := nd.todo.filter (fun t => !decide (t ∈ av)), do_ := updU nd.do_ av,
                  doing := updU nd.doing av }
      inflight := s.inflight ++ av.map (fun t => (x, t)) },
   av.map (fun t => (x, t)))

def releaseAll (g : Graph) : St → List Name → St × List (Name × Target)
  | s, [] => (s, [])
  | s, x :: xs =>
    let r := releaseJob g s x
    let r' := releaseAll g r.1 xs
    (r'.1, r.2 ++ r'.2)

/-- the message(s) `farm.dispatch` queues for a released job: one per target in `do`
    (an analysis gets a single message with no target; regressions run as run 0) -/
def putMsgs (g : Graph) (x : Name) (nd : Node) (runid : Nat) : List Msg :=
  match g.kind x with
  | .analysis => [⟨x, ALL, runid⟩]
  | .task => nd.do_.map fun t => ⟨x, t, runid⟩
  | .regress => nd.do_.map fun t => ⟨x, t, 0⟩

/-- `farm.rerunid`: the run id the event carried, else a fresh one from `db.next()` -/
def jobRunid (s : St) (nd : Node) : Nat :=
  match nd.runid with
  | some r => r
  | none => s.nextRun

/-- what `db.next()` returns after `rerunid` -/
def nextAfter (s : St) (nd : Node) : Nat :=
  match nd.runid with
  | some _ => s.nextRun
  | none => s.nextRun + 1

/-- the `_jobs` loop of `farm.dispatch` for one released job: `rerunid`, status := running,
    `_put` per target, `do.clear()` -/
def putJob (g : Graph) (s : St) (x : Name) : St :=
  { s with
    node := setNode s.node x { s.node x with status := .running, do_ := [] }
    nextRun := nextAfter s (s.node x)
    msgs := s.msgs ++ putMsgs g x (s.node x) (jobRunid s (s.node x)) }

def dedupNames : List Name → List Name
  | [] => []
  | x :: xs => if x ∈ xs then dedupNames xs else x :: dedupNames xs

/-- `next_job_batch()` followed by the `_jobs` loop of `farm.dispatch`; returns the units
    moved `todo → doing` -/
def dispatch (g : Graph) (s : St) : St × List (Name × Target) :=
  if s.paused then (s, [])
  else
    let r := releaseAll g s s.que
    let jobs := byLevel g (dedupNames (r.2.map (·.1)))
    (jobs.foldl (putJob g) r.1, r.2)

/-- what `schedule.complete` does to the node: the target leaves `doing` (an all-targets
    completion clears it), and the status falls back to waiting once nothing is executing -/
def completeNode (t : Target) (nd : Node) : Node :=
  { nd with
    doing := if t = ALL then [] else nd.doing.filter (fun u => u != t)
    status := if (if t = ALL then [] else nd.doing.filter (fun u => u != t)).isEmpty then .waiting
              else nd.status }

/-- `schedule.complete` (queue / status part and the history append) -/
def complete (s : St) (x : Name) (t : Target) (o : Outcome) (rid : Nat) : St :=
  prune { s with node := setNode s.node x (completeNode t (s.node x)),
                 chron := s.chron ++ [⟨x, t, o, rid⟩] }

/-- the body of `_purge` for one node: pending work is withdrawn; what a running node is
    executing stays until its own result arrives -/
def purgeNode (t : Target) (nd : Node) : Node :=
  { nd with do_ := nd.do_.filter (fun u => u != t)
            doing := if nd.running then nd.doing else nd.doing.filter (fun u => u != t)
            todo := nd.todo.filter (fun u => u != t) }

/-- `schedule.purge(job, target)`: `_purge` over everything below `x`, then `_prune` -/
def purge (g : Graph) (s : St) (x : Name) (t : Target) : St :=
  prune { s with node := fun n => if n ∈ g.desc x then purgeNode t (s.node n) else s.node n }

/-- algorithms `schedule.update` organises when `x` reports the values `news` as new -/
def dependents (g : Graph) (x : Name) (news : List Val) : List Name :=
  (g.children x).filter fun c => c != x && (g.consumes c).any (fun v => decide (v ∈ news))

def fedBack (g : Graph) (news : List Val) : List Name :=
  news.filterMap g.feedbackTo

/-- insert by tag order, once -/
def insRank (g : Graph) (n : Name) : List Name → List Name
  | [] => [n]
  | m :: ms => if m = n then m :: ms else if g.rank n < g.rank m then n :: m :: ms
               else m :: insRank g n ms

/-- `sorted(task_names)` of a set of tags -/
def sortNames (g : Graph) (l : List Name) : List Name := l.foldl (fun acc n => insRank g n acc) []

/-- the `task_names` `schedule.update` hands to `organize`, in the order it hands them over -/
def updNames (g : Graph) (x : Name) (news : List Val) : List Name :=
  sortNames g (fedBack g news ++ dependents g x news)

/-- `schedule.update(values, node, rid)`; `news` = the values reported with `isnew = True`,
    `any` = the report carried at least one value (otherwise only an error is logged) -/
def update (g : Graph) (s : St) (x : Name) (t : Target) (rid : Nat) (news : List Val)
    (nonempty : Bool) : St :=
  if !nonempty then s
  else
    let fb := fedBack g news
    let rid' := if fb.isEmpty then some rid else none
    if news.isEmpty then organize g s [] rid' []
    else organize g s (updNames g x news) rid' [t]

inductive ReplyResult where
  | applied | lost
deriving Repr, DecidableEq

/-- `farm.Hand._res(msg)`: look the job up in the queue (an unknown job id is logged and the
    result dropped), `complete`, then `update` on success or `purge` otherwise -/
def reply (g : Graph) (s : St) (x : Name) (t : Target) (o : Outcome) (rid : Nat) (news : List Val)
    (nonempty : Bool) : St × ReplyResult :=
  let s0 := { s with inflight := s.inflight.erase (x, t) }
  if x ∈ s.que then
    let s1 := complete s0 x t o rid
    match o with
    | .success => (update g s1 x t rid news nonempty, .applied)
    | _ => (purge g s1 x t, .applied)
  else (s0, .lost)

/-- `schedule.defer` for one entry of `per` whose node has `due` events that are due now
    (each due event appends the node to the queue once more): nodes that are running or
    waiting are skipped, the others become delayed and, when due, waiting and queued -/
def deferNode (g : Graph) (s : St) (n : Name) (due : Nat) : St :=
  let nd := s.node n
  if nd.status = .running ∨ nd.status = .waiting then s
  else if due = 0 then { s with node := setNode s.node n { nd with status := .delayed } }
  else
    { s with
      node := setNode s.node n
        { nd with status := .waiting, todo := updU nd.todo (wanted g s.targets [ALL] n) }
      que := byLevel g (s.que ++ List.replicate due n) }

/-- `schedule.defer()` when not paused; `per` lists (node, number of its events due now) -/
def defer (g : Graph) (s : St) (per : List (Name × Nat)) : St :=
  if s.paused then s else prune (per.foldl (fun s p => deferNode g s p.1 p.2) s)

inductive Op where
  | organize (names : List Name) (rid : Option Nat) (targets : List Target)
  | dispatch
  | reply (x : Name) (t : Target) (o : Outcome) (rid : Nat) (news : List Val) (nonempty : Bool)
  | defer (per : List (Name × Nat))
  | pause (b : Bool)
  | addTarget (t : Target)
deriving Repr

def step (g : Graph) (s : St) : Op → St
  | .organize names rid targets => organize g s names rid targets
  | .dispatch => (dispatch g s).1
  | .reply x t o rid news ne => (reply g s x t o rid news ne).1
  | .defer per => defer g s per
  | .pause b => { s with paused := b }
  | .addTarget t => { s with targets := addU s.targets t }

def run (g : Graph) (s : St) (ops : List Op) : St := ops.foldl (step g) s

/-- `schedule.view_todo()` as (name, targets) pairs -/
def viewTodo (s : St) : List (Name × List Target) :=
  (s.que.filter fun n => !(s.node n).todo.isEmpty).map fun n => (n, (s.node n).todo)

/-- `schedule.view_doing()` -/
def viewDoing (s : St) : List (Name × List Target) :=
  (s.que.filter fun n => (s.node n).running).map fun n => (n, (s.node n).doing)

end DawgieVerif.Sched
