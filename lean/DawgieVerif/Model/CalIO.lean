import DawgieVerif.Model.Sexp
import DawgieVerif.Model.Cal

namespace DawgieVerif.Cal
open DawgieVerif

/-- `(range z0 n)` → for each of the `n` days from `z0`: `(y m d weekday daysInMonth daysFromCivil)`;
    `(dfc y m d)`, `(dim y m)`, `(valid y m d)`, `(leap y)` -/
def handle : List Sx → Sx
  | [Sx.atom "range", z0, n] =>
    match z0.int?, n.nat? with
    | some z0, some n =>
      Sx.list ((List.range n).map (fun (i : Nat) =>
        let z : Int := z0 + Int.ofNat i
        let c := civilFromDays z
        Sx.list [Sx.ofInt c.year, Sx.ofInt c.month, Sx.ofInt c.day, Sx.ofInt (weekday z),
                 Sx.ofInt (daysInMonth c.year c.month), Sx.ofInt (daysFromCivil c.year c.month c.day)]))
    | _, _ => Sx.err "range"
  | [Sx.atom "dfc", y, m, d] =>
    match y.int?, m.int?, d.int? with
    | some y, some m, some d => Sx.ofInt (daysFromCivil y m d)
    | _, _, _ => Sx.err "dfc"
  | [Sx.atom "dim", y, m] =>
    match y.int?, m.int? with
    | some y, some m => Sx.ofInt (daysInMonth y m)
    | _, _ => Sx.err "dim"
  | [Sx.atom "valid", y, m, d] =>
    match y.int?, m.int?, d.int? with
    | some y, some m, some d => Sx.ofBool (validDate y m d)
    | _, _, _ => Sx.err "valid"
  | [Sx.atom "leap", y] =>
    match y.int? with
    | some y => Sx.ofBool (isLeap y)
    | none => Sx.err "leap"
  | _ => Sx.err "cal-op"

end DawgieVerif.Cal
