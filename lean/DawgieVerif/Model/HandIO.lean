import DawgieVerif.Model.Sexp
import DawgieVerif.Generated.HandGen

/-! `(hand <suc>)` with `<suc>` one of `none | yes | no` → `(<state> (<call> ..))`: the state
`farm.Hand._translate` returns for that wire value and the scheduler calls `farm.Hand._res` then
makes, in order, according to the regenerated tables -/
namespace DawgieVerif.Hand
open DawgieVerif DawgieVerif.Sched

def suc? : Sx → Option Suc
  | Sx.atom "none" => some .none
  | Sx.atom "yes" => some .yes
  | Sx.atom "no" => some .no
  | _ => none

def outcomeSx : Outcome → Sx
  | .success => Sx.atom "success"
  | .failure => Sx.atom "failure"
  | .invalid => Sx.atom "invalid"

def actSx : Act → Sx
  | .complete => Sx.atom "complete"
  | .update => Sx.atom "update"
  | .purge => Sx.atom "purge"

def handle : List Sx → Sx
  | [s] =>
    match suc? s with
    | some s =>
      let o := translate Generated.HandGen.clauses Generated.HandGen.dflt s
      Sx.list [outcomeSx o,
               Sx.list ((acts Generated.HandGen.pre Generated.HandGen.cmp Generated.HandGen.thenA
                          Generated.HandGen.elseA o).map actSx)]
    | none => Sx.err "hand-suc"
  | _ => Sx.err "hand-op"

end DawgieVerif.Hand
