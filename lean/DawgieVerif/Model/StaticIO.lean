/-
Line protocol of C19 for the correspondence harness (`harness/c19.py`).

  (static (roots r…) (resolve (r p)…) (isdir (p b)…) (index (p q)…) (within (p r b)…)
          (isfile (p b)…) (again (p b)…))                     → (served p) | notfound | raised
      roots/paths are numbers, `b` is T/F; in place of a value `E` = that call raised
      OSError/RuntimeError (caught inside the try), `X` = it raised something else;
      a question the tables do not answer counts as `X` (`within`: F)
  (is <clients T/F> <cert T/F> <endpoint code points>)         → T | F      isSanctioned
  (wrap raise|T|F)                                             → T | F      sanctioned
  (render <ok T/F> <methodOk T/F>)                             → (ev …)
  (req <endpoint code points> <METHOD> <clients> <cert> default|raise|T|F)
                                                               → (ev …) | unregistered
  (table)     → ((<uri code points> (<METHOD>…) <mutating T/F>) …)
  (allaccess) → ((code points) …)
-/
import DawgieVerif.Model.Sexp
import DawgieVerif.Model.Static
import DawgieVerif.Model.Sanction

namespace DawgieVerif.StaticIO
open DawgieVerif DawgieVerif.Static DawgieVerif.Sanction DawgieVerif.Generated.Endpoints

def optNat? : Sx → Option (Option Nat)
  | Sx.atom "X" => some none
  | x => x.nat?.map some

def resNat? : Sx → Option (Static.Res Nat)
  | Sx.atom "X" => some .raised
  | Sx.atom "E" => some .failed
  | x => x.nat?.map .ok

def resBool? : Sx → Option (Static.Res Bool)
  | Sx.atom "X" => some .raised
  | Sx.atom "E" => some .failed
  | x => x.bool?.map .ok

def optBool? : Sx → Option (Option Bool)
  | Sx.atom "X" => some none
  | x => x.bool?.map some

/-- `(k v)` rows -/
def rows1? (x : Sx) (val : Sx → Option α) : Option (List (Nat × α)) := do
  let xs ← x.list?
  xs.mapM fun r => match r with
    | Sx.list [k, v] => do pure (← k.nat?, ← val v)
    | _ => none

def rows2? (x : Sx) : Option (List ((Nat × Nat) × Bool)) := do
  let xs ← x.list?
  xs.mapM fun r => match r with
    | Sx.list [p, d, b] => do pure ((← p.nat?, ← d.nat?), ← b.bool?)
    | _ => none

def find [BEq κ] (t : List (κ × α)) (k : κ) : Option α := (t.find? (·.1 == k)).map (·.2)

def section? (name : String) : List Sx → Option Sx
  | [] => none
  | Sx.list (Sx.atom n :: rest) :: more => if n == name then some (Sx.list rest) else section? name more
  | _ :: more => section? name more

def ofOutcome : Outcome Nat → Sx
  | .served p => Sx.list [Sx.atom "served", Sx.ofNat p]
  | .notFound => Sx.atom "notfound"
  | .raised => Sx.atom "raised"

def handleStatic (secs : List Sx) : Sx :=
  let r : Option Sx := do
    let roots ← (← section? "roots" secs).nats?
    let res ← rows1? (← section? "resolve" secs) resNat?
    let isd ← rows1? (← section? "isdir" secs) resBool?
    let idx ← rows1? (← section? "index" secs) resNat?
    let wit ← rows2? (← section? "within" secs)
    let isf ← rows1? (← section? "isfile" secs) optBool?
    let again ← rows1? (← section? "again" secs) optBool?
    let w : World Nat Unit Nat := {
      resolve := fun d _ => (find res d).getD .raised
      isDir := fun p => (find isd p).getD .raised
      resolveIndex := fun p => (find idx p).getD .raised
      join := fun d _ => 1000000 + d
      within := fun p d => (find wit (p, d)).getD false
      isFile := fun p => (find isf p).join
      isFileAgain := fun p => (find again p).join }
    pure (ofOutcome (static w roots ()))
  r.getD (Sx.err "static-tables")

def str? (x : Sx) : Option String := do
  let ns ← x.nats?
  pure (String.ofList (ns.map Char.ofNat))

def ofString (s : String) : Sx := Sx.list (s.toList.map fun c => Sx.ofNat c.toNat)

def ofEv : Ev → Sx
  | .checked true => Sx.atom "checkedT"
  | .checked false => Sx.atom "checkedF"
  | .denied => Sx.atom "denied"
  | .handler => Sx.atom "handler"
  | .methodError => Sx.atom "methoderror"

def hook? (clients cert : Bool) (uri : String) : Sx → Option Hook
  | Sx.atom "default" => some (defaultHook clients cert uri)
  | Sx.atom "raise" => some Hook.raised
  | Sx.atom "T" => some (Hook.returned true)
  | Sx.atom "F" => some (Hook.returned false)
  | _ => none

def handle : List Sx → Sx
  | Sx.atom "static" :: secs => handleStatic secs
  | [Sx.atom "is", cl, cert, ep] =>
    match cl.bool?, cert.bool?, str? ep with
    | some c, some k, some e => Sx.ofBool (isSanctioned c k e)
    | _, _, _ => Sx.err "is-args"
  | [Sx.atom "wrap", h] =>
    match hook? false false "" h with
    | some hk => Sx.ofBool (sanctioned hk)
    | none => Sx.err "wrap-args"
  | [Sx.atom "render", ok, m] =>
    match ok.bool?, m.bool? with
    | some o, some mm => Sx.list ((render o mm).map ofEv)
    | _, _ => Sx.err "render-args"
  | [Sx.atom "req", ep, Sx.atom method, cl, cert, h] =>
    match str? ep, cl.bool?, cert.bool? with
    | some uri, some c, some k =>
      match hook? c k uri h, registered.find? (·.uri == uri) with
      | some hk, some e => Sx.list ((request e method hk).map ofEv)
      | some _, none => Sx.atom "unregistered"
      | none, _ => Sx.err "req-hook"
    | _, _, _ => Sx.err "req-args"
  | [Sx.atom "table"] =>
    Sx.list (registered.map fun e =>
      Sx.list [ofString e.uri, Sx.list (e.methods.map Sx.atom), Sx.ofBool (mutating e)])
  | [Sx.atom "allaccess"] => Sx.list (allAccess.map ofString)
  | _ => Sx.err "c19-op"

end DawgieVerif.StaticIO
