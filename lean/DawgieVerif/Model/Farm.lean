/-
Model of the worker side of `pl/farm.py`: `Hand._reg`, `Hand.connectionLost`, the status poll of
`Hand._process`, `Hand.notify` / `notify_all`, the assignment loop of `dispatch`
(`_cluster_sort`, `_workers.pop(0).do(_cluster.pop(0))`), `Hand._res` (crew bookkeeping) and
`clear`, together with the two life-cycle facts the farm reads: `context.git_rev` and
`fsm.is_pipeline_active()`.

Connections are natural numbers.  `_workers_sort` (round robin over hosts) is the identity when
all workers come from one host, which is what the harness uses; the model keeps the list order.
`insights` is empty, so `_cluster_sort` is the stable sort by run id.
Core Lean only.
-/
import DawgieVerif.Model.Sched

namespace DawgieVerif.Farm
open DawgieVerif.Sched

/-- what the farm writes to a worker connection -/
inductive Wire where
  | task (m : Msg)
  | wait
  | abort
  | proceed
deriving Repr, DecidableEq

structure FSt where
  gitRev : Nat
  active : Bool
  stale : Bool                      -- the revision changed and `clear()` has not run yet
  archive : Bool                    -- `farm.ARCHIVE`: new data arrived since the last archive
  workers : List Nat                -- `_workers`: registered idle connections, in order
  cluster : List Msg                -- `_cluster`: task messages not yet handed out
  busy : List (Name × Target)       -- `_busy`
  regRev : Nat → Option Nat         -- ghost: revision the connection registered with
  conn : Nat → Bool                 -- ghost: connection alive (no connectionLost / loseConnection yet)
  holds : Nat → Option Msg          -- ghost: the task the connection was given
  log : List (Nat × Wire)           -- ghost: everything written, oldest first
  enq : List Msg                    -- ghost: every task message ever queued, oldest first

def FSt.init (rev : Nat) : FSt :=
  { gitRev := rev, active := false, stale := false, archive := false, workers := [], cluster := [], busy := [],
    regRev := fun _ => none, conn := fun _ => true, holds := fun _ => none, log := [], enq := [] }

def setF {β : Type} (f : Nat → β) (w : Nat) (v : β) : Nat → β := fun u => if u = w then v else f u

/-- `Hand._reg` -/
def register (s : FSt) (w rev : Nat) : FSt :=
  if rev ≠ s.gitRev then
    { s with log := s.log ++ [(w, .abort)], conn := setF s.conn w false }
  else
    { s with workers := s.workers ++ [w], regRev := setF s.regRev w (some rev) }

/-- `Hand.connectionLost` -/
def disconnect (s : FSt) (w : Nat) : FSt :=
  { s with workers := s.workers.filter (· != w), conn := setF s.conn w false }

/-- the status branch of `Hand._process` -/
def status (s : FSt) (w rev : Nat) : FSt :=
  { s with
    log := s.log ++ [(w, if rev ≠ s.gitRev ∨ s.active = false then .abort else .proceed)]
    conn := setF s.conn w false }

def insRun (m : Msg) : List Msg → List Msg
  | [] => [m]
  | y :: ys => if y.runid ≤ m.runid then y :: insRun m ys else m :: y :: ys

/-- `_cluster_sort` with empty `insights`: stable by run id -/
def sortCluster (l : List Msg) : List Msg := l.foldl (fun acc m => insRun m acc) []

/-- `_workers.pop(0).do(_cluster.pop(0))` for the first `min(len, len)` pairs -/
def assign : List Nat → List Msg → FSt → FSt
  | w :: ws, m :: ms, s =>
    assign ws ms
      { s with workers := ws, cluster := ms, busy := s.busy ++ [(m.job, m.target)],
               holds := setF s.holds w (some m), log := s.log ++ [(w, .task m)] }
  | _, _, s => s

/-- `notify_all` -/
def notifyAll (s : FSt) : FSt :=
  if s.active then { s with log := s.log ++ s.workers.map (fun w => (w, Wire.wait)) }
  else
    { s with log := s.log ++ s.workers.map (fun w => (w, Wire.abort))
             conn := fun u => if u ∈ s.workers then false else s.conn u
             workers := [] }

/-- the idle check of `dispatch`: with `ARCHIVE` armed and nothing released, queued or busy, the
    tick fires `fsm.archiving_trigger()`, after which the pipeline is no longer active -/
def preArchive (s : FSt) (new : List Msg) : FSt :=
  if s.archive = true ∧ new = [] ∧ s.busy = [] ∧ s.cluster = [] then { s with active := false } else s

/-- the rest of the tick: queue the new messages, sort, hand out, notify -/
def dispatchCore (s : FSt) (new : List Msg) : FSt :=
  notifyAll (assign s.workers (sortCluster (s.cluster ++ new))
    { s with cluster := sortCluster (s.cluster ++ new), enq := s.enq ++ new })

/-- `farm.dispatch()` from the farm's point of view; `new` are the task messages the scheduler
    part of the same call produced (`_put`) -/
def dispatch (s : FSt) (new : List Msg) : FSt :=
  if s.active = false then s else dispatchCore (preArchive s new) new

/-- crew bookkeeping of `Hand._res` -/
def reply (s : FSt) (x : Name) (t : Target) : FSt :=
  { s with busy := s.busy.filter (· != (x, t)) }

/-- `farm.clear()` -/
def clear (s : FSt) : FSt := { s with workers := [], cluster := [], busy := [], stale := false }

inductive FOp where
  | register (w rev : Nat)
  | disconnect (w : Nat)
  | status (w rev : Nat)
  | dispatch (new : List Msg)
  | notifyAll
  | reply (x : Name) (t : Target)
  | setRev (r : Nat)
  | clear
  | setActive (b : Bool)
  | setArchive (b : Bool)
deriving Repr

def step (s : FSt) : FOp → FSt
  | .register w rev => register s w rev
  | .disconnect w => disconnect s w
  | .status w rev => status s w rev
  | .dispatch new => dispatch s new
  | .notifyAll => notifyAll s
  | .reply x t => reply s x t
  | .setRev r => { s with gitRev := r, stale := true }
  | .clear => clear s
  | .setActive b => { s with active := b }
  | .setArchive b => { s with archive := b }

def run (s : FSt) (ops : List FOp) : FSt := ops.foldl step s

/-- What the property assumes about the environment.
    * a connection registers once, while alive, before it is given anything;
    * the life-cycle (C10) changes the revision only while inactive, and becomes active again
      only after `load` has run `farm.clear()`. -/
def OpOk (s : FSt) : FOp → Prop
  | .register w _ => s.conn w = true ∧ w ∉ s.workers ∧ s.holds w = none ∧ s.regRev w = none
  | .status w _ => w ∉ s.workers            -- a status poll comes on its own connection
  | .setRev _ => s.active = false
  | .setActive b => b = true → s.stale = false
  | _ => True

def ValidRun : FSt → List FOp → Prop
  | _, [] => True
  | s, op :: ops => OpOk s op ∧ ValidRun (step s op) ops

end DawgieVerif.Farm
