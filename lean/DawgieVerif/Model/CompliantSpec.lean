/-
C16 — the architecture, rule by rule and position by position, with none of the gate's control
flow (no walk, no callbacks, no exceptions, no call arities): what an algorithm-engine package
has to look like.  `Props/C16.lean` proves `verify p = true ↔ Compliant p`.
Core Lean only.
-/
import DawgieVerif.Model.Compliant

namespace DawgieVerif.Compliant

/-- the documented factory signatures (docstring of `rule_01`, comment above `dawgie.Factories`):
    analysis (prefix:str, ps_hint:int=0, runid:int=-1)
    events ()
    regress (prefix:str, ps_hint:int=0, target:str='__none__')
    task (prefix:str, ps_hint:int=0, runid:int=-1, target:str='__none__') -/
def documentedSig : Factory → List Param
  | .analysis => [⟨.empty, .str⟩, ⟨.int 0, .int⟩, ⟨.int (-1), .int⟩]
  | .events => []
  | .regress => [⟨.empty, .str⟩, ⟨.int 0, .int⟩, ⟨.str "__none__", .str⟩]
  | .task => [⟨.empty, .str⟩, ⟨.int 0, .int⟩, ⟨.int (-1), .int⟩, ⟨.str "__none__", .str⟩]

/-- "." is reserved: full names are built with `'.'.join` -/
def NoDot (s : String) : Prop := '.' ∉ s.toList

structure ValueOK (v : Value) : Prop where
  /-- rule 2 -/ base : v.isValue = true
  /-- rule 3 -/ version : v.verOk = true
  /-- rule 4 -/ key : NoDot v.key
  /-- rule 7 -/ pickles : v.picklable = true

structure SVOK (s : SV) : Prop where
  /-- rule 2 -/ base : s.isSV = true
  /-- rule 3 -/ nameImpl : s.nameImpl = true
  /-- rule 3 -/ version : s.verOk = true
  /-- rule 4 -/ name : NoDot s.name
  /-- rule 5 -/ keys : s.values ≠ []
  values : ∀ v ∈ s.values, ValueOK v

structure RefOK (r : Ref) : Prop where
  /-- rule 2 -/ isRef : r.isRef = true
  /-- rule 8 -/ factory : r.factoryFunc = true
  /-- rule 8 -/ impl : r.implOk = true
  /-- rule 8 -/ item : r.kind ≠ .alg → r.itemOk = true
  /-- rule 8 -/ feat : r.kind = .v → r.featOk = true
  /-- rule 11 -/ lookup : r.resolveRaises = false
  /-- rule 11 -/ alg : r.algFound = true
  /-- rule 11 -/ values : ∀ v ∈ r.vrefs, v.svFound = true ∧ v.featFound = true

/-- an Algorithm (`k = task`), Analyzer (`analysis`) or Regression (`regress`) -/
structure RoutineOK (k : Factory) (r : Routine) : Prop where
  /-- rule 2 -/ base : r.isBase = true
  /-- rule 3 -/ nameImpl : r.nameImpl = true
  /-- rule 3 -/ depsImpl : r.depsImpl = true
  /-- rule 3 -/ depsList : r.depsList = true
  /-- rule 3 -/ svsImpl : r.svsImpl = true
  /-- rule 3 -/ svsList : r.svsList = true
  /-- rule 3 -/ version : r.verOk = true
  /-- `feedback()` returns -/ feedbackReturns : r.fbOk = true
  /-- rule 4 -/ name : NoDot r.name
  /-- rule 9 -/ hasSV : r.svs ≠ []
  svs : ∀ s ∈ r.svs, SVOK s
  deps : ∀ x ∈ r.deps, RefOK x
  /-- rule 3: traits and variables are state-vector or value references -/
  depKinds : k ≠ .task → ∀ x ∈ r.deps, x.kind ≠ .alg
  /-- rule 6: an algorithm named in `previous()` lives under the module of its factory -/
  previousModule : k = .task → ∀ x ∈ r.deps, x.underFactory = true
  feedback : ∀ x ∈ r.feedback, RefOK x

/-- a task / analysis / regress factory and the bot it returns -/
structure BotOK (k : Factory) (f : Fac Bot) : Prop where
  /-- rule 1 -/ signature : f.params = documentedSig k
  returns : f.raises = false
  /-- rule 2 -/ base : f.content.isBase = true
  /-- rule 3 -/ listImpl : f.content.listImpl = true
  /-- rule 3 -/ routinesNonempty : f.content.routines ≠ []
  routines : ∀ r ∈ f.content.routines, RoutineOK k r

/-- rule 10: exactly one of boot, day, dom, dow is given, each given field has its documented type,
and there is a time of day unless the event is a boot event -/
structure MomentOK (e : Event) : Prop where
  one : (e.boot ≠ .none ∧ e.day = .none ∧ e.dom = .none ∧ e.dow = .none)
      ∨ (e.boot = .none ∧ e.day ≠ .none ∧ e.dom = .none ∧ e.dow = .none)
      ∨ (e.boot = .none ∧ e.day = .none ∧ e.dom ≠ .none ∧ e.dow = .none)
      ∨ (e.boot = .none ∧ e.day = .none ∧ e.dom = .none ∧ e.dow ≠ .none)
  day : e.day ≠ .bad
  dom : e.dom ≠ .bad
  dow : e.dow ≠ .bad
  time : e.boot = .none → e.time = .ok

structure EventsOK (f : Fac (List Event)) : Prop where
  /-- rule 1 -/ signature : f.params = documentedSig .events
  returns : f.raises = false
  /-- rule 2 -/ types : ∀ e ∈ f.content, e.isEvent = true
  /-- rule 10 -/ moments : ∀ e ∈ f.content, MomentOK e

/-- the package follows the architecture -/
structure Compliant (p : Pkg) : Prop where
  /-- rule 1: at least one factory -/
  offers : p.analysis.isSome ∨ p.events.isSome ∨ p.regress.isSome ∨ p.task.isSome
  analysis : ∀ f, p.analysis = some f → BotOK .analysis f
  events : ∀ f, p.events = some f → EventsOK f
  regress : ∀ f, p.regress = some f → BotOK .regress f
  task : ∀ f, p.task = some f → BotOK .task f

/-! ### positions of a package (vocabulary of the rejection theorems) -/

def botOf (p : Pkg) : Factory → Option (Fac Bot)
  | .analysis => p.analysis
  | .regress => p.regress
  | .task => p.task
  | .events => none

/-- `r` is handed out by the bot of factory `k` -/
def HasRoutine (p : Pkg) (k : Factory) (r : Routine) : Prop :=
  ∃ f, botOf p k = some f ∧ r ∈ f.content.routines

def HasSV (p : Pkg) (s : SV) : Prop := ∃ k r, HasRoutine p k r ∧ s ∈ r.svs

def HasValue (p : Pkg) (v : Value) : Prop := ∃ s, HasSV p s ∧ v ∈ s.values

/-- `x` is listed by some routine as an input or as feedback -/
def HasRef (p : Pkg) (x : Ref) : Prop := ∃ k r, HasRoutine p k r ∧ (x ∈ r.deps ∨ x ∈ r.feedback)

def HasEvent (p : Pkg) (e : Event) : Prop := ∃ f, p.events = some f ∧ e ∈ f.content

end DawgieVerif.Compliant
