/-
Model of the length-prefixed frame reassembly loop shared by
`pl.farm.Hand.dataReceived`, `db.shelve.comms.Worker.dataReceived`,
`pl.logger.LogSink.dataReceived` and the blocking `pl.message.receive`.
Core Lean only (no Mathlib) so the driver can run it.
-/
import DawgieVerif.Generated.Consts

namespace DawgieVerif.Frame

abbrev Bytes := List UInt8

/-- `struct.unpack('>I', b)[0]` : big-endian unsigned integer. -/
def beNat (bs : Bytes) : Nat := bs.foldl (fun acc b => acc * 256 + b.toNat) 0

/-- `struct.pack('>I', n)` for `n < 2^32`. -/
def be4 (n : Nat) : Bytes :=
  [UInt8.ofNat (n / 16777216 % 256), UInt8.ofNat (n / 65536 % 256),
   UInt8.ofNat (n / 256 % 256), UInt8.ofNat (n % 256)]

/-- width of the length prefix, regenerated from the `struct` format in the source -/
abbrev W : Nat := Generated.prefixWidth

/-- protocol object state: `__buf`, `__len` -/
structure St where
  buf : Bytes
  len : Option Nat
deriving Repr, DecidableEq

def init : St := ⟨[], none⟩

theorem W_pos : 0 < W := by decide

/-- the `while length <= len(buf)` loop; returns the residual state and the payloads
    handed to the message handler, in order -/
def loop (s : St) : St × List Bytes :=
  match _h : s.len with
  | none =>
    if _hle : W ≤ s.buf.length then
      loop ⟨s.buf.drop W, some (beNat (s.buf.take W))⟩
    else (s, [])
  | some n =>
    if _hle : n ≤ s.buf.length then
      let r := loop ⟨s.buf.drop n, none⟩
      (r.1, s.buf.take n :: r.2)
    else (s, [])
termination_by 2 * s.buf.length + (if s.len.isSome then 1 else 0)
decreasing_by
  · have := W_pos
    simp [_h, List.length_drop]; omega
  · simp [_h, List.length_drop]; omega

/-- `dataReceived(data)` -/
def feed (s : St) (data : Bytes) : St × List Bytes := loop ⟨s.buf ++ data, s.len⟩

/-- a sequence of `dataReceived` calls -/
def feedAll (s : St) : List Bytes → St × List Bytes
  | [] => (s, [])
  | c :: cs =>
    let r := feed s c
    let r' := feedAll r.1 cs
    (r'.1, r.2 ++ r'.2)

/-- `message.send`: length prefix then payload -/
def frame (m : Bytes) : Bytes := be4 m.length ++ m

/-- blocking `message.receive` on a byte stream: `none` when the stream ends early -/
def recv1 (stream : Bytes) : Option (Bytes × Bytes) :=
  if W ≤ stream.length then
    let n := beNat (stream.take W)
    let rest := stream.drop W
    if n ≤ rest.length then some (rest.take n, rest.drop n) else none
  else none

end DawgieVerif.Frame
