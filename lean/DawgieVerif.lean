import DawgieVerif.Model.Frame
