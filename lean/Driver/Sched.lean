import DawgieVerif.Model.Sexp
import DawgieVerif.Model.SchedIO
import DawgieVerif.Model.ReprocessIO
import DawgieVerif.Model.WorkerIO
import DawgieVerif.Model.HandIO

open DawgieVerif

def dispatch (x : Sx) : Sx :=
  match x with
  | Sx.list (Sx.atom "sched" :: rest) => Sched.handle rest
  | Sx.list (Sx.atom "repro" :: rest) => Reprocess.handle rest
  | Sx.list (Sx.atom "worker" :: rest) => Worker.handle rest
  | Sx.list (Sx.atom "hand" :: rest) => Hand.handle rest
  | _ => Sx.err "model"

partial def loop (h : IO.FS.Stream) (out : IO.FS.Stream) : IO Unit := do
  let line ← h.getLine
  if line.isEmpty then return ()
  let r := match Sx.parse line with
    | some x => dispatch x
    | none => Sx.err "parse"
  out.putStrLn r.render
  loop h out

def main : IO Unit := do
  let out ← IO.getStdout
  loop (← IO.getStdin) out
  out.flush
