#!/bin/sh
# Builds every Lean module of the framework from the files on disk (offline; no require, no fetch).
set -e
cd "$(dirname "$0")/lean"
lake build DawgieVerif 2>&1 | grep -v conda.cli.condarc | tail -5
