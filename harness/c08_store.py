"""Real-code driver of the shelve catalogue shared by C08 and C06.

Everything below runs `/repo/Python/dawgie/db/shelve` in-process against real `shelve`
files in a fresh temporary directory: `shelve.open/close` (so persistence and the rebuilt
indices are real), `util.append`, `shelve.add/update/remove/reset/trace/next/versions`,
and -- for the loop-back mode -- `model.Interface._update/_load` talking to a real
`comms.Worker` (`dataReceived`, `do`, `util.append`, `db.util.encode/move/decode`) through a
fake transport instead of a socket.  Only the listening socket of `DBSerializer.open`, the
client socket of `Connector.__do` / `comms.acquire` / `comms.release` and the reactor clock of
the lock poller are replaced."""
import os
import pickle
import shutil
import struct
import tempfile

import dawgie  # resolved to /repo/Python by common.use_repo() before this module is imported


class Val(dawgie.Value):
    """a picklable value: `payload` is the content, `_version_` the author version"""

    def __init__(self, ver=(1, 0, 0), payload=None):
        dawgie.Value.__init__(self)
        self._version_ = dawgie.VERSION(*ver)
        self.payload = payload

    def features(self):
        return []


class SV(dawgie.StateVector):
    def __init__(self, name, ver, values):
        dawgie.StateVector.__init__(self)
        self._name = name
        self._version_ = dawgie.VERSION(*ver)
        for k, v in values:
            self[k] = v

    def name(self):
        return self._name

    def view(self, caller, visitor):
        return None


class Alg(dawgie.Algorithm):
    def __init__(self, name, ver, svs):
        self._name = name
        self._version_ = dawgie.VERSION(*ver)
        self._svs = svs

    def name(self):
        return self._name

    def previous(self):
        return []

    def state_vectors(self):
        return self._svs


class Bot:
    """the part of dawgie.Task the data set uses"""

    def __init__(self, name, runid):
        self.name, self.runid, self.nv = name, runid, []

    def _name(self):
        return self.name

    def _runid(self):
        return self.runid

    def _ps_hint(self):
        return 0

    def new_values(self, value=None):
        if value:
            self.nv.append(value)
        return self.nv


class FakeTransport:
    def __init__(self):
        self.written = []
        self.closed = 0

    def write(self, b):
        self.written.append(bytes(b))

    def loseConnection(self):
        self.closed += 1


def _frames(chunks):
    buf = b''.join(chunks)
    out = []
    while len(buf) >= 4:
        n = struct.unpack('>I', buf[:4])[0]
        out.append(buf[4:4 + n])
        buf = buf[4 + n:]
    return out


class Store:
    def __init__(self):
        import dawgie
        import dawgie.context
        import dawgie.db
        import dawgie.db.shelve as shelve
        import dawgie.db.shelve.comms as comms
        import dawgie.db.shelve.model as model
        import dawgie.db.shelve.state as state
        import dawgie.db.shelve.util as util
        import dawgie.db.util as dbutil

        self.dawgie, self.context, self.db, self.shelve = dawgie, dawgie.context, dawgie.db, shelve
        self.comms, self.model, self.state, self.util, self.dbutil = comms, model, state, util, dbutil
        self.DBI = state.DBI
        self.root = None
        dawgie.context.db_impl = 'shelve'
        # no listening socket: the Worker is fed directly
        comms.DBSerializer.open = staticmethod(lambda: None)
        self.Val, self.SV, self.Alg, self.Bot = Val, SV, Alg, Bot
        self.log = []
        self.locks = 0

    # ------------------------------------------------------------------ life cycle
    def fresh(self):
        """a new, empty store in a new temporary directory (closed)"""
        self.discard()
        self.root = tempfile.mkdtemp(prefix='verif_store_')
        for d in ('db', 'dbs', 'stg'):
            os.mkdir(os.path.join(self.root, d))
        c = self.context
        c.db_path = os.path.join(self.root, 'db')
        c.db_name = 'cat'
        c.data_dbs = os.path.join(self.root, 'dbs')
        c.data_stg = os.path.join(self.root, 'stg')
        c.db_lock = False

    def discard(self):
        try:
            self.DBI().close()
        except Exception:  # pylint: disable=broad-except
            pass
        if self.root and os.path.isdir(self.root):
            shutil.rmtree(self.root, ignore_errors=True)
        self.root = None

    def open(self):
        self.shelve.open()

    def close(self):
        self.shelve.close()

    # ------------------------------------------------------------------ observations
    def tables(self):
        """{table: (dict name->id, index list)} of the five name tables, plus prime"""
        dbi = self.DBI()
        out = {}
        for n in ('target', 'task', 'alg', 'state', 'value'):
            t = getattr(dbi.tables, n)
            i = getattr(dbi.indices, n)
            out[n] = (dict(t), list(i))
        out['prime'] = {eval(k): v for k, v in dbi.tables.prime.items()}  # pylint: disable=eval-used
        return out

    # ------------------------------------------------------------------ loop-back (C06)
    def install_loopback(self):
        """`Connector.__do`, `comms.acquire`, `comms.release` -> a real `comms.Worker` on a fake
        transport: the request is pickled, framed and delivered through the real `dataReceived`,
        the reply is read back from the transport.  Every request/reply pair is kept in `self.log`."""
        comms = self.comms
        store = self
        import twisted.internet.reactor
        import twisted.internet.task

        def deliver(worker, request):
            msg = pickle.dumps(request, pickle.HIGHEST_PROTOCOL)
            n = len(worker.transport.written)
            worker.dataReceived(struct.pack('>I', len(msg)) + msg)
            return [pickle.loads(f) for f in _frames(worker.transport.written[n:])]

        def new_worker():
            w = comms.Worker(None)
            w.transport = FakeTransport()
            # the 3 s lock poller runs on a private clock, not on the global reactor
            w._Worker__looping_call.clock = twisted.internet.task.Clock()  # pylint: disable=protected-access
            return w

        def drop_timers():
            # `_do_acquire` asks the global reactor to stop its poller one second later; the reactor
            # never runs here, so the pending calls are simply discarded
            for dc in twisted.internet.reactor.getDelayedCalls():
                dc.cancel()

        def do(request):
            out = deliver(new_worker(), request)
            if len(out) != 1:
                raise RuntimeError(f'loop-back: {len(out)} replies for {request.func}')
            store.log.append((request, out[0]))
            return out[0]

        def acquire(name):
            w = new_worker()
            out = deliver(w, comms.COMMAND(comms.Func.acquire, None, None, name))
            drop_timers()
            if out != [comms.Mutex.unlock]:
                raise RuntimeError(f'loop-back: lock not granted: {out}')
            store.locks += 1
            return w

        def release(w):
            out = deliver(w, comms.COMMAND(comms.Func.release, None, None, None))
            store.locks -= 1
            return out[0] if out else None

        comms.Connector._Connector__do = staticmethod(do)  # pylint: disable=protected-access
        comms.acquire = acquire
        comms.release = release

    def interface(self, alg, bot, tn):
        return self.shelve.connect(alg, bot, tn)
