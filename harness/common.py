"""Shared machinery of the /verif checks: repo import guard, seeded PRNG, s-expressions,
Lean build / audit / driver, evidence and replay files, known findings."""
import contextlib
import fcntl
import hashlib
import json
import os
import random
import re
import subprocess
import sys
import time

VERIF = os.path.dirname(os.path.dirname(os.path.abspath(__file__)))
REPO = os.environ.get('VERIF_REPO', '/repo')
LEAN = os.path.join(VERIF, 'lean')
ALLOWED_AXIOMS = {'propext', 'Classical.choice', 'Quot.sound'}
FORBIDDEN = re.compile(
    r'\bsorry\b|\badmit\b|^\s*axiom\s|native_decide|bv_decide|implemented_by|\bunsafe\s|maxHeartbeats\s+0\b'
)


def use_repo():
    """Make `import dawgie` resolve to the working tree, never the installed release."""
    p = os.path.join(REPO, 'Python')
    if p in sys.path:
        sys.path.remove(p)
    sys.path.insert(0, p)
    for k in [k for k in sys.modules if k == 'dawgie' or k.startswith('dawgie.')]:
        del sys.modules[k]
    import dawgie  # pylint: disable=import-outside-toplevel

    assert dawgie.__file__.startswith(p + '/'), dawgie.__file__
    return dawgie


# ---------------------------------------------------------------- s-expressions
def sx(x):
    if isinstance(x, bool):
        return 'T' if x else 'F'
    if x is None:
        return 'N'
    if isinstance(x, int):
        return str(x)
    if isinstance(x, str):
        assert x and not re.search(r'[\s()]', x), repr(x)
        return x
    if isinstance(x, (bytes, bytearray)):
        return '(' + ' '.join(str(b) for b in x) + ')'
    if isinstance(x, (list, tuple)):
        return '(' + ' '.join(sx(i) for i in x) + ')'
    raise TypeError(type(x))


def parse_sx(s):
    toks = re.findall(r'\(|\)|[^\s()]+', s)
    stack = [[]]
    for t in toks:
        if t == '(':
            stack.append([])
        elif t == ')':
            top = stack.pop()
            stack[-1].append(top)
        else:
            stack[-1].append(t)
    assert len(stack) == 1 and len(stack[0]) == 1, s
    return stack[0][0]


# ---------------------------------------------------------------- Lean
@contextlib.contextmanager
def lake_lock():
    os.makedirs(os.path.join(LEAN, '.lake'), exist_ok=True)
    with open(os.path.join(LEAN, '.lake', 'verif.lock'), 'w') as f:
        fcntl.flock(f, fcntl.LOCK_EX)
        try:
            yield
        finally:
            fcntl.flock(f, fcntl.LOCK_UN)


def _clean(txt):
    return '\n'.join(
        l for l in txt.splitlines() if 'conda.cli.condarc' not in l
    )


def lake_build(targets, timeout=1500):
    """Returns (ok, log).  The kernel re-checks every module whose (generated) inputs changed."""
    with lake_lock():
        p = subprocess.run(
            ['lake', 'build'] + list(targets),
            cwd=LEAN,
            capture_output=True,
            text=True,
            timeout=timeout,
        )
    log = _clean(p.stdout + p.stderr)
    return p.returncode == 0, log


def prop_files(pid):
    d = os.path.join(LEAN, 'DawgieVerif', 'Props')
    return sorted(
        os.path.join(d, f)
        for f in os.listdir(d)
        if f.startswith(pid) and f.endswith('.lean')
    )


def strip_comments(src):
    src = re.sub(r'/-.*?-/', '', src, flags=re.S)
    return re.sub(r'--.*', '', src)


def theorems_of(pid):
    """(module, fully qualified theorem name) for every theorem of Props/<pid>*.lean"""
    out = []
    for f in prop_files(pid):
        src = strip_comments(open(f).read())
        mod = 'DawgieVerif.Props.' + os.path.basename(f)[:-5]
        ns = []
        for m in re.finditer(
            r'^\s*(namespace|end|theorem)\s+([A-Za-z0-9_.\']+)', src, flags=re.M
        ):
            kind, name = m.groups()
            if kind == 'namespace':
                ns.append(name)
            elif kind == 'end':
                if ns and ns[-1] == name:
                    ns.pop()
            else:
                out.append((mod, '.'.join(ns + [name])))
    return out


def import_closure(pid):
    """the Lean source files the property theorems of `pid` depend on (within DawgieVerif)"""
    root = os.path.join(LEAN, 'DawgieVerif')
    todo = list(prop_files(pid))
    seen = []
    while todo:
        f = todo.pop()
        if f in seen or not os.path.exists(f):
            continue
        seen.append(f)
        for m in re.finditer(r'^import\s+DawgieVerif\.([A-Za-z0-9_.]+)', open(f).read(), flags=re.M):
            todo.append(os.path.join(root, *m.group(1).split('.')) + '.lean')
    return seen


def forbidden_tokens(pid=None):
    hits = []
    if pid is None:
        files = [os.path.join(r, f) for r, _d, fs in os.walk(os.path.join(LEAN, 'DawgieVerif'))
                 for f in fs if f.endswith('.lean')]
    else:
        files = import_closure(pid)
    for path in files:
        src = strip_comments(open(path).read())
        for i, l in enumerate(src.splitlines()):
            if FORBIDDEN.search(l):
                hits.append(f'{os.path.basename(path)}:{i + 1}:{l.strip()}')
    return hits


def audit(pid, timeout=900):
    """`#print axioms` for every property theorem.  Returns {theorem: [axioms] | None}."""
    ths = theorems_of(pid)
    d = os.path.join(LEAN, '.lake', 'audit')
    os.makedirs(d, exist_ok=True)
    path = os.path.join(d, pid + '.lean')
    mods = sorted({m for m, _ in ths})
    with open(path, 'w') as f:
        for m in mods:
            f.write(f'import {m}\n')
        for _, t in ths:
            f.write(f'#print axioms {t}\n')
    with lake_lock():
        p = subprocess.run(
            ['lake', 'env', 'lean', path],
            cwd=LEAN,
            capture_output=True,
            text=True,
            timeout=timeout,
        )
    txt = _clean(p.stdout + p.stderr)
    res = {t: None for _, t in ths}
    for m in re.finditer(
        r"^'([^\n]+?)' depends on axioms: \[([^\]]*)\]", txt, flags=re.M | re.S
    ):
        res[m.group(1)] = [a.strip() for a in m.group(2).split(',') if a.strip()]
    for m in re.finditer(r"^'([^\n]+?)' does not depend on any axioms", txt, flags=re.M):
        res[m.group(1)] = []
    return res, txt


def leanchecker(pid, timeout=3000):
    mods = sorted({m for m, _ in theorems_of(pid)})
    with lake_lock():
        p = subprocess.run(
            ['lake', 'env', 'leanchecker'] + mods,
            cwd=LEAN,
            capture_output=True,
            text=True,
            timeout=timeout,
        )
    return p.returncode == 0, _clean(p.stdout + p.stderr)[-2000:]


# drivers that are also built as native executables (their imports are Mathlib-free)
NATIVE = {'Sched': 'sched_driver'}


def _driver_cmd(main):
    exe = NATIVE.get(main)
    if exe:
        with lake_lock():
            p = subprocess.run(['lake', 'build', exe], cwd=LEAN, capture_output=True, text=True)
        path = os.path.join(LEAN, '.lake', 'build', 'bin', exe)
        if p.returncode == 0 and os.path.exists(path):
            return [path]
    return ['lake', 'env', 'lean', '--run', f'Driver/{main}.lean']


def _drive_chunk(args):
    cmd, chunk, timeout = args
    p = subprocess.run(cmd, cwd=LEAN, input='\n'.join(chunk) + '\n', capture_output=True,
                       text=True, timeout=timeout)
    out = [l for l in p.stdout.splitlines() if 'conda.cli.condarc' not in l]
    if p.returncode != 0 or len(out) != len(chunk):
        raise DriverError(
            f'driver rc={p.returncode} lines={len(out)}/{len(chunk)}\n' + _clean(p.stderr)[-3000:]
        )
    return out


def driver(lines, main, timeout=3000):
    """Send s-expression lines to the Lean model driver `lean/Driver/<main>.lean` (interpreted, or
    its native build when listed in NATIVE); one output line per input line.  Large batches are
    split over several driver processes."""
    if not lines:
        return []
    cmd = _driver_cmd(main)
    if len(lines) < 4000:
        return _drive_chunk((cmd, lines, timeout))
    import concurrent.futures

    import multiprocessing

    # inside a worker of a harness's own process pool the pool already fills the cores
    n = 16 if multiprocessing.current_process().name == 'MainProcess' else 2
    step = (len(lines) + n - 1) // n
    chunks = [lines[i:i + step] for i in range(0, len(lines), step)]
    out = []
    with concurrent.futures.ThreadPoolExecutor(n) as ex:
        for part in ex.map(_drive_chunk, [(cmd, c, timeout) for c in chunks]):
            out.extend(part)
    return out


class DriverError(Exception):
    pass


# ---------------------------------------------------------------- results
class Result:
    """What one harness run found.  `hits`: property violations observed on the REAL code
    (each a dict with `sig` (canonical signature), `what`, `replay` (json-able));
    `diffs`: model/implementation disagreements (dict with `what`, `case`, `model`, `impl`)."""

    def __init__(self):
        self.evaluations = 0
        self.nontrivial = set()
        self.samples = []
        self.hits = []
        self.diffs = []
        self.stats = {}
        self.rule = ''
        self.assumptions = []
        self.traces = 0
        self.exhaustive = False

    def count(self, key, n=1):
        self.stats[key] = self.stats.get(key, 0) + n

    def case(self, canonical, nontrivial=True, sample=None):
        self.evaluations += 1
        if nontrivial:
            self.nontrivial.add(
                hashlib.sha1(repr(canonical).encode()).hexdigest()[:16]
            )
        if sample is not None and len(self.samples) < 5:
            self.samples.append(sample)

    def hit(self, sig, what, replay):
        """keeps, per signature, the smallest replay seen (cheap shrinking)"""
        size = len(json.dumps(replay, default=str))
        for h in self.hits:
            if h['sig'] == sig:
                if size < h['size']:
                    h.update(what=what, replay=replay, size=size)
                return
        self.hits.append({'sig': sig, 'what': what, 'replay': replay, 'size': size})

    def diff(self, what, case, model, impl):
        if len(self.diffs) < 20:
            self.diffs.append(
                {'what': what, 'case': case, 'model': model, 'impl': impl}
            )


def rng(seed, salt=''):
    return random.Random(f'{seed}:{salt}')


def known_findings():
    p = os.path.join(VERIF, 'known_findings.json')
    if not os.path.exists(p):
        return {'known': [], 'fixed': []}
    return json.load(open(p))


class Timer:
    def __init__(self):
        self.t0 = time.time()

    def __call__(self):
        return round(time.time() - self.t0, 2)
