"""C02 end to end -- the consequence clause on the REAL code path.

"Whenever changed values have content never stored before, the stored results at quiescence
equal those of a from-scratch run in dependency order."

Real here: `pl.scan.for_factories` on an engine package written to disk, `dag.Construct`,
`schedule.organize / next_job_batch / complete / update`, `farm.dispatch` -> `farm._put` ->
`farm.Hand.do` (task message written to a capturing transport), the worker side
`pl.worker.Context.run` -> `pl.version.record` -> `dawgie.Task.do` -> `ds.load(previous)` ->
`Algorithm.run` -> `ds.update()` (+ the metric update of `Task.measure`), the shelve backend
through the loop-back of harness/c08_store.py (`Interface._load/_update/__to_key`, `comms.Worker`
`dataReceived/do`, `util.append`, `db.util.encode/move/decode`: novelty is decided by the digests
in the store), `Task.new_values()`, the response message built as `pl/worker/cluster.py` builds it,
`farm.Hand._res` -> `schedule.complete` -> `schedule.update`; `dawgie.db.next/targets/add` are the
real shelve functions.
Stubbed: sockets (shelve loop-back, capturing hand transports), `Context.abort` (-> False),
`dawgie.context.fsm` (always active), `chronicle.append` (dropped), the four `dot` renderings of
`dag.Construct` (level walk kept), `md5sum`/`sha1sum` sub-processes (-> hashlib, same output
format).  Analyses/regressions are not generated (tasks only).

The engine: every output value is a deterministic digest of the CONTENTS the algorithm just
found in its declared inputs (loaded by the real `Task.do`) -- value 0 of all inputs, values >= 1 of
the first half only -- plus, for roots, an epoch the harness controls.  Epochs only grow, so a
changed value always has content never stored before (the premise of the clause)."""
import collections
import hashlib
import importlib
import importlib.util
import os
import pickle
import shutil
import struct
import sys
import tempfile
import types

from . import common

SIGS = ('C02:e2e-stale-result', 'C02:e2e-needless-rerun', 'C02:e2e-no-quiescence')
BIG_RUN = 10 ** 6


# ---------------------------------------------------------------------------- the value formula
PAD = ['']


def content(tag, k, vn, target, epoch, ins):
    """content of output value number `k` (named `vn`) of algorithm `tag` on `target`.
    `ins` = [(source tag, value name, content found)] in declaration order; `epoch` is None unless
    the algorithm is a root."""
    use = list(ins) if k == 0 else list(ins)[: len(ins) // 2]
    n = len(PAD[0])   # bulky values: a long constant head, the distinguishing part at the very end
    use = [tuple(c[n:] if isinstance(c, str) and n and c.startswith(PAD[0]) else c for c in u) for u in use]
    ep = None if epoch is None else epoch // (k + 1)
    h = hashlib.sha1(repr((tag, k, target, ep, use)).encode()).hexdigest()[:12]
    return f'{PAD[0]}{tag}.{vn}@{target}#{h}'


CONTENT_SRC = '''
import hashlib

PAD = ['']

def content(tag, k, vn, target, epoch, ins):
    use = list(ins) if k == 0 else list(ins)[: len(ins) // 2]
    n = len(PAD[0])   # bulky values: a long constant head, the distinguishing part at the very end
    use = [tuple(c[n:] if isinstance(c, str) and n and c.startswith(PAD[0]) else c for c in u) for u in use]
    ep = None if epoch is None else epoch // (k + 1)
    h = hashlib.sha1(repr((tag, k, target, ep, use)).encode()).hexdigest()[:12]
    return f'{PAD[0]}{tag}.{vn}@{target}#{h}'
'''

CTL_SRC = CONTENT_SRC + '''
EPOCHS = {}    # (tag, target) -> epoch, written by the harness
RUNLOG = []    # (tag, target, [(source tag, value, content seen)], epoch, outputs) appended by every run()
HOOK = [None]  # called as HOOK[0](tag, target) when an algorithm has loaded its inputs and not yet stored
FAIL = {}      # (tag, target) -> how the next run of that unit ends, written by the harness
SUBWRITES = []  # (tag, sub-target, contents) stored through Dataset.retarget()

def fail(tag, target):
    import dawgie
    kind = FAIL.pop((tag, target), None)
    if kind == 'runtime':
        raise RuntimeError('injected failure of ' + tag)
    if kind == 'invalid-in':
        raise dawgie.NoValidInputDataError('injected: ' + tag)
    if kind == 'invalid-out':
        raise dawgie.NoValidOutputDataError('injected: ' + tag)
    if kind == 'exit':
        raise SystemExit(3)          # library code calling sys.exit()
    if kind == 'interrupt':
        raise KeyboardInterrupt()
'''

TASK_SRC = '''
import importlib
import dawgie
from {pkg} import ctl

class V(dawgie.Value):
    def __init__(self, x=None):
        dawgie.Value.__init__(self)
        self.x = x
        self._version_ = dawgie.VERSION(1, 0, 0)
    def features(self):
        return []

class SV(dawgie.StateVector):
    def __init__(self, names):
        dawgie.StateVector.__init__(self)
        self._version_ = dawgie.VERSION(1, 0, 0)
        for n in names:
            self[n] = V()
    def name(self):
        return 'sv'
    def view(self, caller, visitor):
        return

class Base(dawgie.Algorithm):
    TAG = NAME = None
    VALUES = INPUTS = ()
    CHECKPOINT = False
    RETARGET = None
    def __init__(self):
        dawgie.Algorithm.__init__(self)
        self._version_ = dawgie.VERSION(1, 0, 0)
        self._sv = SV(self.VALUES)
        self._srcs = None
    def name(self):
        return self.NAME
    def _sources(self):
        # one instance per declared input; Task.do loads the stored values into them
        if self._srcs is None:
            self._srcs = []
            for (mod, cls, val, kind) in self.INPUTS:
                m = importlib.import_module(mod)
                self._srcs.append((getattr(m, kind), getattr(m, cls)(), val))
        return self._srcs
    def previous(self):
        out = []
        for fac, impl, val in self._sources():
            if val is None:
                out.append(dawgie.ALG_REF(factory=fac, impl=impl))
            else:
                out.append(dawgie.V_REF(factory=fac, impl=impl, item=impl._sv, feat=val))
        return out
    def state_vectors(self):
        return [self._sv]
    def where(self):
        return dawgie.Distribution.cluster
    def run(self, ds, ps):
        target = self.caller._target()
        ins = []
        for _fac, impl, val in self._sources():
            for vn in (impl.VALUES if val is None else [val]):
                ins.append((impl.TAG, vn, impl._sv[vn].x))
        epoch = None if self.INPUTS else ctl.EPOCHS.get((self.TAG, target), 0)
        outs = []
        ctl.RUNLOG.append((self.TAG, target, list(ins), epoch, outs))
        if ctl.HOOK[0] is not None:
            ctl.HOOK[0](self.TAG, target)   # the harness may let other units run here: a real overlap
        ctl.fail(self.TAG, target)
        self._sv[self.VALUES[0]] = V(ctl.content(self.TAG, 0, self.VALUES[0], target, epoch, ins))
        if self.CHECKPOINT:
            ds.update()    # check-point: do not lose the quick product if the rest crashes
        for k, vn in enumerate(self.VALUES[1:], 1):
            self._sv[vn] = V(ctl.content(self.TAG, k, vn, target, epoch, ins))
        outs.extend(self._sv[vn].x for vn in self.VALUES)
        ds.update()
        if self.RETARGET and '(' not in target:
            # the algorithm also files a result under a sub-target it creates itself
            sub_ds = ds.retarget(self.RETARGET, [])
            sub = sub_ds._tn()      # the name the database uses for the sub-target
            for k, vn in enumerate(self.VALUES):
                self._sv[vn] = V(ctl.content(self.TAG, k, vn, sub, epoch, ins))
            ctl.SUBWRITES.append((self.TAG, sub, [self._sv[vn].x for vn in self.VALUES]))
            sub_ds.update()
'''

ANZ_SRC = '''
class ABase(dawgie.Analyzer):
    TAG = NAME = None
    VALUES = INPUTS = ()
    def __init__(self):
        dawgie.Analyzer.__init__(self)
        self._version_ = dawgie.VERSION(1, 0, 0)
        self._sv = SV(self.VALUES)
        self._srcs = None
    def name(self):
        return self.NAME
    _sources = Base._sources
    def traits(self):
        return Base.previous(self)
    def state_vectors(self):
        return [self._sv]
    def where(self):
        return dawgie.Distribution.cluster
    def run(self, aspects):
        # everything the real Aspect collected: per declared input, per target that has it
        ins = []
        for fac, impl, val in self._sources():
            fsvn = '.'.join([dawgie.util.task_name(fac), impl.name(), 'sv'])
            for tn in sorted(aspects):
                if fsvn in aspects[tn]:
                    for vn in (impl.VALUES if val is None else [val]):
                        if vn in aspects[tn][fsvn]:
                            ins.append((impl.TAG, vn, tn, aspects[tn][fsvn][vn].x))
        outs = []
        ctl.RUNLOG.append((self.TAG, '__all__', list(ins), None, outs))
        if ctl.HOOK[0] is not None:
            ctl.HOOK[0](self.TAG, '__all__')
        ctl.fail(self.TAG, '__all__')
        for k, vn in enumerate(self.VALUES):
            self._sv[vn] = V(ctl.content(self.TAG, k, vn, '__all__', None, ins))
        outs.extend(self._sv[vn].x for vn in self.VALUES)
        aspects.ds().update()
'''

ALG_SRC = '''
class {cls}({base}):
    TAG = {tag!r}
    NAME = {name!r}
    VALUES = {values!r}
    INPUTS = {inputs!r}
    CHECKPOINT = {checkpoint!r}
    RETARGET = {retarget!r}
'''

BOT_SRC = '''
class Bot(dawgie.Task):
    def list(self):
        return [{algs}]

def task(prefix, ps_hint=0, runid=-1, target='__none__'):
    return Bot(prefix, ps_hint, runid, target)
'''

ABOT_SRC = '''
class ABot(dawgie.Analysis):
    def list(self):
        return [{algs}]

def analysis(prefix, ps_hint=0, runid=-1):
    return ABot(prefix, ps_hint, runid)
'''

_COUNTER = [0]


def cls_name(a):
    return 'A_' + a['name']


def write_engine(root, pkg, algs):
    """algs: [{'task','name','values':[..],'inputs':[(src index, value name | None)],'checkpoint':bool}]"""
    os.makedirs(os.path.join(root, pkg))
    open(os.path.join(root, pkg, '__init__.py'), 'w').close()
    with open(os.path.join(root, pkg, 'ctl.py'), 'w') as f:
        f.write(CTL_SRC)
    tasks = collections.OrderedDict()
    for a in algs:
        tasks.setdefault(a['task'], []).append(a)
    for t, members in tasks.items():
        os.makedirs(os.path.join(root, pkg, t))
        src = [TASK_SRC.format(pkg=pkg), ANZ_SRC]
        for a in members:
            ins = [(f"{pkg}.{algs[j]['task']}", cls_name(algs[j]), val, kind_of(algs[j])) for j, val in a['inputs']]
            src.append(ALG_SRC.format(cls=cls_name(a), tag=f"{a['task']}.{a['name']}", name=a['name'],
                                      values=list(a['values']), inputs=ins,
                                      checkpoint=bool(a.get('checkpoint')), retarget=a.get('retarget'),
                                      base='Base' if kind_of(a) == 'task' else 'ABase'))
        tk = [a for a in members if kind_of(a) == 'task']
        az = [a for a in members if kind_of(a) == 'analysis']
        if tk:
            src.append(BOT_SRC.format(algs=', '.join(cls_name(a) + '()' for a in tk)))
        if az:
            src.append(ABOT_SRC.format(algs=', '.join(cls_name(a) + '()' for a in az)))
        with open(os.path.join(root, pkg, t, '__init__.py'), 'w') as f:
            f.write('\n'.join(src))


def kind_of(a):
    return a.get('kind', 'task')


def tag_of(a):
    return f"{a['task']}.{a['name']}"


def expand_inputs(algs, a):
    """declared inputs at value level, in declaration order: [(source tag, value name)]"""
    out = []
    for j, val in a['inputs']:
        for vn in (algs[j]['values'] if val is None else [val]):
            out.append((tag_of(algs[j]), vn))
    return out


def from_scratch(algs, targets, epochs):
    """{(target, tag, value): content} of a run of everything in dependency order; an analysis reads,
    per declared input, every target that has it (its own results live under '__all__')"""
    out = {}
    for a in algs:  # inputs refer to earlier algorithms only
        if kind_of(a) == 'task':
            for t in targets:
                ins = []
                for j, val in a['inputs']:
                    src = algs[j]
                    st = '__all__' if kind_of(src) == 'analysis' else t
                    for vn in (src['values'] if val is None else [val]):
                        ins.append((tag_of(src), vn, out[(st, tag_of(src), vn)]))
                ep = None if a['inputs'] else epochs.get((tag_of(a), t), 0)
                for k, vn in enumerate(a['values']):
                    out[(t, tag_of(a), vn)] = content(tag_of(a), k, vn, t, ep, ins)
        else:
            ins = []
            for j, val in a['inputs']:
                src = algs[j]
                where = ['__all__'] if kind_of(src) == 'analysis' else sorted(targets)
                for tn in where:
                    for vn in (src['values'] if val is None else [val]):
                        ins.append((tag_of(src), vn, tn, out[(tn, tag_of(src), vn)]))
            for k, vn in enumerate(a['values']):
                out[('__all__', tag_of(a), vn)] = content(tag_of(a), k, vn, '__all__', None, ins)
    return out


# ---------------------------------------------------------------------------- environment
class _Wire:
    """transport of a farm hand: collects the task messages the farm writes"""

    def __init__(self, sink):
        self.buf, self.sink = b'', sink

    def write(self, b):
        self.buf += b
        while len(self.buf) >= 4:
            n = struct.unpack('>I', self.buf[:4])[0]
            if len(self.buf) < 4 + n:
                break
            msg = pickle.loads(self.buf[4:4 + n])
            self.buf = self.buf[4 + n:]
            if msg.type.name == 'task':
                self.sink.append(msg)

    def loseConnection(self):
        return


class _FSM:
    def is_pipeline_active(self):
        return True

    def waiting_on_crew(self):
        return False

    def archiving_trigger(self):
        return


def _fake_digest(cmd, *_a, **_k):
    """`md5sum -b f` / `sha1sum -b f` without a sub-process (same output format)"""
    h = hashlib.md5() if cmd[0] == 'md5sum' else hashlib.sha1()
    with open(cmd[-1], 'rb') as f:
        h.update(f.read())
    return f'{h.hexdigest()} *{cmd[-1]}\n'.encode()


class Patches:
    """module attributes replaced for the duration of the end-to-end scenarios"""

    def __init__(self):
        self.saved = []

    def set(self, obj, name, value):
        self.saved.append((obj, name, getattr(obj, name, _MISSING)))
        setattr(obj, name, value)

    def restore(self):
        for obj, name, old in reversed(self.saved):
            if old is _MISSING:
                try:
                    delattr(obj, name)
                except AttributeError:
                    pass
            else:
                setattr(obj, name, old)
        self.saved = []


_MISSING = object()


class World:
    """one engine, one fresh shelve store, the real scheduler and farm"""

    def __init__(self, store, algs, targets, order_rng, real_metrics=False):
        import dawgie
        import dawgie.context
        import dawgie.db
        import dawgie.pl.dag
        import dawgie.pl.farm
        import dawgie.pl.logger.chronicle
        import dawgie.pl.message
        import dawgie.pl.scan
        import dawgie.pl.schedule
        import dawgie.pl.worker
        import dawgie.security
        import dawgie.util
        from . import sched_env

        self.d, self.S, self.F, self.M = dawgie, dawgie.pl.schedule, dawgie.pl.farm, dawgie.pl.message
        self.store, self.algs, self.targets, self.rng = store, algs, list(targets), order_rng
        self.P = Patches()
        _COUNTER[0] += 1
        self.pkg = f'e2e{os.getpid()}_{_COUNTER[0]}'
        self.root = tempfile.mkdtemp(prefix='verif_c02e2e_')
        write_engine(self.root, self.pkg, algs)
        sys.path.insert(0, self.root)
        importlib.invalidate_caches()
        P, ctx = self.P, dawgie.context
        P.set(ctx, 'ae_base_package', self.pkg)
        P.set(ctx, 'ae_base_path', os.path.join(self.root, self.pkg))
        P.set(ctx, 'git_rev', 'rev0')
        P.set(ctx, 'allow_promotion', False)
        P.set(ctx, 'dumps', lambda: b'')
        P.set(ctx, 'fsm', _FSM())
        P.set(dawgie.security, '_myself', {'x': 1})  # TLS mode: no legacy handshake wrapper on Hand
        # the real facade functions (an earlier harness in this process may have replaced them)
        spec = importlib.util.find_spec('dawgie.db')
        fresh = importlib.util.module_from_spec(spec)
        spec.loader.exec_module(fresh)
        for n in ('targets', 'next', 'add', 'connect', 'update', 'reopen', 'close'):
            P.set(dawgie.db, n, getattr(fresh, n))
        P.set(dawgie.pl.logger.chronicle, 'append', lambda e: self.chronicle.append(dict(e)))
        P.set(dawgie.pl.worker.Context, 'abort', lambda self: False)
        P.set(dawgie.pl.dag.Construct, 'graph', staticmethod(sched_env._fast_graph))  # pylint: disable=protected-access
        P.set(self.store.dbutil, 'subprocess', types.SimpleNamespace(check_output=_fake_digest))
        if not real_metrics:
            # the process-metric state vector (14 values stored by every Task.measure and walked by every
            # load) is not part of the property: an empty one keeps the store traffic to the engine's values
            class NoMetrics(dawgie.StateVector):
                def __init__(self, *_a):
                    dawgie.StateVector.__init__(self)
                    self._version_ = dawgie.VERSION(1, 1, 1)

                def name(self):
                    return '__metric__'

                def view(self, caller, visitor):
                    return

            P.set(dawgie.util, 'MetricStateVector', NoMetrics)
        if hasattr(dawgie.pl.scan, 'reset'):
            dawgie.pl.scan.reset(self.pkg)
        self.factories = dawgie.pl.scan.for_factories(ctx.ae_base_path, self.pkg)
        self.ctl = importlib.import_module(self.pkg + '.ctl')
        # store
        store.fresh()
        store.open()
        for t in self.targets:
            dawgie.db.add(t)
        # scheduler and farm, clean
        S, F = self.S, self.F
        S.ae = dawgie.pl.dag.Construct(self.factories)
        S.promote.ae = S.ae
        S.promote.organize = S.organize
        S.promote.clear()
        S.que = []
        S.per = []
        S.err.clear()
        S.suc.clear()
        S.booted.clear()
        S.pipeline_paused = False
        F.clear()
        F._reject.clear()  # pylint: disable=protected-access
        F._repeat.clear()  # pylint: disable=protected-access
        F._agency[0] = None  # pylint: disable=protected-access
        F.ARCHIVE = False
        F.insights = {}
        self.tasks = []          # task messages written by the farm
        batch = S.next_job_batch.__wrapped__ if hasattr(S.next_job_batch, '__wrapped__') else S.next_job_batch

        def released():
            # a unit's entitlement to run is consumed when it is RELEASED (todo -> doing): whatever is
            # reported new after that makes it pending again and entitles the next run
            before = {tag: set(n.get('todo')) for tag, n in self.nodes.items()}
            jobs = batch()
            for j in jobs:
                for t in sorted(j.get('do')):
                    if (j.tag, t) not in self.cause:
                        self.flag('C02', 'e2e-needless-rerun',
                                  f'{j.tag}[{t}] was released although it was not requested and none '
                                  f'of its declared inputs was reported new since its last release')
                    self.cause.discard((j.tag, t))
                    # C03: one execution of a unit at a time
                    if (j.tag, t) in self.flying:
                        self.flag('C03', 'e2e-double-release', f'{j.tag}[{t}] released again while it is still executing')
                    # C01: nothing upstream pending or executing for this target (or an all-targets run)
                    for a in sorted(self.upstream[j.tag]):
                        busy = before[a] | {u for (x, u) in self.flying if x == a}
                        if t in busy or '__all__' in busy or (t == '__all__' and busy):
                            self.flag('C01', 'e2e-release-with-busy-upstream',
                                      f'{j.tag}[{t}] released while upstream {a} has {sorted(busy)} pending/executing')
                    self.flying.add((j.tag, t))
            return jobs

        released.__wrapped__ = batch
        P.set(S, 'next_job_batch', released)
        self.cause = set()       # (tag, target) with a reason to run: requested or an input reported new
        self.flying = set()      # released and not yet answered (the harness's own count)
        self.handed = set()      # task message written to a worker and not yet answered
        self.upstream = {}
        for i, a in enumerate(algs):
            up = set()
            for j, _v in a['inputs']:
                up |= {tag_of(algs[j])} | self.upstream[tag_of(algs[j])]
            self.upstream[tag_of(a)] = up
        self.want = {'C02'}
        self.executed = []       # (tag, target, run id, [new value names])
        self.failed = []         # (tag, target, success flag of the answer | None when no answer came)
        self.worker_deaths = []  # (tag, target, exception that left cluster.execute)
        self.chronicle = []      # what schedule.complete handed to chronicle.append
        self.on_result = None    # monitor called around the farm's handling of every worker answer
        self.problems = []
        self.epochs = {}         # (root tag, target) -> epoch of its source data
        self.later_bumps = []    # root re-runs still to come
        self.early = 0.0         # probability that the next re-run happens while a descendant is executing
        self.hold = 0.0          # probability that a unit is slow (its message is worked a round later)
        self.cycle = 0           # > 0: epochs wrap around (changed contents that WERE stored before)
        self.overlaps = 0
        self.roots = {tag_of(a) for a in algs if not a['inputs']}
        self.kinds = {tag_of(a): kind_of(a) for a in algs}
        self._depth = 0
        self._cur = {}
        self.ctl.HOOK[0] = self._loaded
        self.trace = []          # ops for Model/Reprocess.lean, in the order the real code performed them
        self.obs = []            # what the real code showed after each of them
        self.outside = None      # why this history is outside the model (None: inside)
        if any(a.get('checkpoint') for a in algs):
            self.outside = 'an execution that stores more than once (check-pointing) is outside Model/Reprocess'
        if any(a.get('retarget') for a in algs):
            self.outside = 'sub-targets created while running (Dataset.retarget) are outside Model/Reprocess'
        self.stored_contents = set()   # every content an algorithm handed to the store so far
        self.nodes = {}
        for r in S.ae.at:
            for n in r.iter():
                self.nodes[n.tag] = n
        self.consumers = {}      # 'task.alg.sv.val' -> [tags declaring it]
        for a in algs:
            for st, vn in expand_inputs(algs, a):
                self.consumers.setdefault(f'{st}.sv.{vn}', []).append(tag_of(a))

    def close(self):
        try:
            self.store.discard()
        finally:
            self.F.clear()
            self.S.que = []
            self.P.restore()
            if self.root in sys.path:
                sys.path.remove(self.root)
            for k in [k for k in sys.modules if k == self.pkg or k.startswith(self.pkg + '.')]:
                del sys.modules[k]
            shutil.rmtree(self.root, ignore_errors=True)

    # ------------------------------------------------------------------ driving
    def snapshot(self):
        return {'que': sorted({j.tag for j in self.S.que}),
                'nodes': {tag: (sorted(n.get('todo')), sorted(n.get('doing')), n.get('status').name)
                          for tag, n in self.nodes.items()}}

    def note(self, op, **obs):
        self.trace.append(op)
        self.obs.append(dict(obs, snap=self.snapshot()))

    def flag(self, prop, sig, what):
        if prop in self.want:
            self.problems.append((f'{prop}:{sig}', what))

    def check_idle(self):
        """C04 at rest: nothing pending, nothing executing => empty queue, empty views, nobody busy"""
        S, F = self.S, self.F
        if S.que or S.view_todo() or S.view_doing() or F._busy:  # pylint: disable=protected-access
            self.flag('C04', 'e2e-idle-not-idle',
                      f'nothing is pending or executing but queue={[j.tag for j in S.que]} '
                      f'view_todo={S.view_todo()} view_doing={S.view_doing()} busy={F._busy}')  # pylint: disable=protected-access

    def units_of(self, tag, target):
        """the units of `tag` a new value / request for `target` concerns"""
        if self.kinds[tag] == 'analysis':
            return [(tag, '__all__')]
        if target == '__all__':
            return [(tag, t) for t in self.targets]
        return [(tag, target)]

    def organize(self, tags, targets):
        for tag in tags:
            for t in targets:
                self.cause.update(self.units_of(tag, t))
        self.S.organize(list(tags), None, list(targets), 'explicit request')
        self.note(('org', list(tags), list(targets)))

    def apply_bump(self, group):
        """new source data for some roots, and the explicit request to re-run them"""
        for tag, t in group:
            self.epochs[(tag, t)] = self.epochs.get((tag, t), 0) + 1
            if self.cycle:
                self.epochs[(tag, t)] %= self.cycle   # source data that comes BACK to an earlier state
            self.ctl.EPOCHS[(tag, t)] = self.epochs[(tag, t)]
            self.note(('poke', tag, t, self.epochs[(tag, t)]))
            self.organize([tag], [t])

    def _loaded(self, tag, target):
        """an algorithm has loaded its inputs (real Task.do) and has not stored yet"""
        e = self.ctl.RUNLOG[-1]
        self._cur[(tag, target)] = e
        self.note(('read', tag, target), ins=list(e[2]), epoch=e[3])
        if (self._depth == 0 and self.later_bumps and tag not in self.roots
                and self.rng.random() < self.early):
            # overlap: the roots are re-run, and their results handled, while this unit is executing
            self._depth += 1
            try:
                self.overlaps += 1
                self.apply_bump(self.later_bumps.pop(0))
                self.tick()
                mine = [m for m in self.tasks if m.jobid in self.roots]
                self.tasks[:] = [m for m in self.tasks if m.jobid not in self.roots]
                for m in mine:
                    self.work(m)
            finally:
                self._depth -= 1

    def tick(self):
        F = self.F
        ipv4 = collections.namedtuple('IPV4', ['host', 'port'])
        while len(F._workers) < 8:  # pylint: disable=protected-access
            hand = F.Hand(ipv4('sim', 0))
            hand.transport = _Wire(self.tasks)
            F._workers.append(hand)  # pylint: disable=protected-access
        n0 = len(self.tasks)
        F.dispatch()
        # C03: a released unit is handed to at most one worker
        for m in self.tasks[n0:]:
            unit = (m.jobid, m.target or '__all__')
            if unit in self.handed:
                self.flag('C03', 'e2e-handed-twice',
                          f'a second task message for {unit[0]}[{unit[1]}] (run {m.runid}) was written to a worker '
                          f'while the first one is still being executed')
            if unit not in self.flying:
                self.flag('C03', 'e2e-message-without-release',
                          f'a task message for {unit[0]}[{unit[1]}] was written although the unit was not released')
            self.handed.add(unit)
        self.note(('disp',))

    def work(self, m):
        """what pl/worker/cluster.py:execute does with a task message, then the farm's `_res`"""
        d, M = self.d, self.M
        unit = (m.jobid, m.target or '__all__')
        self._cur.pop(unit, None)
        r, raw = self.real_worker(m)
        nv = list(r.values or []) if r is not None and r.type.name == 'response' else []
        if r is None or r.type.name != 'response' or r.success is not True:
            self.failed.append((m.jobid, m.target or '__all__', None if r is None else r.success))
        new = sorted({n for n, isnew in nv if isnew and '__metric__' not in n})
        self.executed.append((m.jobid, m.target, m.runid, ['.'.join(n.split('.')[2:]) for n in new]))
        # what the report entitles to run: every declared consumer of a value reported new, for that target
        for n in new:
            parts = n.split('.')
            for c in self.consumers.get('.'.join(parts[2:]), []):
                self.cause.update(self.units_of(c, parts[1]))
        e = self._cur.pop(unit, None)
        if r is None or r.type.name != 'response' or r.success is not True or e is None:
            self.outside = self.outside or f'{m.jobid}[{m.target}] did not succeed with one run() call'
        else:
            self.note(('write', m.jobid, m.target or '__all__', list(e[4])), new=list(new))
        # what the worker sent back reaches the farm the way it does in production: as the first bytes on a
        # new connection, through the real Hand.dataReceived
        before = self.snapshot() if self.on_result else None
        n_hist = len(self.chronicle)
        if raw:
            hand = self.F.Hand(collections.namedtuple('IPV4', ['host', 'port'])('sim', 1))
            hand.transport = _Wire([])
            hand.dataReceived(raw)
        self.flying.discard(unit)
        self.handed.discard(unit)
        # C02: results filed under a sub-target (Dataset.retarget) are reported under THAT target: every declared
        # consumer of a value whose content was never stored before is pending for the sub-target afterwards
        e0 = self._cur.get(unit)
        if e0 is not None:
            fresh0 = [c for c in e0[4] if c not in self.stored_contents]
            self.stored_contents.update(e0[4])
        while self.ctl.SUBWRITES:
            stag, sub, contents = self.ctl.SUBWRITES.pop(0)
            a = [x for x in self.algs if tag_of(x) == stag][0]
            for vn, c in zip(a['values'], contents):
                isnew = c not in self.stored_contents
                self.stored_contents.add(c)
                if not isnew:
                    continue
                for cons in self.consumers.get(f'{stag}.sv.{vn}', []):
                    n = self.nodes[cons]
                    if self.kinds[cons] == 'task' and sub not in n.get('todo') and sub not in n.get('doing'):
                        self.flag('C02', 'e2e-consumer-not-scheduled',
                                  f'{stag} stored a never-stored content of {vn} under the sub-target {sub} '
                                  f'(Dataset.retarget) but its consumer {cons} is not pending for {sub}: todo '
                                  f'{sorted(n.get("todo"))}')
                    self.cause.add((cons, sub))
        # C03: the result is applied exactly once: one history entry for the unit, and it is no longer executing
        mine = [e for e in self.chronicle[n_hist:] if e['task'] == m.jobid and e['target'] == unit[1]]
        if raw and len(mine) != 1:
            self.flag('C03', 'e2e-result-not-applied-once',
                      f'the answer for {m.jobid}[{unit[1]}] (run {m.runid}) wrote {len(mine)} history entries')
        if raw and unit[1] in self.nodes[m.jobid].get('doing') and unit not in self.flying:
            self.flag('C03', 'e2e-result-not-applied-once',
                      f'{m.jobid}[{unit[1]}] was answered but is still listed as executing')
        if self.on_result:
            self.on_result(self, m, r, before, self.snapshot(), self.chronicle[n_hist:])
        self.note(('reply', m.jobid, m.target or '__all__', m.runid))

    def real_worker(self, m):
        """the real pl.worker.cluster.execute for one task message: registers, waits, gets the task, runs it
        and sends its answer; sockets are in-memory, the database stays the loop-back store"""
        d, M = self.d, self.M
        import dawgie.pl.worker.cluster as cluster
        inbox = [M.dumps(M.make(typ=M.Type.wait)), M.dumps(m)]
        sent_back = []   # local: executions nest (a unit that has loaded lets its roots run and report)

        class Sock:
            def __init__(self, first):
                self.first, self.buf = first, b''

            def sendall(self, b):
                if not self.first:
                    sent_back.append(bytes(b))   # second connection: the answer

            def recv(self, n):
                if not self.buf:
                    data = inbox.pop(0)
                    self.buf = struct.pack('>I', len(data)) + data
                out, self.buf = self.buf[:n], self.buf[n:]
                return out

            def close(self):
                return

        socks = []

        def connect(_address):
            socks.append(Sock(first=not socks))
            return socks[-1]

        P = Patches()
        P.set(d.security, 'connect', connect)
        P.set(d.pl.worker, 'load_context_with_overrides', lambda _c: None)
        P.set(d.pl.worker, 'LOGGING', types.SimpleNamespace(reassign=lambda _h: None))
        P.set(d.db, 'reopen', lambda: None)
        P.set(d.db, 'close', lambda: None)
        P.set(cluster.signal, 'signal', lambda *_a: None)
        try:
            cluster.execute(('sim', 0), 1, 0, d.context.git_rev)
        except BaseException as e:  # pylint: disable=broad-except
            # SystemExit / KeyboardInterrupt leaving the worker: the process dies after its finally block
            self.worker_deaths.append((m.jobid, m.target or '__all__', type(e).__name__))
        finally:
            P.restore()
        if not sent_back:
            return None, b''
        raw = b''.join(sent_back)
        return M.loads(raw[4:]), raw

    def pending(self):
        return {j.tag: (sorted(j.get('todo')), sorted(j.get('doing'))) for j in self.S.que
                if j.get('todo') or j.get('doing')}

    def drain(self, limit=200):
        for _ in range(limit):
            self.tick()
            if not self.tasks:
                return not self.pending()
            batch, self.tasks[:] = list(self.tasks), []
            self.rng.shuffle(batch)  # completion order
            if self.hold and len(batch) > 1:
                # slow units: their messages are worked in a later round, after whatever happens meanwhile
                slow = {id(m) for m in batch[1:] if self.rng.random() < self.hold}
                self.tasks.extend(m for m in batch if id(m) in slow)
                batch = [m for m in batch if id(m) not in slow]
            for m in batch:
                if self.later_bumps and self.early and self.rng.random() < self.early / 2:
                    self.apply_bump(self.later_bumps.pop(0))   # new source data arrives at any time
                self.work(m)
        return False

    def script(self, steps):
        """explicit control of who is slow: ('tick',), ('work', tag), ('bump', tag, target)"""
        for st in steps:
            if st[0] == 'tick':
                self.tick()
            elif st[0] == 'bump':
                self.apply_bump([(st[1], st[2])])
            elif st[0] == 'org':
                self.organize([st[1]], [st[2]])   # an explicit request for any algorithm
            elif st[0] == 'work':
                m = [m for m in self.tasks if m.jobid == st[1] and (len(st) < 3 or (m.target or '__all__') == st[2])][0]
                self.tasks.remove(m)
                self.work(m)

    # ------------------------------------------------------------------ observation
    def stored(self):
        """{(target, tag, value): latest stored content} through the real Dataset.load path"""
        out = {}
        for a in self.algs:
            m = importlib.import_module(f"{self.pkg}.{a['task']}")
            for t in (self.targets if kind_of(a) == 'task' else ['__all__']):
                bot = m.task(a['task'], 0, BIG_RUN, t) if kind_of(a) == 'task' else m.analysis(a['task'], 0, BIG_RUN)
                impl = [x for x in bot.list() if x.name() == a['name']][0]
                self.d.db.connect(impl, bot, t).load()
                for vn in a['values']:
                    out[(t, tag_of(a), vn)] = impl.state_vectors()[0][vn].x
        return out


# ---------------------------------------------------------------------------- one scenario
def run_scenario(store, sc, seed=0, model=None, probe=None, want=None):
    """sc = {'algs': [...], 'targets': [...], 'bumps': [[root tag, target], ...] or [[...], [...]] groups}
    returns (problems, stats)"""
    import random
    import warnings
    import logging
    warnings.simplefilter('ignore')
    logging.disable(logging.CRITICAL)  # "New run ID ..." is logged at critical level
    algs, targets = sc['algs'], sc['targets']
    w = World(store, algs, targets, random.Random(f'{seed}:order'), bool(sc.get('real_metrics')))
    if want:
        w.want = set(want)
    stats = collections.Counter()
    try:
        w.later_bumps = [[tuple(x) for x in (b if b and isinstance(b[0], list) else [b])] for b in sc['bumps']]
        w.early = float(sc.get('overlap', 0))
        w.hold = float(sc.get('hold', 0))
        w.cycle = int(sc.get('cycle', 0))
        PAD[0] = w.ctl.PAD[0] = 'bulk:' + 'x' * int(sc['bulk']) if sc.get('bulk') else ''
        w.organize([tag_of(a) for a in algs], targets)
        w.script([tuple(s) for s in sc.get('script', [])])
        if probe is not None:
            probe(w)
        what, b = 'initial', None
        while True:
            n0 = len(w.executed)
            quiet = w.drain()
            stats['executions'] += len(w.executed) - n0
            stats['phases'] += 1
            if not quiet:
                for prop in ('C02', 'C04'):
                    w.flag(prop, 'e2e-no-quiescence',
                           f'after {what} {b}: still pending {w.pending()} / queued {len(w.tasks)}')
                break
            w.check_idle()
            if 'C02' not in w.want:
                if not w.later_bumps:
                    break
                what, b = 'bump', w.later_bumps.pop(0)
                w.apply_bump(b)
                continue
            want = from_scratch(algs, targets, w.epochs)
            got = w.stored()
            w.note(('check',), stored=dict(got), want=dict(want))
            bad = sorted(k for k in want if got.get(k) != want[k])
            if bad and w.cycle:
                stats['stale-outside-the-premise'] += 1   # expected: the clause does not apply
            elif bad:
                k = bad[0]
                ran = [(e[0], e[1]) for e in w.executed[n0:]]
                w.problems.append(('C02:e2e-stale-result',
                                   f'after {what} {b} at quiescence {len(bad)} stored value(s) differ from a from-scratch '
                                   f'run, e.g. {k[1]}.sv.{k[2]} on {k[0]}: stored {str(got.get(k))[-60:]!r}, from scratch {str(want[k])[-60:]!r}; '
                                   f'ran in this phase: {ran}'))
                break
            if not w.later_bumps:
                break
            what, b = 'bump', w.later_bumps.pop(0)
            w.apply_bump(b)
        stats['overlaps'] += w.overlaps
        stats['new_reports'] += sum(len(e[3]) for e in w.executed)
        if model is not None:
            from . import c02_model
            model.append(c02_model.case_of(w, sc) if w.outside is None else {'outside': w.outside})
        return w.problems, stats
    finally:
        PAD[0] = ''
        w.close()
        logging.disable(logging.NOTSET)


# ---------------------------------------------------------------------------- scenarios
def seed3_shape():
    """P check-points its quick product p, then saves again with q; CP consumes only P.sv.p
    (value level), CQ only P.sv.q, D everything of CP"""
    algs = [
        {'task': 'demo', 'name': 'P', 'values': ['p', 'q'], 'inputs': [], 'checkpoint': True},
        {'task': 'demo', 'name': 'CP', 'values': ['cp'], 'inputs': [(0, 'p')]},
        {'task': 'demo', 'name': 'CQ', 'values': ['cq', 'c2'], 'inputs': [(0, 'q')]},
        {'task': 'other', 'name': 'D', 'values': ['d', 'e'], 'inputs': [(1, None), (2, 'cq')]},
    ]
    return {'algs': algs, 'targets': ['T1', 'T2'], 'real_metrics': True,
            'bumps': [['demo.P', 'T1'], ['demo.P', 'T1'], ['demo.P', 'T2']]}


def overlap_shape():
    """root -> B -> C; the root is re-run, and its result handled, while B is executing what it
    loaded from the previous run (a real overlap through the algorithm's HOOK)"""
    algs = [
        {'task': 'demo', 'name': 'R', 'values': ['r'], 'inputs': [], 'checkpoint': False},
        {'task': 'demo', 'name': 'B', 'values': ['b'], 'inputs': [(0, 'r')], 'checkpoint': False},
        {'task': 'demo', 'name': 'C', 'values': ['c'], 'inputs': [(1, 'b')], 'checkpoint': False},
    ]
    return {'algs': algs, 'targets': ['T1'], 'overlap': 1.0,
            'bumps': [['demo.R', 'T1'], ['demo.R', 'T1'], ['demo.R', 'T1']]}


def slow_sibling_shape():
    """two roots P, Q and N consuming both.  P and Q start in the same run; P finishes, gets new
    source data, is re-run (a newer run id) and finishes again while Q of the OLD run is still
    executing; only then Q reports.  (Before the repair of schedule.organize N then ran once with the old
    run id, loaded P's old version by exact run id and left a stale result at quiescence.)"""
    algs = [
        {'task': 'demo', 'name': 'P', 'values': ['p'], 'inputs': [], 'checkpoint': False},
        {'task': 'demo', 'name': 'Q', 'values': ['q'], 'inputs': [], 'checkpoint': False},
        {'task': 'demo', 'name': 'N', 'values': ['n'], 'inputs': [(0, 'p'), (1, 'q')], 'checkpoint': False},
    ]
    return {'algs': algs, 'targets': ['T1'], 'bumps': [['demo.Q', 'T1']],
            'script': [['tick'], ['work', 'demo.P'], ['bump', 'demo.P', 'T1'], ['tick'], ['work', 'demo.P'],
                       ['work', 'demo.Q']]}


def aspect_shape():
    """tasks R -> B per target, the analysis A over B of every target, and the task C that consumes A:
    a new value of B on ONE target must re-run A, and A's new value must re-run C on EVERY target"""
    algs = [
        {'task': 'demo', 'name': 'R', 'values': ['r'], 'inputs': [], 'checkpoint': False},
        {'task': 'demo', 'name': 'B', 'values': ['b', 'b2'], 'inputs': [(0, 'r')], 'checkpoint': False},
        {'task': 'agg', 'name': 'A', 'values': ['a'], 'inputs': [(1, 'b')], 'checkpoint': False, 'kind': 'analysis'},
        {'task': 'demo', 'name': 'C', 'values': ['c'], 'inputs': [(2, 'a'), (1, 'b2')], 'checkpoint': False},
    ]
    return {'algs': algs, 'targets': ['T1', 'T2'],
            'bumps': [['demo.R', 'T1'], ['demo.R', 'T2'], ['demo.R', 'T1']]}


def retarget_shape():
    """B files a second result under a sub-target it creates (Dataset.retarget); C consumes B"""
    algs = [
        {'task': 'demo', 'name': 'R', 'values': ['r'], 'inputs': [], 'checkpoint': False},
        {'task': 'demo', 'name': 'B', 'values': ['b'], 'inputs': [(0, 'r')], 'checkpoint': False, 'retarget': 'x'},
        {'task': 'demo', 'name': 'C', 'values': ['c'], 'inputs': [(1, 'b')], 'checkpoint': False},
    ]
    return {'algs': algs, 'targets': ['T1'], 'bumps': [['demo.R', 'T1'], ['demo.R', 'T1']]}


def gen_scenario(r, small=False, aspects=False):
    n = r.choice([3, 4, 4, 5] if small else [3, 4, 5, 6])
    tasks = r.sample(['ta', 'tb'], r.choice([1, 2]))
    algs = []
    for i in range(n):
        vals = ['v%d' % k for k in range(r.choice([1, 2, 2, 3]))]
        ins = []
        if i and r.random() < 0.85:
            for j in r.sample(range(i), min(i, r.choice([1, 1, 2, 3]))):
                ins.append((j, None if r.random() < 0.3 else r.choice(algs[j]['values'])))
        algs.append({'task': r.choice(tasks), 'name': 'a%d' % i, 'values': vals, 'inputs': ins,
                     'checkpoint': len(vals) > 1 and r.random() < 0.4})
    # at least one check-pointing algorithm whose early value has a value-level consumer
    cps = [i for i, a in enumerate(algs[:-1]) if len(a['values']) > 1]
    if cps:
        i = r.choice(cps)
        algs[i]['checkpoint'] = True
        j = r.choice(range(i + 1, n))
        if (i, algs[i]['values'][0]) not in algs[j]['inputs']:
            algs[j]['inputs'] = [(i, algs[i]['values'][0])] + [x for x in algs[j]['inputs'] if x[0] != i]
    else:
        algs[0]['values'] = ['v0', 'v1']
        algs[0]['checkpoint'] = True
        algs[1]['inputs'] = [(0, 'v0')]
    if aspects:
        # some algorithms with inputs are analyses (aspects over every target, results under '__all__')
        for a in algs:
            if a['inputs'] and r.random() < 0.4:
                a['kind'] = 'analysis'
                a['checkpoint'] = False
    targets = r.sample(['T1', 'T2', 'T3'], r.choice([1, 2, 2] if small else [1, 2, 2, 3]))
    roots = [tag_of(a) for a in algs if not a['inputs']]
    bumps = []
    for _ in range(r.choice([2, 3] if small else [2, 3, 4])):
        if r.random() < 0.2 and len(roots) * len(targets) > 1:
            pool = [(x, t) for x in roots for t in targets]
            bumps.append([list(p) for p in r.sample(pool, 2)])   # two re-runs requested together
        else:
            bumps.append([r.choice(roots), r.choice(targets)])
    return {'algs': [dict(a, inputs=[list(x) for x in a['inputs']]) for a in algs], 'targets': targets, 'bumps': bumps}


# ---------------------------------------------------------------------------- small scope, every interleaving
SMALL = {
    'two-roots': ([{'task': 'demo', 'name': 'P', 'values': ['p'], 'inputs': [], 'checkpoint': False},
                   {'task': 'demo', 'name': 'Q', 'values': ['q'], 'inputs': [], 'checkpoint': False},
                   {'task': 'demo', 'name': 'N', 'values': ['n'], 'inputs': [(0, 'p'), (1, 'q')], 'checkpoint': False}],
                  ['T1']),
    'chain': ([{'task': 'demo', 'name': 'R', 'values': ['r'], 'inputs': [], 'checkpoint': False},
               {'task': 'demo', 'name': 'B', 'values': ['b'], 'inputs': [(0, 'r')], 'checkpoint': False},
               {'task': 'demo', 'name': 'C', 'values': ['c'], 'inputs': [(1, 'b')], 'checkpoint': False}],
              ['T1']),
    'diamond': ([{'task': 'demo', 'name': 'R', 'values': ['r'], 'inputs': [], 'checkpoint': False},
                 {'task': 'demo', 'name': 'S', 'values': ['s'], 'inputs': [], 'checkpoint': False},
                 {'task': 'demo', 'name': 'B', 'values': ['b'], 'inputs': [(0, 'r')], 'checkpoint': False},
                 {'task': 'demo', 'name': 'D', 'values': ['d'], 'inputs': [(2, 'b'), (1, 's')], 'checkpoint': False}],
                ['T1']),
    'checkpoint': ([{'task': 'demo', 'name': 'P', 'values': ['p', 'q'], 'inputs': [], 'checkpoint': True},
                    {'task': 'demo', 'name': 'CP', 'values': ['cp'], 'inputs': [(0, 'p')], 'checkpoint': False},
                    {'task': 'demo', 'name': 'CQ', 'values': ['cq'], 'inputs': [(0, 'q')], 'checkpoint': False}],
                   ['T1']),
    'root-aspect': ([{'task': 'demo', 'name': 'R', 'values': ['r'], 'inputs': [], 'checkpoint': False},
                     {'task': 'agg', 'name': 'A', 'values': ['a'], 'inputs': [(0, 'r')], 'checkpoint': False,
                      'kind': 'analysis'},
                     {'task': 'demo', 'name': 'C', 'values': ['c'], 'inputs': [(1, 'a')], 'checkpoint': False}],
                    ['T1', 'T2']),
}


def _small_task(args):
    """one node of the search tree: replay the prefix on a fresh world, list what can happen next, then let
    everything finish and compare the store with a from-scratch run"""
    name, prefix, seed, max_bumps, want_model, want = args
    from .c08_store import Store
    global _SMALL_STORE  # pylint: disable=global-statement
    try:
        store = _SMALL_STORE
    except NameError:
        store = _SMALL_STORE = Store()
        store.install_loopback()
    algs, targets = SMALL[name]
    sc = {'algs': algs, 'targets': targets, 'bumps': [], 'script': [list(s) for s in prefix]}
    avail = []

    def probe(w):
        used = sum(1 for s in prefix if s[0] == 'bump')
        if used < max_bumps:
            for tag in sorted(w.roots):
                for t in targets:
                    avail.append(('bump', tag, t))
        if not any(s[0] == 'org' for s in prefix):
            for a_ in algs:
                if a_['inputs'] and kind_of(a_) == 'task':
                    avail.append(('org', tag_of(a_), targets[0]))
        if not prefix or prefix[-1][0] != 'tick':
            avail.append(('tick',))
        for m in sorted(w.tasks, key=lambda m: (m.jobid, m.target or '__all__')):
            a = ('work', m.jobid, m.target or '__all__')
            if a not in avail:
                avail.append(a)

    model = [] if want_model else None
    problems, stats = run_scenario(store, _norm(sc), seed, model=model, probe=probe, want=want)
    return name, prefix, avail, problems, (model[0] if model else None), stats['executions']


def exhaustive(ctx, res, depth=6, max_bumps=2, want=None):
    """every sequence of {new source data for a root, dispatch tick, let one waiting unit run} up to `depth`
    on three small engines, each followed by a run to quiescence"""
    import multiprocessing
    from . import c02_model

    lean = bool(ctx.get('lean')) and not want
    frontier = [(name, ()) for name in SMALL]
    cases = []
    with multiprocessing.Pool(16) as pool:
        for level in range(depth + 1):
            jobs = [(name, prefix, ctx['seed'], max_bumps, lean, want) for name, prefix in frontier]
            nxt = []
            for name, prefix, avail, problems, case, execs in pool.imap_unordered(_small_task, jobs, chunksize=8):
                sc = {'algs': SMALL[name][0], 'targets': SMALL[name][1], 'bumps': [],
                      'script': [list(s) for s in prefix]}
                for sig, what in problems:
                    res.hit(sig, what, {'kind': 'e2e', 'scenario': sc, 'seed': ctx['seed']})
                res.case(('e2e-small', name, prefix), nontrivial=execs > 3)
                res.count('e2e-small:histories')
                res.count(f'e2e-small:depth-{level}')
                if case is not None and not case.get('outside'):
                    cases.append(case)
                if level < depth:
                    nxt.extend((name, prefix + (a,)) for a in avail)
            frontier = nxt
    if lean and cases:
        outs = common.driver([c['line'] for c in cases], 'Sched')
        for c, o in zip(cases, outs):
            c02_model.compare(res, c, o)
            res.traces += 1


def run_monitors(ctx, res, want):
    """the end-to-end scenarios for the scheduling properties (C01, C03, C04): real scheduler, farm, worker
    (cluster.execute), store and run ids from the real db.next(); only the monitors of `want` report"""
    from .c08_store import Store
    store = Store()
    store.install_loopback()
    r = common.rng(ctx['seed'], 'e2e-' + '-'.join(sorted(want)))
    thorough = ctx['tier'] == 'thorough' or ctx.get('escalate')
    scenarios = [overlap_shape(), slow_sibling_shape(), aspect_shape(), dict(aspect_shape(), overlap=0.7, hold=0.4)]
    for i in range(40 if thorough else 4):
        sc = gen_scenario(r, small=not thorough, aspects=i % 2 == 1)
        scenarios.append(dict(sc, overlap=0.6 if i % 2 == 0 else 0, hold=0.4 if i % 3 else 0))
    for sc in scenarios:
        problems, stats = run_scenario(store, _norm(sc), ctx['seed'], want=want)
        for sig, what in problems:
            res.hit(sig, what, {'kind': 'e2e', 'scenario': sc, 'seed': ctx['seed'], 'want': sorted(want)})
        res.case(('e2e', tuple(sorted(want)), repr(sc)), nontrivial=stats['executions'] > len(sc['algs']))
        res.count('e2e:scenario')
        res.count('e2e:unit-executions', stats['executions'])
        res.count('e2e:overlaps', stats['overlaps'])
    if thorough:
        exhaustive(ctx, res, depth=5, want=want)
    res.assumptions.append('end to end: the real pl.worker.cluster.execute on in-memory sockets, real shelve store '
                           'through the loop-back; fsm, chronicle file, md5sum/sha1sum sub-processes are replaced')


def replay_monitors(inp, res, want):
    from .c08_store import Store
    store = Store()
    store.install_loopback()
    inp = inp.get('input', inp)
    problems, _stats = run_scenario(store, _norm(inp['scenario']), inp.get('seed', 0), want=want)
    for sig, what in problems:
        res.hit(sig, what, inp)


def _norm(sc):
    sc = dict(sc)
    sc['algs'] = [dict(a, inputs=[tuple(x) for x in a['inputs']]) for a in sc['algs']]
    return sc


def run(ctx, res):
    """quick: the seed shape + 5 generated scenarios; thorough: ~150"""
    from .c08_store import Store
    store = Store()
    store.install_loopback()
    r = common.rng(ctx['seed'], 'C02e2e')
    thorough = ctx['tier'] == 'thorough' or ctx.get('escalate')
    scenarios = [seed3_shape()] + [gen_scenario(r, small=not thorough) for _ in range(150 if thorough else 5)]
    # engines with analyses (aspects over every target, results under '__all__')
    ra = common.rng(ctx['seed'], 'C02e2e-aspects')
    scenarios += [aspect_shape(), dict(aspect_shape(), overlap=0.7, hold=0.4)]
    # values of more than 1 MiB that differ only at their very end (novelty is decided on the whole content)
    scenarios.append(dict(overlap_shape(), overlap=0, bulk=(1 << 20) + 4096))
    scenarios.append(retarget_shape())
    for i in range(60 if thorough else 4):
        sc = gen_scenario(ra, small=not thorough, aspects=True)
        scenarios.append(dict(sc, overlap=0.5 if i % 2 else 0, hold=0.4 if i % 3 == 0 else 0))
    for i, sc in enumerate(scenarios):
        problems, stats = run_scenario(store, _norm(sc), ctx['seed'])
        for sig, what in problems:
            res.hit(sig, what, {'kind': 'e2e', 'scenario': sc, 'seed': ctx['seed']})
        res.case(('e2e', repr(sc)), nontrivial=stats['executions'] > len(sc['algs']) * len(sc['targets']),
                 sample={'e2e': sc, 'executions': stats['executions']} if i == 1 else None)
        res.count('e2e:scenario')
        res.count('e2e:unit-executions', stats['executions'])
        res.count('e2e:quiescence-comparisons', stats['phases'])
        res.count('e2e:values-reported-new', stats['new_reports'])
        res.count('e2e:overlaps', stats['overlaps'])
    # correspondence with Model/Reprocess.lean (theorem C02.quiescent_fresh): the same scenarios with one
    # ds.update() per run (check-pointing = several stores by one execution is outside the model)
    if ctx.get('lean'):
        from . import c02_model
        model = []
        plain = [overlap_shape(), slow_sibling_shape(), aspect_shape(), dict(aspect_shape(), overlap=0.7, hold=0.4)]
        for i, sc in enumerate(scenarios):
            base = dict(sc, algs=[dict(a, checkpoint=False) for a in sc['algs']])
            plain.append(dict(base, overlap=0.6 if i % 2 == 0 else 0, hold=0.4 if i % 3 else 0))
            if thorough:
                plain.append(dict(base, overlap=0 if i % 2 == 0 else 1.0, hold=0.5))
        # outside the premise: source data that returns to an earlier state -> contents stored before;
        # the clause does not apply, the model must still predict the real store exactly
        plain.insert(4, dict(overlap_shape(), overlap=0, cycle=2))
        if thorough:
            plain.extend(dict(sc, cycle=2) for sc in plain[5:42:3])
        for sc in (plain if thorough else plain[:11]):
            problems, stats = run_scenario(store, _norm(sc), ctx['seed'], model=model)
            for sig, what in problems:
                res.hit(sig, what, {'kind': 'e2e', 'scenario': sc, 'seed': ctx['seed']})
            res.case(('e2e-plain', repr(sc)), nontrivial=stats['executions'] > len(sc['algs']) * len(sc['targets']))
            res.count('e2e:scenario-single-store')
            res.count('e2e:overlaps', stats['overlaps'])
            res.count('e2e:stale-outside-the-premise(expected)', stats['stale-outside-the-premise'])
        inside = [c for c in model if not c['outside']]
        res.count('model:histories-outside', len(model) - len(inside))
        outs = common.driver([c['line'] for c in inside], 'Sched')
        for c, o in zip(inside, outs):
            c02_model.compare(res, c, o)
            res.traces += 1
    if thorough:
        exhaustive(ctx, res, depth=int(os.environ.get('VERIF_C02_DEPTH', '6')))
    res.assumptions.append('C02 end to end: sockets, Context.abort, fsm, chronicle and the md5sum/sha1sum '
                           'sub-processes are replaced (hashlib); tasks only, no analyses')


def replay(inp, res):
    from .c08_store import Store
    store = Store()
    store.install_loopback()
    inp = inp.get('input', inp)
    problems, _stats = run_scenario(store, _norm(inp['scenario']), inp.get('seed', 0))
    for sig, what in problems:
        res.hit(sig, what, inp)
