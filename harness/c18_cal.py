"""Validation of lean/DawgieVerif/Model/Cal.lean against CPython's `datetime`/`calendar`
(shared by C18 and C20): civil date, weekday, days-in-month and the inverse conversion for
every day of a range."""
import calendar
import datetime as _dt

from . import common

EPOCH_DATE = _dt.date(1970, 1, 1)
EPOCH = _dt.datetime(1970, 1, 1, tzinfo=_dt.UTC)
US = _dt.timedelta(microseconds=1)


def us(dt):
    """micro-seconds since 1970-01-01T00:00:00Z of a timezone-aware datetime"""
    return (dt - EPOCH) // US


def from_us(n):
    return EPOCH + _dt.timedelta(microseconds=n)


class _AnyDatetime(type):
    """the stand-in datetime class must still recognise real datetimes in isinstance()"""

    def __instancecheck__(cls, obj):
        return isinstance(obj, _dt.datetime)


def fake_datetime(clock):
    """subclass of datetime whose now() is read from `clock.now`; installed as an attribute of the
    module under test, the real datetime module is never touched"""

    class FakeDT(_dt.datetime, metaclass=_AnyDatetime):
        @classmethod
        def now(cls, tz=None):  # pylint: disable=arguments-differ
            return clock.now

    return FakeDT


def fake_datetime_module(clock):
    """namespace standing in for `import datetime` inside pl/schedule.py"""
    import types

    return types.SimpleNamespace(datetime=fake_datetime(clock), UTC=_dt.UTC, timedelta=_dt.timedelta,
                                 time=_dt.time, date=_dt.date, timezone=_dt.timezone)


def day_number(d):
    return (d - EPOCH_DATE).days


def lines_for(first, last, chunk=4000):
    """driver lines covering every day from `first` to `last` (dates, inclusive)"""
    z0, z1 = day_number(first), day_number(last)
    out = []
    z = z0
    while z <= z1:
        n = min(chunk, z1 - z + 1)
        out.append((z, n, common.sx(['cal', 'range', z, n])))
        z += n
    return out


def compare(res, pid, z0, n, reply):
    rows = common.parse_sx(reply)
    if len(rows) != n:
        res.diff('Cal.range length', {'z0': z0, 'n': n}, len(rows), n)
        return
    for i, row in enumerate(rows):
        z = z0 + i
        d = EPOCH_DATE + _dt.timedelta(days=z)
        want = [d.year, d.month, d.day, d.weekday(), calendar.monthrange(d.year, d.month)[1], z]
        got = [int(x) for x in row]
        if got != want:
            res.diff('Model/Cal vs datetime (year month day weekday days-in-month day-number)',
                     {'day_number': z, 'date': d.isoformat()}, got, want)
            return
    res.count('cal:days-validated', n)


def spot_lines(r, k):
    """random far-away days inside datetime's range, one per line"""
    out = []
    for _ in range(k):
        z = r.randrange(day_number(_dt.date(1, 1, 1)), day_number(_dt.date(9999, 12, 31)) + 1)
        out.append((z, 1, common.sx(['cal', 'range', z, 1])))
    return out
