"""C08 -- catalogue integrity and exact addressing: correspondence + monitor.

Real code driven (in-process, real `shelve` files in a fresh temp dir): `shelve.open/close`,
`shelve.add`, `shelve.update` (registration), `comms.Worker.do(Func.upd)` -> `util.append`
(the five calls of `Interface.__to_key`), the prime table of `DBI()`, `shelve.remove`,
`shelve.reset`, `shelve.trace`, `shelve.next`, `shelve.versions`, `shelve._prime_keys`,
`tools.worm.consume`; in the loop-back mode additionally `Interface._update` end to end.

Monitor = the property over what the real code did, computed from a shadow catalogue that is
filled from the operation arguments and the returned ids only (it never calls `construct`,
`dissect` or `subset`).  Correspondence = the same history sent to `Model/Store.lean`."""
import itertools
import json

from . import common
from .c08_store import Store, FakeTransport

LEAN_TARGETS = ['DawgieVerif.Model.StoreIO']

MANIFEST = dict(
    text='Lean theorems over an executable model of the shelve catalogue (five name tables with their id '
         'indices, primary table, construct/dissect on character lists), for every history of opens, closes, '
         'additions, registrations, stores, loads and removals: table_bij (name<->id is a gap-free bijection '
         'in every table), reopen_same / reopen_roundtrip (any iteration order of the persisted dictionary '
         're-indexes to the same list; close+open restores the catalogue), chain_ids / chain (every primary '
         'key resolves task->algorithm->state vector->value, ids in range), next_gt, remove_exact, trace_exact '
         '/ trace_silent, reset_exact (exact names, never prefix-equal ones), names_roundtrip and subset_exact '
         '(dissect undoes construct; the subset filter accepts exactly the named row). The subset filters, '
         'tokens, next formula, append id, __to_key call table are regenerated from the source on every run; '
         'the model is tied to the real shelve code by a correspondence run on real shelve files and a '
         'shadow-catalogue monitor.',
    note='Trusted: Lean kernel; axioms propext/Classical.choice/Quot.sound only; tools/gen_c08.py; harness '
         'fakes (no listening socket). Names are restricted to NameOK = no colon character: merely '
         'token-free names such as "x:parent" already break dissect (example in Props/C08). dbm.dumb '
         'iteration order = insertion order is relied on only for the order of reset steps. reopen() (client '
         'mode through the socket) is not modelled; trace_exact does not claim that the latest version is '
         'chosen; reset falls back to every algorithm of the task when the named one has no entry at that '
         'run (stated in reset_exact, reported as suspicious). PostgreSQL backend not tied.',
    technique='Lean 4 proof (invariant by induction over histories + string lemmas) + differential correspondence',
    design='7/C08',
)

TRUSTED = [
    'CPython shelve/dbm.dumb: a value written is read back after close/open; iteration order = insertion order',
    'DBSerializer.open (listening socket) replaced by a no-op; Worker.do is called directly for Func.upd',
    'the shadow catalogue of the monitor (ids attributed from operation arguments and returned ids)',
]

# names built to contain prefixes of one another and digit strings that collide with ids / runs
TARGETS = ['X', 'X1', '1', '11', '__all__', 'X 1 (b)']
TASKS = ['t', 't2', '1']
ALGS = ['A', 'A2', 'A20', '1', '11', 'A_']
SVS = ['sv', 'sv_', 's', '1', '__metric__']
VALS = ['v', 'v1', '1', '11']
VERS = [[1, 0, 0], [1, 0, 1], [1, 1, 0], [2, 0, 0], [10, 0, 0], [1, 10, 0]]
RUNS = [0, 1, 2, 3, 10, 11, 12]
# outside NameOK: exercised for model/implementation agreement only (no monitor)
ODD = ['x:parent', 'version:1', 'a:b', 'A___version:1.0.0', '0:parent___A', 'A.B', '', ' ', 'é', 'a___version:']


def nm(s):
    return [ord(c) for c in s]


def name_ok(s):
    return ':' not in s


# ---------------------------------------------------------------------- the shadow catalogue
class Shadow:
    """Reference catalogue: ids -> (parent id, name, version) attributed from arguments."""

    def __init__(self):
        self.t = {n: [] for n in ('target', 'task', 'alg', 'state', 'value')}

    def find(self, table, triple):
        for i, x in enumerate(self.t[table]):
            if x == triple:
                return i
        return None

    def note(self, table, triple, idx):
        """the real code answered `idx` for `triple`"""
        rows = self.t[table]
        if idx == len(rows):
            rows.append(triple)
        return idx < len(rows) and rows[idx] == triple

    def names(self, key):
        r, tg, tk, a, sv, v = key
        try:
            return (r, self.t['target'][tg][1], self.t['task'][tk][1], self.t['alg'][a][1],
                    self.t['state'][sv][1], self.t['value'][v][1])
        except IndexError:
            return None


# ---------------------------------------------------------------------- fault injection
class FaultyDbm:
    """wraps the dbm object under one shelve table: when armed, the next write raises OSError once
    (disk full / quota / I/O error) before anything is written"""

    def __init__(self, inner):
        self.inner, self.armed, self.fired = inner, False, 0

    def __setitem__(self, k, v):
        if self.armed:
            self.armed = False
            self.fired += 1
            raise OSError(28, 'No space left on device (injected by the harness)')
        self.inner[k] = v

    def __getitem__(self, k):
        return self.inner[k]

    def __delitem__(self, k):
        del self.inner[k]

    def __contains__(self, k):
        return k in self.inner

    def __iter__(self):
        return iter(self.inner)

    def __len__(self):
        return len(self.inner)

    def __getattr__(self, n):
        return getattr(self.inner, n)


def model_view(ops, obs):
    """the history as the model sees it: the fault stream has no model operation -- an armed fault and
    the registration it made fail (retried right after) are left out"""
    keep = [(op, o) for op, o in zip(ops, obs) if op[0] != 'arm' and o[:2] != ['err', 'oserror']]
    return [k[0] for k in keep], [k[1] for k in keep]


# ---------------------------------------------------------------------- running one history
class Runner:
    def __init__(self, store=None):
        self.S = store or Store()

    def worker_upd(self, name, parent, table, ver):
        """`Connector._update_cmd` as executed on the foreman: the real `Worker.do(Func.upd)`"""
        import pickle
        import struct
        comms = self.S.comms
        w = comms.Worker(None)
        w.transport = FakeTransport()
        w.do(comms.COMMAND(comms.Func.upd, comms.KEYSET(name, parent, ver),
                           getattr(comms.Table, table), None))
        data = b''.join(w.transport.written)
        n = struct.unpack('>I', data[:4])[0]
        return pickle.loads(data[4:4 + n])[1]

    def to_key(self, sh, run, tn, task, alg, av, sv, svv, vn, vv, problems):
        """the five `_update_cmd` calls of `Interface.__to_key`, made by the harness"""
        VERSION = self.S.dawgie.VERSION
        ids = []
        for table, name, ver in (('target', tn, None), ('task', task, None), ('alg', alg, av),
                                 ('state', sv, svv), ('value', vn, vv)):
            parent = ids[-1] if table in ('alg', 'state', 'value') else None
            i = self.worker_upd(name, parent, table, VERSION(*ver) if ver else None)
            if not sh.note(table, (parent, name, tuple(ver) if ver else None), i):
                problems.append(('C08:table-bijection',
                                 f'{table} table answered id {i} for a name registered under another id'))
            ids.append(i)
        return (run,) + tuple(ids)

    def run(self, ops, mode='direct', monitor=True):
        """returns (observations, problems); problems = [(sig, what)] found by the monitor"""
        S = self.S
        S.fresh()
        sh = Shadow()
        obs, problems = [], []
        snapshot = None
        blobs = {}
        for op in ops:
            before = None
            try:
                if S.DBI().is_open:
                    before = S.tables()
            except Exception:  # pylint: disable=broad-except
                before = None
            o = self.step(op, sh, problems, blobs, mode)
            obs.append(o)
            if op[0] != 'arm':
                self.disarm()
            if op[0] == 'close' and before is not None:
                snapshot = before
            if not monitor:
                continue
            is_open = S.DBI().is_open
            after = S.tables() if is_open else None
            if after is not None:
                self.check_tables(after, sh, problems)
                if op[0] == 'open' and snapshot is not None:
                    for n in ('target', 'task', 'alg', 'state', 'value'):
                        if snapshot[n] != after[n]:
                            problems.append(('C08:reopen',
                                             f'{n} table/index differ after close and reopen'))
                    if snapshot['prime'] != after['prime']:
                        problems.append(('C08:reopen', 'primary table differs after close and reopen'))
                    snapshot = None
                if op[0] == 'remove' and before is not None:
                    self.check_remove(op, o, before, after, sh, problems)
                if op[0] == 'worm' and before is not None:
                    self.check_worm(op, before, after, sh, problems)
                if op[0] in ('store', 'add', 'register', 'register-w') and before is not None and o[0] == 'ok':
                    gone = set(before['prime']) - set(after['prime'])
                    if gone:
                        problems.append(('C08:store-removes', f'{op[0]} dropped primary keys {sorted(gone)}'))
        S.discard()
        return obs, problems

    # -------------------------------------------------------------- operations on the real code
    def disarm(self):
        dbi = self.S.DBI()
        for t in (dbi.tables or ()):
            if t is not None and isinstance(getattr(t, 'dict', None), FaultyDbm):
                t.dict.armed = False

    def step(self, op, sh, problems, blobs, mode):
        S = self.S
        kind = op[0]
        try:
            if kind == 'arm':
                # the next write into the persisted table `op[1]` fails once
                if not S.DBI().is_open:
                    return ['err', 'closed']
                shelf = getattr(S.DBI().tables, op[1])
                if not isinstance(shelf.dict, FaultyDbm):
                    shelf.dict = FaultyDbm(shelf.dict)
                shelf.dict.armed = True
                return ['ok']
            if kind == 'open':
                S.open()
                return ['ok']
            if kind == 'close':
                S.close()
                return ['ok']
            if kind == 'add':
                S.shelve.add(op[1])
                if sh.find('target', (None, op[1], None)) is None:
                    sh.note('target', (None, op[1], None), len(sh.t['target']))
                return ['ok']
            if kind in ('register', 'register-w'):
                _, task, alg, av, sv, svv, truthy, vn, vv = op
                val = S.Val(vv)
                svo = S.SV(sv, svv, [(vn, val)] if truthy else [])
                if kind == 'register-w':
                    # the worker's path (pl.version.record before every job): a re-opened handle, every
                    # registration travels to the foreman as Func.append through the loop-back Worker
                    if not S.DBI().is_open:
                        return ['err', 'closed']
                    S.DBI().reopen()
                    try:
                        S.shelve.update(S.Bot(task, 0), S.Alg(alg, av, [svo]), svo, vn, val)
                    finally:
                        S.DBI()._DBI__reopened = False  # pylint: disable=protected-access
                else:
                    S.shelve.update(S.Bot(task, 0), S.Alg(alg, av, [svo]), svo, vn, val)
                rows = {n: len(sh.t[n]) for n in sh.t}
                self.shadow_register(sh, task, alg, av, sv, svv if truthy else None, vn, vv)
                t = S.tables()
                for n in ('task', 'alg', 'state', 'value'):
                    if len(t[n][1]) != len(sh.t[n]):
                        problems.append(('C08:chain', f'{kind} of {task}.{alg}.{sv}.{vn} added {len(t[n][1]) - rows[n]} '
                                                      f'row(s) to the {n} table, {len(sh.t[n]) - rows[n]} new name(s) were registered'))
                return ['ok']
            if kind == 'store':
                _, run, tn, task, alg, av, sv, svv, vn, vv, payload = op
                if not S.DBI().is_open:
                    raise RuntimeError('called connect before open')
                if mode == 'loopback':
                    return self.store_loopback(op, sh, problems, blobs)
                key = self.to_key(sh, run, tn, task, alg, av, sv, svv, vn, vv, problems)
                blob = 'b%d' % payload
                blobs[blob] = payload
                # what Worker.do(Func.set) does after db.util.move
                S.DBI().tables.prime[str(key)] = blob
                return ['ok', list(key), blob, payload]
            if kind == 'remove':
                S.shelve.remove(*op[1:])
                return ['ok']
            if kind == 'worm':
                return self.worm(op)
            if kind == 'next':
                n = S.shelve.next()
                keys = list(S.tables()['prime'])
                if keys and not n > max(k[0] for k in keys):
                    problems.append(('C08:next', f'next() = {n} is not above the stored run id {max(k[0] for k in keys)}'))
                return ['ok', n]
            if kind == 'trace':
                r = S.shelve.trace(['.'.join(p) for p in op[1]])
                self.check_trace(op, r, sh, problems)
                return ['ok', sorted([tn, sorted([k.split('.')[0], k.split('.')[1], v] for k, v in d.items())]
                                     for tn, d in r.items())]
            if kind == 'reset':
                _, run, tn, task, algn, svnames = op
                calls = []

                class FakeSV:
                    def __init__(self, n):
                        self.n = n

                    def _set_ver(self, ver):
                        calls.append(['sv', self.n, list(ver)])

                svd = {n: FakeSV(n) for n in svnames}

                class FakeAlg:
                    def name(self):
                        return algn

                    def _set_ver(self, ver):
                        calls.append(['alg', list(ver)])

                    def sv_as_dict(self):
                        return svd

                S.shelve.reset(run, tn, task, FakeAlg())
                self.check_reset(op, calls, sh, problems)
                return ['ok', calls]
            if kind == 'versions':
                r = S.shelve.versions()
                self.check_versions(r, sh, problems)
                return ['ok', [sorted(r[0])] + [sorted([k, list(v)] for k, v in d.items()) for d in r[1:]]]
            if kind == 'keys':
                r = S.shelve._prime_keys()  # pylint: disable=protected-access
                self.check_chain(sh, problems)
                return ['ok', sorted(r)]
            if kind == 'dump':
                if not S.DBI().is_open:
                    return ['dump', False]
                t = S.tables()
                return ['dump', True] + [[t[n][1], sorted(t[n][0].items())]
                                         for n in ('target', 'task', 'alg', 'state', 'value')] + [
                    sorted([list(k), v] for k, v in t['prime'].items())]
        except RuntimeError:
            return ['err', 'closed']
        except KeyError:
            return ['err', 'key']
        except IndexError:
            return ['err', 'index']
        except (ValueError, AttributeError, TypeError):
            # dissect raises ValueError or TypeError, a missing version AttributeError: one class
            return ['err', 'value']
        except OSError as e:
            if 'injected by the harness' in str(e):
                return ['err', 'oserror']
            problems.append(('C08:operation-raises', f'{kind} raised {type(e).__name__}: {str(e)[:120]}'))
            return ['err', 'raised']
        except Exception as e:  # pylint: disable=broad-except
            # an exception of the code under test is an observation and a finding, never a crash
            problems.append(('C08:operation-raises', f'{kind} raised {type(e).__name__}: {str(e)[:120]}'))
            return ['err', 'raised']
        raise ValueError(f'unknown op {op!r}')

    def shadow_register(self, sh, task, alg, av, sv, svv, vn, vv):
        """attribute the ids `shelve.update` created (it returns nothing): an unknown triple gets
        the next id of its table"""
        parent = None
        for table, name, ver in (('task', task, None), ('alg', alg, av), ('state', sv, svv), ('value', vn, vv)):
            triple = (parent if table != 'task' else None, name, tuple(ver) if ver else None)
            i = sh.find(table, triple)
            if i is None:
                i = len(sh.t[table])
                sh.note(table, triple, i)
            parent = i

    def store_loopback(self, op, sh, problems, blobs):
        """one value through `Interface._update` and the loop-back Worker"""
        S = self.S
        _, run, tn, task, alg, av, sv, svv, vn, vv, payload = op
        val = S.Val(vv, payload)
        svo = S.SV(sv, svv, [(vn, val)])
        bot = S.Bot(task, run)
        before = set(S.tables()['prime'])
        ds = S.interface(S.Alg(alg, av, [svo]), bot, tn)
        ds._update()  # pylint: disable=protected-access
        t = S.tables()
        # the key __to_key built: recomputed by the shadow from the arguments
        parent, ids = None, []
        for table, name, ver in (('target', tn, None), ('task', task, None), ('alg', alg, av),
                                 ('state', sv, svv), ('value', vn, vv)):
            triple = (parent if table in ('alg', 'state', 'value') else None, name, tuple(ver) if ver else None)
            i = sh.find(table, triple)
            if i is None:
                i = len(sh.t[table])
                sh.note(table, triple, i)
            ids.append(i)
            parent = i
        key = (run,) + tuple(ids)
        new = set(t['prime']) - before
        if key not in t['prime'] or (new and new != {key}):
            problems.append(('C08:chain', f'Interface._update stored under {sorted(new)} instead of {key}'))
            if new:
                key = sorted(new)[0]
        blob = t['prime'].get(key, 'missing')
        blobs.setdefault(blob, len(blobs) + 1000)
        return ['ok', list(key), blob, blobs[blob]]

    def worm(self, op):
        """`db.tools.worm.consume` (opens and closes the store itself)"""
        import dawgie.db.tools.worm as worm
        worm.dawgie = self.S.dawgie
        was_open = self.S.DBI().is_open
        if was_open:
            self.S.close()
        import contextlib
        import io
        import logging
        try:
            logging.disable(logging.CRITICAL)
            with contextlib.redirect_stdout(io.StringIO()):
                worm.consume(*op[1:])
        finally:
            logging.disable(logging.NOTSET)
            self.S.DBI().close()
            if was_open:
                self.S.open()
        return ['ok']

    # -------------------------------------------------------------- monitor
    def check_tables(self, t, sh, problems):
        for n in ('target', 'task', 'alg', 'state', 'value'):
            d, idx = t[n]
            ids = sorted(d.values())
            if ids != list(range(len(d))):
                problems.append(('C08:table-bijection', f'{n} ids are {ids}: not gap-free / not unique'))
            elif len(idx) != len(d) or any(idx[i] != k for k, i in d.items()):
                problems.append(('C08:table-bijection', f'{n} index is not the inverse of the table'))
        self.check_rows(t, sh, problems)
        self.check_chain(sh, problems, t)

    def check_rows(self, t, sh, problems):
        """every registered row resolves (real `dissect`) to the parent, name and version it was registered
        under -- task -> algorithm -> state vector -> value also for rows no primary key points to yet"""
        for n in ('alg', 'state', 'value'):
            for i, full in enumerate(t[n][1]):
                if i >= len(sh.t[n]):
                    break
                parent, name, ver = sh.t[n][i]
                if not name_ok(name):
                    continue
                try:
                    p, nme, v = self.S.util.dissect(full)
                    got = (p, nme, (v.design(), v.implementation(), v.bugfix()) if v else None)
                except Exception as e:  # pylint: disable=broad-except
                    got = ('raises', type(e).__name__, None)
                if got != (parent, name, ver):
                    up = {'alg': 'task', 'state': 'alg', 'value': 'state'}[n]
                    problems.append(('C08:chain', f'{n} row {i} was registered as {name!r} {ver} under {up} id {parent}; '
                                                  f'the table entry {full!r} resolves to {got}'))
                    return

    def check_versions(self, r, sh, problems):
        """`shelve.versions()` lists exactly the registered (task, alg, sv, value) chains with their versions"""
        rows = []
        for parent, vn, vv in sh.t['value']:
            try:
                ap, svn, svv = sh.t['state'][parent]
                tp, an, av = sh.t['alg'][ap]
                tk = sh.t['task'][tp][1]
            except (IndexError, TypeError):
                return
            if svv is None or not all(name_ok(x) and '.' not in x for x in (tk, an, svn, vn)):
                return
            rows.append((tk, an, av, svn, svv, vn, vv))
        want = [set(), {}, {}, {}]
        for tk, an, av, svn, svv, vn, vv in rows:
            want[0].add(tk)
            for d, key, ver in ((want[1], (tk, an), av), (want[2], (tk, an, svn), svv), (want[3], (tk, an, svn, vn), vv)):
                d.setdefault('.'.join(key), []).append('.'.join(str(x) for x in ver))
        got = [set(r[0])] + [{k: list(v) for k, v in d.items()} for d in r[1:]]
        for what, w, g in zip(('tasks', 'algorithm', 'state-vector', 'value'), want, got):
            if (w != g) if what == 'tasks' else ({k: sorted(v) for k, v in w.items()} != {k: sorted(v) for k, v in g.items()}):
                problems.append(('C08:chain', f'versions() {what} keys/versions {sorted(g)[:6]} differ from the registered chains '
                                              f'{sorted(w)[:6]}'))
                return

    def check_chain(self, sh, problems, t=None):
        S = self.S
        t = t or S.tables()
        lens = {n: len(t[n][1]) for n in ('target', 'task', 'alg', 'state', 'value')}
        for key in t['prime']:
            r, tg, tk, a, sv, v = key
            if not (tg < lens['target'] and tk < lens['task'] and a < lens['alg'] and sv < lens['state'] and v < lens['value']):
                problems.append(('C08:chain', f'primary key {key} has an id outside its table'))
                continue
            if not all(i < len(sh.t[n]) for n, i in (('target', tg), ('task', tk), ('alg', a), ('state', sv), ('value', v))):
                continue  # id not attributed by the shadow (names outside NameOK)
            if not all(name_ok(sh.t[n][i][1]) for n, i in (('target', tg), ('task', tk), ('alg', a), ('state', sv), ('value', v))):
                continue
            if sh.t['alg'][a][0] != tk or sh.t['state'][sv][0] != a or sh.t['value'][v][0] != sv:
                problems.append(('C08:chain', f'primary key {key} does not follow task->alg->state->value'))
                continue
            try:
                ok = (S.util.dissect(t['alg'][1][a])[0] == tk and S.util.dissect(t['state'][1][sv])[0] == a
                      and S.util.dissect(t['value'][1][v])[0] == sv)
            except Exception:  # pylint: disable=broad-except
                ok = False
            if not ok:
                problems.append(('C08:chain', f'primary key {key} does not resolve through the parents recorded in the tables'))

    def check_remove(self, op, o, before, after, sh, problems):
        req = tuple(op[1:])
        if not all(name_ok(x) for x in req[1:]):
            return
        b, a = before['prime'], after['prime']
        named = {k: sh.names(k) for k in b}
        if any(v is None or not all(name_ok(x) for x in v[1:]) for v in named.values()):
            return
        expect_gone = {k for k, v in named.items() if v == req} if o[0] == 'ok' else set()
        gone = set(b) - set(a)
        if gone != expect_gone or any(a.get(k) != b[k] for k in set(b) - gone) or set(a) - set(b):
            extra = sorted(sh.names(k) for k in gone - expect_gone)
            missing = sorted(sh.names(k) for k in expect_gone - gone)
            problems.append(('C08:remove-inexact',
                             f'remove{req}: removed other entries {extra}' if extra else
                             f'remove{req}: left entries {missing} / altered others'))

    def check_worm(self, op, before, after, sh, problems):
        req = list(op[1:])
        b, a = before['prime'], after['prime']
        named = {k: sh.names(k) for k in b}
        if any(v is None or not all(name_ok(x) and '.' not in x for x in v[1:]) for v in named.values()):
            return
        if all(x is None for x in req):
            expect = set()
        else:
            expect = {k for k, v in named.items() if all(e is None or i == e for i, e in zip(v, req))}
        gone = set(b) - set(a)
        if gone != expect or set(a) - set(b):
            problems.append(('C08:worm-inexact',
                             f'worm{tuple(req)} removed {sorted(sh.names(k) for k in gone)}, '
                             f'entries with those names: {sorted(named[k] for k in expect)}'))

    def check_trace(self, op, r, sh, problems):
        t = self.S.tables()
        named = {k: sh.names(k) for k in t['prime']}
        if any(v is None or not all(name_ok(x) for x in v[1:]) for v in named.values()):
            return
        for tn, d in r.items():
            for task, alg in op[1]:
                if not (name_ok(task) and name_ok(alg)) or '.' in task or '.' in alg:
                    continue
                runs = {v[0] for v in named.values() if v[1] in (tn, '__all__') and v[2] == task and v[3] == alg}
                got = d.get(task + '.' + alg)
                if got is not None and got not in runs:
                    problems.append(('C08:trace-inexact',
                                     f'trace reports run {got} for {tn}/{task}.{alg}; runs stored under those exact names: {sorted(runs)}'))

    def check_reset(self, op, calls, sh, problems):
        _, run, tn, task, algn, _svn = op
        if not all(name_ok(x) for x in (tn, task, algn)):
            return
        t = self.S.tables()
        named = {k: sh.names(k) for k in t['prime']}
        if any(v is None or not all(name_ok(x) for x in v[1:]) for v in named.values()):
            return
        exact = [k for k, v in named.items() if v[:4] == (run, tn, task, algn)]
        if not exact:
            return  # documented fall-back of reset: every entry of (run, target, task)
        vers = {sh.t['alg'][k[3]][2] for k in exact}
        for c in calls:
            if c[0] == 'alg' and tuple(c[1]) not in vers:
                problems.append(('C08:reset-inexact',
                                 f'reset({run},{tn},{task},{algn}) took version {c[1]}; versions stored under that exact name: {sorted(vers)}'))


# ---------------------------------------------------------------------- model side
def to_line(ops, obs):
    """the history as one s-expression for `Driver/C08.lean` (blob names are taken from the
    implementation's observation: the model treats them as opaque)"""
    out = ['store', 'history']
    for op, o in zip(ops, obs):
        k = op[0]
        if k == 'worm':
            break  # the model is compared on the history before the crawler
        if k in ('open', 'close', 'next', 'versions', 'keys', 'dump'):
            out.append([k])
        elif k == 'add':
            out.append(['add', nm(op[1])])
        elif k in ('register', 'register-w'):  # both branches of shelve.update are one model operation
            _, task, alg, av, sv, svv, truthy, vn, vv = op
            out.append(['register', nm(task), nm(alg), list(av), nm(sv), list(svv), bool(truthy), nm(vn), list(vv)])
        elif k == 'store':
            _, run, tn, task, alg, av, sv, svv, vn, vv, _payload = op
            blob, content = (o[2], o[3]) if o[0] == 'ok' else ('x', 0)
            out.append(['store', run, nm(tn), nm(task), nm(alg), list(av), nm(sv), list(svv), nm(vn), list(vv),
                        nm(blob), content])
        elif k == 'remove':
            out.append(['remove', op[1]] + [nm(x) for x in op[2:]])
        elif k == 'trace':
            out.append(['trace', [[nm(a), nm(b)] for a, b in op[1]]])
        elif k == 'reset':
            out.append(['reset', op[1], nm(op[2]), nm(op[3]), nm(op[4]), [nm(x) for x in op[5]]])
        else:
            raise ValueError(k)
    return common.sx(out)


def s_(x):
    return ''.join(chr(int(c)) for c in x)


def ver_(x):
    return None if x == 'N' else [int(i) for i in x]


def verstr(v):
    return '.'.join(str(i) for i in v)


def model_obs(op, m):
    """canonical form of the model's observation, same shape as Runner.step's"""
    if m[0] == 'err':
        return ['err', 'value' if m[1] == 'attr' else m[1]]
    if m[0] == 'bad-op':
        return ['bad-op', m[1]]
    k = op[0]
    if k in ('open', 'close', 'add', 'register', 'register-w', 'remove'):
        return ['ok']
    if k == 'store':
        return ['ok', [int(i) for i in m[1]]]
    if k == 'next':
        return ['ok', int(m[1])]
    if k == 'trace':
        # the Python result is a dict keyed by 'task.alg': repeated requests collapse
        return ['ok', sorted([s_(t[0]), sorted({(s_(c[0]), s_(c[1])): [s_(c[0]), s_(c[1]), int(c[2])]
                                                for c in t[1]}.values())] for t in m[1])]
    if k == 'reset':
        calls = []
        for key, av, svn, svv in m[1]:
            calls.append(['alg', ver_(av)])
            if svv != 'N':
                calls.append(['sv', s_(svn), ver_(svv)])
        return ['ok', calls]
    if k == 'versions':
        tasks, algs, svs, vals = set(), {}, {}, {}
        for tk, a, av, sv, svv, v, vv in m[1]:
            tk, a, sv, v = s_(tk), s_(a), s_(sv), s_(v)
            tasks.add(tk)
            algs.setdefault('.'.join([tk, a]), []).append(verstr(ver_(av)))
            svs.setdefault('.'.join([tk, a, sv]), []).append(verstr(ver_(svv)))
            vals.setdefault('.'.join([tk, a, sv, v]), []).append(verstr(ver_(vv)))
        return ['ok', [sorted(tasks)] + [sorted([k2, v2] for k2, v2 in d.items()) for d in (algs, svs, vals)]]
    if k == 'keys':
        return ['ok', sorted('.'.join([str(int(r[0]))] + [s_(x) for x in r[1:]]) for r in m[1])]
    if k == 'dump':
        if m[0] == 'F':
            return ['dump', False]
        out = ['dump', True]
        for t in m[1:6]:
            out.append([[s_(x) for x in t[0]], sorted([s_(e[0]), int(e[1])] for e in t[1])])
        out.append(sorted([[int(i) for i in e[0]], s_(e[1])] for e in m[6]))
        return out
    raise ValueError(k)


def impl_obs(op, o):
    """strip what the model does not produce"""
    if op[0] == 'store' and o[0] == 'ok':
        return ['ok', o[1]]
    if op[0] == 'worm':
        return o
    return json.loads(json.dumps(o))


# ---------------------------------------------------------------------- generators
def gen_history(r, odd=False):
    T = TARGETS + (ODD if odd else [])
    K = TASKS + (ODD[:5] if odd else [])
    A = ALGS + (ODD if odd else [])
    V = SVS + (ODD[:4] if odd else [])
    W = VALS + (ODD[:4] if odd else [])
    # a small universe per history so that collisions (same name, other version / parent) are frequent
    tg = r.sample(T, r.choice([1, 2, 3]))
    tk = r.sample(K, r.choice([1, 2]))
    al = r.sample(A, r.choice([2, 3, 4]))
    sv = r.sample(V, r.choice([1, 2, 3]))
    va = r.sample(W, r.choice([1, 2, 3]))
    ve = r.sample(VERS, r.choice([1, 2, 3]))
    runs = r.sample(RUNS, r.choice([2, 3, 4]))
    ops = [['open']]
    n = r.choice([4, 8, 12, 18, 25])
    payload = 0
    for _ in range(n):
        x = r.random()
        if x < 0.46:
            payload += 1
            st = ['store', r.choice(runs), r.choice(tg), r.choice(tk), r.choice(al), r.choice(ve),
                  r.choice(sv), r.choice(ve), r.choice(va), r.choice(ve), payload]
            if not odd and r.random() < 0.12:
                # fault stream: the write of one (possibly new) name fails once, the job is retried
                ops.extend([['arm', r.choice(['target', 'task', 'alg', 'state', 'value'])], list(st)])
            ops.append(st)
        elif x < 0.52:
            ops.append(['register' if odd or r.random() < 0.5 else 'register-w', r.choice(tk), r.choice(al), r.choice(ve),
                        r.choice(sv), r.choice(ve),
                        r.random() < 0.9, r.choice(va), r.choice(ve)])
        elif x < 0.56:
            ops.append(['add', r.choice(T)])
        elif x < 0.70:
            ops.append(['remove', r.choice(runs), r.choice(tg), r.choice(tk), r.choice(al), r.choice(sv), r.choice(va)])
        elif x < 0.78:
            ops.append(['trace', [[r.choice([x for x in tk if '.' not in x] or ['t']),
                                   r.choice([x for x in al if '.' not in x] or ['A'])]
                                  for _ in range(r.choice([1, 1, 2, 3]))]])
        elif x < 0.85:
            ops.append(['reset', r.choice(runs), r.choice(tg), r.choice(tk), r.choice(al),
                        r.sample(sv, r.randrange(len(sv) + 1))])
        elif x < 0.89:
            ops.append(['next'])
        elif x < 0.93:
            ops.extend([['close'], ['open']] if r.random() < 0.8 else [['close']])
        elif x < 0.96:
            ops.append(['versions'])
        else:
            ops.append(['keys'])
    if r.random() < 0.5:
        ops.extend([['close'], ['open']])
    ops.extend([['next'], ['keys'], ['dump']])
    if not odd and r.random() < 0.2:
        # db.tools.worm.consume: None = wildcard
        req = [r.choice(runs), r.choice(tg), r.choice(tk), r.choice(al), r.choice(sv), r.choice(va)]
        for i in r.sample(range(6), r.choice([0, 1, 2, 3, 6])):
            req[i] = None
        ops.extend([['worm'] + req, ['keys']])
    return ops


V1, V2 = [1, 0, 0], [2, 0, 0]
CORPUS = [
    # F-C08: Alg / Alg2 under one task, same run
    [['open'], ['store', 3, 'X', 't', 'A', V1, 'sv', V1, 'v', V1, 1], ['store', 3, 'X', 't', 'A2', V1, 'sv', V1, 'v', V1, 2],
     ['remove', 3, 'X', 't', 'A', 'sv', 'v'], ['keys'], ['dump']],
    # prefix at the state-vector and value level, several versions
    [['open'], ['store', 1, 'X', 't', 'A', V1, 'sv', V1, 'v', V1, 1], ['store', 1, 'X', 't', 'A', V1, 'sv_', V1, 'v', V1, 2],
     ['store', 1, 'X', 't', 'A', V2, 'sv', V1, 'v1', V1, 3], ['store', 1, 'X', 't', 'A', V1, 'sv', V1, 'v1', V2, 4],
     ['remove', 1, 'X', 't', 'A', 'sv', 'v'], ['keys'], ['remove', 1, 'X', 't', 'A', 'sv', 'v1'], ['keys'], ['dump']],
    # trace: the longer name has the later version and the later run
    [['open'], ['store', 2, 'X', 't', 'A', V1, 'sv', V1, 'v', V1, 1], ['store', 7, 'X', 't', 'A2', V2, 'sv', V1, 'v', V1, 2],
     ['trace', [['t', 'A'], ['t', 'A2']]], ['store', 9, '__all__', 't', 'A20', V1, 'sv', V1, 'v', V1, 3],
     ['trace', [['t', 'A'], ['t', 'A20']]], ['dump']],
    # reset: prefix name is first in table order
    [['open'], ['store', 5, 'X', 't', 'A2', V2, 'sv', V2, 'v', V1, 1], ['store', 5, 'X', 't', 'A', V1, 'sv', V1, 'v', V1, 2],
     ['reset', 5, 'X', 't', 'A', ['sv']], ['reset', 5, 'X', 't', 'A2', ['sv']], ['reset', 5, 'X', 't', 'A20', ['sv']], ['dump']],
    # digit names against ids and runs: "(1, " / "(11, " prefixes of the key strings, "1:parent___1"
    [['open'], ['store', 1, '1', '1', '1', V1, '1', V1, '1', V1, 1], ['store', 11, '11', '1', '11', V1, '1', V1, '11', V1, 2],
     ['store', 1, '1', '1', '11', V1, '1', V1, '1', V1, 3], ['reset', 1, '1', '1', '1', ['1']], ['remove', 1, '1', '1', '1', '1', '1'],
     ['keys'], ['trace', [['1', '1'], ['1', '11']]], ['next'], ['dump']],
    # close / reopen keeps ids; next after removals
    [['open'], ['store', 4, 'X', 't', 'A', V1, 'sv', V1, 'v', V1, 1], ['add', 'X1'], ['close'], ['next'], ['open'],
     ['store', 10, 'X1', 't2', 'A', V1, 'sv', V1, 'v', V1, 2], ['next'], ['remove', 10, 'X1', 't2', 'A', 'sv', 'v'], ['next'],
     ['close'], ['open'], ['versions'], ['dump']],
    # empty / unknown requests
    [['open'], ['next'], ['remove', 1, 'X', 't', 'A', 'sv', 'v'], ['add', 'X'], ['remove', 1, 'X', 't', 'A', 'sv', 'v'],
     ['trace', [['t', 'A']]], ['register', 't', 'A', V1, 'sv', V1, True, 'v', V1], ['trace', [['t', 'A'], ['t', 'A2']]],
     ['remove', 1, 'X', 't', 'A2', 'sv', 'v'], ['remove', 1, 'X', 't', 'A', 's', 'v'], ['reset', 1, 'X', 't', 'A', []], ['dump']],
    # an empty sub-selection sends util.subset into its prefix branch with a bare name
    [['open'], ['store', 1, 'X', 't', 'A', V1, '1', V1, '1', V1, 1], ['store', 1, 'X', 't', 'A', V1, 'sv', V1, 'v', V1, 2],
     ['remove', 1, 'X', 't', 'A2', '1', '1'], ['remove', 1, 'X', 't', 'A', '11', '1'], ['remove', 1, 'X', 't', 'A', '1', '11'],
     ['keys'], ['dump']],
    # registration from a worker (re-opened handle) once task / algorithm / state-vector ids differ
    [['open'], ['store', 1, 'X', 't', 'A', V1, 'sv', V1, 'v', V1, 1], ['store', 1, 'X', 't', 'A', V1, 'sv_', V1, 'v', V1, 2],
     ['store', 1, 'X', 't', 'A2', V1, 's', V1, 'v', V1, 3], ['register', 't2', 'A', V1, 'sv', V1, True, 'v', V1],
     ['register-w', 't2', 'A', V2, 'sv', V1, True, 'v1', V1], ['register-w', 't', 'A2', V1, 'sv', V2, True, 'v', V2],
     ['register-w', 't', 'A', V1, 'sv_', V1, True, 'v', V1], ['versions'], ['keys'],
     ['store', 2, 'X', 't2', 'A', V2, 'sv', V1, 'v1', V1, 4], ['versions'], ['close'], ['open'], ['versions'], ['dump']],
    # one failing table write while a new name is registered, then the retry: nothing may be left behind
    [['open'], ['store', 1, 'X', 'alpha', 'A', V1, 'sv', V1, 'v', V1, 1], ['arm', 'task'],
     ['store', 1, 'X', 'beta', 'A', V1, 'sv', V1, 'v', V1, 2], ['store', 1, 'X', 'beta', 'A', V1, 'sv', V1, 'v', V1, 2],
     ['store', 1, 'X', 'gamma', 'A', V1, 'sv', V1, 'v', V1, 3], ['keys'], ['close'], ['open'], ['keys'], ['versions'],
     ['arm', 'value'], ['store', 2, 'X', 'beta', 'A', V1, 'sv', V1, 'v2', V1, 4],
     ['store', 2, 'X', 'beta', 'A', V1, 'sv', V1, 'v2', V1, 4], ['arm', 'alg'], ['add', 'X1'], ['next'],
     ['store', 2, 'X', 'beta', 'A', V2, 'sv', V1, 'v2', V1, 5], ['close'], ['open'], ['keys'], ['dump']],
    # two-digit ids: "(5, 0, 0, 1" is a string prefix of "(5, 0, 0, 10, ...", "1:parent___" of nothing else
    [['open']] + [['store', 5, 'X', 't', 'B%d' % i, [1, 0, i], 'sv', [1, 0, i], 'v', V1, i] for i in range(12)]
    + [['reset', 5, 'X', 't', 'B1', ['sv']], ['reset', 5, 'X', 't', 'B10', ['sv']], ['trace', [['t', 'B1'], ['t', 'B10']]],
       ['remove', 5, 'X', 't', 'B1', 'sv', 'v'], ['keys'], ['versions'], ['close'], ['open'], ['next'], ['dump']],
]


def file_corpus(pid):
    """operation lists of /verif/corpus/<pid>/*.json (minimised past failures)"""
    import os
    d = os.path.join(common.VERIF, 'corpus', pid)
    out = []
    for f in sorted(os.listdir(d)) if os.path.isdir(d) else []:
        if f.endswith('.json'):
            out.append(json.load(open(os.path.join(d, f)))['ops'])
    return out


def check_history(rn, res, ops, tag, lines, pending, mode='direct'):
    obs, problems = rn.run(ops, mode)
    if tag == 'odd-names':
        problems = []  # names outside NameOK: model/implementation agreement only
    for sig, what in problems:
        res.hit(sig, what, {'mode': mode, 'ops': ops})
    mops, mobs = model_view(ops, obs)
    lines.append(to_line(mops, mobs))
    pending.append((tag, mode, mops, mobs))
    kinds = [o[0] for o in ops]
    res.case((mode, json.dumps(ops)), nontrivial=kinds.count('store') >= 2 and any(k in kinds for k in ('remove', 'trace', 'reset')),
             sample={'mode': mode, 'ops': ops[:8], 'observed': obs[:8]} if tag == 'random' else None)
    res.count('history:' + tag)
    for k in kinds:
        res.count('op:' + k)
    for o in obs:
        res.count('outcome:' + (o[1] if o[0] == 'err' else 'ok'))
    return problems


def shrink(rn, ops, sig, mode):
    """greedy removal of operations while the same monitor signature persists"""
    cur = list(ops)
    changed = True
    budget = 120
    while changed and budget > 0:
        changed = False
        for i in range(len(cur) - 1, 0, -1):
            cand = cur[:i] + cur[i + 1:]
            budget -= 1
            _o, problems = rn.run(cand, mode)
            if any(s == sig for s, _ in problems):
                cur = cand
                changed = True
                break
            if budget <= 0:
                break
    return cur


def grid(rn, res, lines, pending):
    """generated pure definitions against the Python originals on an exhaustive small grid"""
    util = rn.S.util
    alphabet = ['', 'A', 'A2', 'A_', '_', '__', '___version:', '___version:1.0.0', '0:parent___A', '1', '11', ':']
    for t, sn in itertools.product([a + b for a in alphabet for b in alphabet][:90], alphabet):
        # the real filters, through util.subset itself
        got_plain = t in util.subset({t: 0}, sn)
        lines.append(common.sx(['store', 'subset', 'n', nm(t), nm(sn)]))
        pending.append(('grid', 'subset-n', (t, sn), got_plain))
    for name, parent, ver in itertools.product(['A', 'A2', '1', 'sv_', ''], [None, 0, 1, 10, 11], [None, (1, 0, 0), (10, 2, 33)]):
        full = util.construct(name, parent, util.LocalVersion(list(ver)) if ver else None)
        lines.append(common.sx(['store', 'construct', nm(name), parent, list(ver) if ver else None]))
        pending.append(('grid', 'construct', (name, parent, ver), full))
        for t in (full, full + '2'):
            try:
                p, n, v = util.dissect(t)
                got = [p, n, [v.design(), v.implementation(), v.bugfix()] if v else None]
            except Exception:  # pylint: disable=broad-except
                got = 'raises'
            lines.append(common.sx(['store', 'dissect', nm(t)]))
            pending.append(('grid', 'dissect', t, got))
        # parents branch of subset: every table key against every surname
        for other, op2 in itertools.product(['A', 'A2', '1', '11', 'sv'], [0, 1, 11]):
            got = full in util.subset({full: 0}, other, [op2])
            lines.append(common.sx(['store', 'subset', 'p', nm(full), nm(util.construct(other, op2))]))
            pending.append(('grid', 'subset-p', (full, other, op2), got))
    for odd in ODD + ['1:parent___2:parent___x', 'a___version:1.0', 'a___version:1.0.0.0', 'a___version:1.x.0',
                      'x:parent___a', 'a___version:1.0.0___version:2.0.0']:
        try:
            p, n, v = util.dissect(odd)
            got = [p, n, [v.design(), v.implementation(), v.bugfix()] if v else None]
        except Exception:  # pylint: disable=broad-except
            got = 'raises'
        lines.append(common.sx(['store', 'dissect', nm(odd)]))
        pending.append(('grid', 'dissect', odd, got))
    for known in [[], [0], [1], [3, 1, 2], [10, 11], [7, 7]]:
        import dawgie.db.shelve as shelve
        state = rn.S
        state.fresh()
        state.open()
        for i, k in enumerate(known):
            state.DBI().tables.prime[str((k, 0, 0, 0, 0, i))] = 'b'
        got = shelve.next()
        state.discard()
        lines.append(common.sx(['store', 'nextrun', known]))
        pending.append(('grid', 'nextrun', known, got))
    res.count('grid', len([p for p in pending if p[0] == 'grid']))


def compare_grid(res, what, arg, impl, out):
    m = common.parse_sx(out)
    if what.startswith('subset'):
        model = m == 'T'
    elif what == 'construct':
        model = s_(m)
    elif what == 'dissect':
        model = 'raises' if m == 'raises' else [None if m[0] == 'N' else int(m[0]), s_(m[1]), ver_(m[2])]
    else:
        model = int(m)
    if model != impl:
        res.diff(f'generated/modelled {what} vs shelve.util', {'input': arg}, model, impl)


def run(ctx, res):
    rn = Runner()
    rn.S.install_loopback()   # the worker branch of shelve.update and the loop-back mode talk to a real comms.Worker
    r = common.rng(ctx['seed'], 'C08')
    thorough = ctx['tier'] == 'thorough' or ctx['escalate']
    res.rule = ('histories of open/close, add, register, store (the five appends of __to_key + prime entry), '
                'remove, trace, reset, next, versions over a small universe of names that are prefixes of one '
                'another (A, A2, A20, sv, sv_, 1, 11 ...), several versions and parents; each history runs on real '
                'shelve files and on the Lean model; non-trivial = at least two stores and one name-addressed '
                'operation; distinct by the operation list')
    res.assumptions = list(TRUSTED)
    lines, pending = [], []
    found = []
    for ops in CORPUS + file_corpus('C08'):
        found += [(p, ops, 'direct') for p in check_history(rn, res, ops, 'corpus', lines, pending)]
    for ops in CORPUS[:4]:
        found += [(p, ops, 'loopback') for p in check_history(rn, res, ops, 'corpus-loopback', lines, pending, 'loopback')]
    n = 1500 if thorough else 260
    for i in range(n):
        ops = gen_history(r)
        mode = 'loopback' if i % 25 == 0 else 'direct'
        found += [(p, ops, mode) for p in check_history(rn, res, ops, 'random', lines, pending, mode)]
    for _ in range(n // 6):
        ops = gen_history(r, odd=True)
        check_history(rn, res, ops, 'odd-names', lines, pending)
    if thorough:
        # exhaustive small scope: every history of length 4 over a collision-rich alphabet
        alpha = [['store', 1, 'X', 't', 'A', V1, 'sv', V1, 'v', V1, 1], ['store', 1, 'X', 't', 'A2', V2, 'sv', V1, 'v', V1, 2],
                 ['remove', 1, 'X', 't', 'A', 'sv', 'v'],
                 ['remove', 1, 'X', 't', 'A2', 'sv', 'v'], ['trace', [['t', 'A']]], ['reset', 1, 'X', 't', 'A', ['sv']],
                 ['close'], ['open']]
        for seq in itertools.product(alpha, repeat=4):
            ops = [['open']] + [list(o) for o in seq] + [['open'], ['next'], ['keys'], ['dump']]
            found += [(p, ops, 'direct') for p in check_history(rn, res, ops, 'exhaustive-4', lines, pending)]
    # shrink one witness per signature
    done = set()
    for (sig, what), ops, mode in found:
        if sig in done:
            continue
        done.add(sig)
        small = shrink(rn, ops, sig, mode)
        _o, problems = rn.run(small, mode)
        for s2, w2 in problems:
            if s2 == sig:
                res.hit(sig, w2, {'mode': mode, 'ops': small})
    grid(rn, res, lines, pending)
    if ctx['lean']:
        outs = common.driver(lines, 'C08')
        for p, out in zip(pending, outs):
            if p[0] == 'grid':
                compare_grid(res, p[1], p[2], p[3], out)
                continue
            _tag, mode, ops, obs = p
            m = common.parse_sx(out)
            for i, (op, o, mo) in enumerate(zip(ops, obs, m)):  # zip stops at the crawler
                a, b = model_obs(op, mo), impl_obs(op, o)
                if a != b:
                    res.diff('Store model vs dawgie.db.shelve', {'mode': mode, 'ops': ops[:i + 1]}, a, b)
                    break
        res.traces = len([p for p in pending if p[0] != 'grid'])


def replay(rep, res):
    rn = Runner()
    inp = rep['input']
    rn.S.install_loopback()
    ops = json.loads(json.dumps(inp['ops']))
    _obs, problems = rn.run(ops, inp.get('mode', 'direct'))
    for sig, what in problems:
        res.hit(sig, what, inp)
