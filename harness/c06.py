"""C06 -- stored values come back intact, and only to their own author, version, target.

Loop-back harness (DESIGN 3.2): `dawgie.db.shelve.connect(alg, bot, tn)` gives the real
`model.Interface`; its `update()` / `load()` run the real `_update`, `_load`, `__to_key`,
`_set_prime`, `_get_prime`, `db.util.encode` (pickle + md5sum/sha1sum) and `decode`; every
`Connector.__do`, `comms.acquire`, `comms.release` is pickled, framed and delivered to a real
`comms.Worker.dataReceived` -> `Worker.do` -> `util.append` / `db.util.move` / the real shelve
files in a fresh temp dir.  Only the sockets (and the reactor clock of the lock poller) are
replaced.  `shelve.remove/add/open/close` are the real module functions.

Monitor = a Python dictionary keyed by (target, task, alg+ver, sv+ver, value+ver) -> {run: payload}.
Correspondence = the same history, value by value, to `Model/Store.lean`."""
import json

from . import common
from .c08_store import Store
from . import c08

LEAN_TARGETS = ['DawgieVerif.Model.StoreIO']

MANIFEST = dict(
    text='Lean theorems over the executable catalogue model shared with C08. Stored s target identity run '
         'content (identity = task, algorithm, state vector, value names with versions, read back from the '
         'tables with dissect) is a partial function (stored_functional) and, for every history of opens, '
         'closes, target additions, registrations, stores, loads and removals, equals the cell map of a tiny '
         'abstract store (history_refines; per operation store_refines, remove_refines); load never raises '
         'on a reachable open catalogue and reads the requested run when present, else the highest run, else '
         'leaves the value untouched (load_reads, load_returns against LoadSpec), and the entry it reads '
         'resolves to exactly the requested target / author / versions (load_isolated); value level under '
         'the pickle round-trip law (load_value). Tied to the real Interface / Worker / encode / decode code '
         'by a loop-back correspondence on real shelve files with a dictionary reference monitor.',
    note='Trusted: Lean kernel; axioms propext/Classical.choice/Quot.sound only; tools/gen_c08.py (shared '
         'generated definitions: __to_key call table, _load fall-back constants, tokens, subset filters); '
         'harness loop-back (sockets and lock-poller clock replaced). Assumed and sampled: pickle round '
         'trip; blob name determines content (md5+sha1 injectivity, hypothesis Op.Hashed, subject of C07); '
         'dbm.dumb persistence. Names restricted to NameOK (no colon). Contents are opaque in the model. '
         'The metric state vector is walked by every load but never stored by the harness; _update_msv, '
         '_collect, _recede, retarget are not modelled. PostgreSQL backend (db/post) needs a server and is '
         'NOT tied: the theorems speak about the shelve backend only.',
    technique='Lean 4 proof (refinement to an abstract store, invariant over histories) + differential correspondence',
    design='7/C06',
)

TRUSTED = [
    'pickle.dump/load round trip of the stored Value (parameter decode (encode v) = v, sampled on generated payloads)',
    'md5sum+sha1sum: equal blob names imply equal contents (digest injectivity, the subject of C07)',
    'Connector.__do / comms.acquire / comms.release replaced by a loop-back to a real comms.Worker on a fake transport',
    'CPython shelve/dbm.dumb persistence and insertion-ordered iteration',
]

TARGETS = ['X', 'X1', '__all__', '1']
NEW_TARGETS = ['N', 'X2']
TASKS = ['t', 't2']
ALGS = ['A', 'A2', '1']
SVS = ['sv', 'sv_', '1']
VALS = ['v', 'v1', '1']
VERS = [[1, 0, 0], [1, 0, 1], [1, 1, 0], [2, 0, 0], [10, 0, 0]]
RUNS = [0, 1, 2, 3, 10, 11]
# payload descriptors (JSON-able, so that replays are exact); `mk_payload` builds the Python object
PAYLOADS = [0, 1, -7, 3.5, 'txt', 'é', None, True, [1, [2, 3]], {'a': [1, 2], 'b': None}, 10 ** 30, '', [], {},
            {'__bytes__': [0, 255, 10]}, {'__tuple__': [1, 'x', [2]]}, {'__set__': [1, 2, 3]},
            {'__complex__': [1.5, -2.0]}]


BIG_HEAD = (1 << 20) + 4096   # the pickle exceeds one MiB and two such values agree on their first MiB


def short(x):
    """printable form of a payload (bulky ones by length and digest)"""
    r = repr(x)
    if len(r) <= 120:
        return r
    import hashlib
    return f'<{type(x).__name__} of {len(x) if hasattr(x, "__len__") else "?"} items, sha1 ' \
           f'{hashlib.sha1(r.encode()).hexdigest()[:12]}, ends {r[-24:]}>'


def mk_payload(d):
    if isinstance(d, dict):
        if '__big__' in d:
            # a bulky value: a common head of more than one MiB, then a short tail that tells them apart
            return bytes([d['__big__'][0] % 256]) * BIG_HEAD + str(d['__big__'][1]).encode()
        if '__bytes__' in d:
            return bytes(d['__bytes__'])
        if '__tuple__' in d:
            return tuple(mk_payload(x) for x in d['__tuple__'])
        if '__set__' in d:
            return frozenset(d['__set__'])
        if '__complex__' in d:
            return complex(*d['__complex__'])
        return {k: mk_payload(v) for k, v in d.items()}
    if isinstance(d, list):
        return [mk_payload(x) for x in d]
    return d

nm = c08.nm


def metric_items(S):
    """the metric state vector every `_load` walks after the algorithm's own state vectors"""
    import dawgie.util
    import dawgie.util.metrics
    z = dawgie.util.metrics.filled(-1)
    msv = dawgie.util.MetricStateVector(z, z)
    return msv.name(), list(msv._get_ver()), [(k, list(msv[k]._get_ver())) for k in msv]  # pylint: disable=protected-access


class Runner:
    def __init__(self):
        import logging
        logging.getLogger('dawgie').setLevel(logging.ERROR)  # "No matches for ..." is expected output here
        self.S = Store()
        self.S.install_loopback()
        self.msv = metric_items(self.S)

    def run(self, ops):
        """returns (observations, problems, model_ops); model_ops[i] = list of model operations
        equivalent to ops[i] together with the implementation's observation for each"""
        S = self.S
        S.fresh()
        ref = {}      # identity -> {run: payload}
        self.old = {}  # identity -> payloads that were overwritten or removed later
        self.handed = []   # every Value object a load handed out in this history
        self.mutations = 0
        problems, obs, mops = [], [], []
        blob_ids = {}
        for op in ops:
            o, m = self.step(op, ref, problems, blob_ids)
            obs.append(o)
            mops.append(m)
        if S.locks != 0 or S.context.db_lock:
            problems.append(('C06:lock-left', 'the database lock is still held after the history'))
            S.locks = 0
        S.discard()
        return obs, problems, mops

    def step(self, op, ref, problems, blob_ids):
        S = self.S
        kind = op[0]
        try:
            if kind == 'open':
                S.open()
                return ['ok'], [(['open'], ['ok'])]
            if kind == 'close':
                S.close()
                return ['ok'], [(['close'], ['ok'])]
            if kind == 'add':
                S.shelve.add(op[1])
                return ['ok'], [(['add', nm(op[1])], ['ok'])]
            if kind == 'remove':
                S.shelve.remove(*op[1:])
                rid, tn, task, alg, sv, vn = op[1:]
                for ident, runs in ref.items():
                    if (ident[0], ident[1], ident[2][0], ident[3][0], ident[4][0]) == (tn, task, alg, sv, vn):
                        if rid in runs:
                            self.old.setdefault(ident, []).append(runs.pop(rid))
                return ['ok'], [(['remove', rid] + [nm(x) for x in op[2:]], ['ok'])]
            if kind == 'update':
                return self.update(op, ref, problems, blob_ids)
            if kind in ('load', 'load-mutate'):
                return self.load(op, ref, problems, blob_ids)
            if kind == 'dump':
                o = c08.Runner.step(self, op, None, problems, None, 'direct')
                return o, [(['dump'], o)]
        except RuntimeError as e:
            if 'before open' in str(e):
                return ['err', 'closed'], [(self.model_probe(op), ['err', 'closed'])]
            return self.raised(op, e, problems)
        except KeyError as e:
            if kind == 'remove':
                return ['err', 'key'], [(self.model_probe(op), ['err', 'key'])]
            return self.raised(op, e, problems)
        except Exception as e:  # pylint: disable=broad-except
            return self.raised(op, e, problems)
        raise ValueError(f'unknown op {op!r}')

    def raised(self, op, e, problems):
        """the code under test raised inside one operation: an observation and a finding, not a crash
        (on a reachable open catalogue update / load / add / remove of known names never raise)"""
        S = self.S
        if S.locks:
            S.locks = 0
            S.context.db_lock = False
        problems.append(('C06:operation-raises', f'{op[0]}{tuple(op[1:5])} raised {type(e).__name__}: {str(e)[:120]}'))
        return ['err', 'raised', type(e).__name__], [(self.model_probe(op), ['err', 'raised'])]

    @staticmethod
    def model_probe(op):
        """the model operation that shows the same error (first value of an update / load)"""
        k = op[0]
        if k in ('open', 'close', 'dump'):
            return [k]
        if k == 'add':
            return ['add', nm(op[1])]
        if k == 'remove':
            return ['remove', op[1]] + [nm(x) for x in op[2:]]
        _, run, tn, task, alg, av, svs = op
        sv, svv, vals = svs[0]
        v = vals[0]
        head = [run, nm(tn), nm(task), nm(alg), list(av), nm(sv), list(svv), nm(v[0]), list(v[1])]
        return ['store'] + head + [nm('x'), 0] if k == 'update' else ['load'] + head

    def objects(self, op, with_payload):
        S = self.S
        _, run, tn, task, alg, av, svs = op
        svos = []
        for sv, svv, vals in svs:
            svos.append(S.SV(sv, svv, [(v[0], S.Val(v[1], mk_payload(v[2]) if with_payload else ('placeholder', sv, v[0])))
                                       for v in vals]))
        return S.Alg(alg, av, svos), S.Bot(task, run), svos

    def update(self, op, ref, problems, blob_ids):
        S = self.S
        _, run, tn, task, alg, av, svs = op
        algo, bot, _svos = self.objects(op, True)
        ds = S.interface(algo, bot, tn)
        S.log.clear()
        ds.update()
        sets = [(rq, rp) for rq, rp in S.log if rq.func == S.comms.Func.set]
        items = [(sv, svv, v) for sv, svv, vals in svs for v in vals]
        if len(sets) != len(items) or len(bot.nv) != len(items):
            problems.append(('C06:update-count', f'update stored {len(sets)} values for {len(items)} in the state vectors'))
        mops, flags = [], []
        for (sv, svv, v), (rq, exists), nv in zip(items, sets, bot.nv):
            blob = rq.value[1]
            blob_ids.setdefault(blob, len(blob_ids) + 1)
            ident = (tn, task, (alg, tuple(av)), (sv, tuple(svv)), (v[0], tuple(v[1])))
            cell = ref.setdefault(ident, {})
            if run in cell:
                self.old.setdefault(ident, []).append(cell[run])
            cell[run] = mk_payload(v[2])
            key = list(rq.keyset)
            flags.append([key, bool(exists)])
            if nv != ('.'.join([str(run), tn, task, alg, sv, v[0]]), not exists):
                problems.append(('C06:new-values', f'new_values reported {nv} for a store whose blob existed={exists}'))
            mops.append((['store', run, nm(tn), nm(task), nm(alg), list(av), nm(sv), list(svv), nm(v[0]), list(v[1]),
                          nm(blob), blob_ids[blob]], ['ok', key, bool(exists)]))
        return ['ok', flags], mops

    def load(self, op, ref, problems, blob_ids):
        S = self.S
        _, run, tn, task, alg, av, svs = op
        algo, bot, svos = self.objects(op, False)
        before = {(svo.name(), k): svo[k] for svo in svos for k in svo}
        ds = S.interface(algo, bot, tn)
        S.log.clear()
        ds.load()
        gets = [(rq, rp) for rq, rp in S.log if rq.func == S.comms.Func.get]
        mops, out = [], []
        gi = 0
        for (sv, svv, vals), svo in zip(svs, svos):
            for v in vals:
                got = svo[v[0]]
                ident = (tn, task, (alg, tuple(av)), (sv, tuple(svv)), (v[0], tuple(v[1])))
                m = ref.get(ident, {})
                want = m[run] if run in m else (m[max(m)] if m else None)
                head = ['load', run, nm(tn), nm(task), nm(alg), list(av), nm(sv), list(svv), nm(v[0]), list(v[1])]
                if got is before[(sv, v[0])]:
                    touched = None
                    mops.append((head, ['ok', None]))
                elif gi < len(gets):
                    rq, blob = gets[gi]
                    gi += 1
                    touched = got
                    mops.append((head, ['ok', list(rq.keyset), blob_ids.get(blob, -1)]))
                else:
                    touched = got  # replaced without asking the foreman for the primary entry
                    mops.append((head, ['ok', 'no-get-request']))
                out.append(None if touched is None else short(getattr(touched, 'payload', '<no payload>')))
                n0 = len(problems)
                self.judge(op, ident, run, m, want, touched, ref, problems, self.old.get(ident, []))
                if touched is not None:
                    if len(problems) > n0 and any(touched is x for x in self.handed):
                        sig, what = problems[-1]
                        problems[-1] = (sig, what + ' -- it is the very object an earlier load handed out '
                                                    '(loads must return independent copies of what was stored)')
                    self.handed.append(touched)
                    if op[0] == 'load-mutate':
                        # the reader works on its input in place, as algorithms do with loaded state vectors
                        self.mutations += 1
                        p = getattr(touched, 'payload', None)
                        if isinstance(p, list):
                            p.append(['appended by the reader', self.mutations])
                        elif isinstance(p, dict):
                            p['changed by the reader'] = self.mutations
                        touched.payload = ['replaced by the reader', self.mutations, short(p)]
                        touched.scratch = self.mutations
        # the metric state vector: walked by the real _load after the algorithm's own state vectors
        name, ver, keys = self.msv
        for k, kv in keys:
            mops.append((['load', run, nm(tn), nm(task), nm(alg), list(av), nm(name), ver, nm(k), kv], ['ok', None]))
        return ['ok', out], mops

    @staticmethod
    def judge(op, ident, run, m, want, touched, ref, problems, old=()):
        """the property on one loaded value"""
        where = f'load(run={run}) of {ident}'

        def same(a, b):
            return type(a) is type(b) and a == b

        if touched is not None and not (m and same(getattr(touched, 'payload', '<no payload>'), want)) \
                and any(same(getattr(touched, 'payload', '<no payload>'), p) for p in old):
            problems.append(('C06:load-stale', f'{where}: got a payload of this identity that was overwritten or '
                                               f'removed before the load: {short(getattr(touched, "payload", None))}'
                                               + (f', stored now {short(want)}' if m else ', nothing is stored now')))
            return
        if not m:
            if touched is not None:
                problems.append(('C06:load-foreign', f'{where}: nothing stored for this identity, yet the value was '
                                                     f'replaced by payload {short(getattr(touched, "payload", None))}'))
            return
        if touched is None:
            problems.append(('C06:load-missing', f'{where}: runs {sorted(m)} are stored, the value was left untouched'))
            return
        got = getattr(touched, 'payload', '<no payload>')
        if type(got) is type(want) and got == want:
            return
        if any(type(got) is type(p) and got == p for p in m.values()):
            problems.append(('C06:load-wrong-run', f'{where}: got the payload of another run (stored runs {sorted(m)})'))
        elif any(type(got) is type(p) and got == p for mm in ref.values() for p in mm.values()):
            owner = [i for i, mm in ref.items() if any(type(got) is type(p) and got == p for p in mm.values())]
            problems.append(('C06:load-foreign', f'{where}: got a payload stored by {owner[0]}'))
        else:
            problems.append(('C06:load-altered', f'{where}: got {short(got)}, stored {short(want)}'))


# ---------------------------------------------------------------------- model side
def to_line(mops):
    return common.sx(['store', 'history'] + [m for ms in mops for m, _o in ms])


def model_obs(mop, m):
    if m[0] == 'err':
        return ['err', 'value' if m[1] == 'attr' else m[1]]
    if m[0] == 'bad-op':
        return ['bad-op', m[1]]
    k = mop[0]
    if k in ('open', 'close', 'add', 'remove'):
        return ['ok']
    if k == 'store':
        return ['ok', [int(i) for i in m[1]], m[2] == 'T']
    if k == 'load':
        if m[1] == 'N':
            return ['ok', None]
        return ['ok', [int(i) for i in m[1]], int(m[2])]
    if k == 'dump':
        return c08.model_obs(['dump'], m)
    raise ValueError(k)


# ---------------------------------------------------------------------- generators
def gen_history(r, counter):
    tg = r.sample(TARGETS, r.choice([1, 2]))
    tk = r.sample(TASKS, r.choice([1, 2]))
    al = r.sample(ALGS, r.choice([1, 2]))
    sv = r.sample(SVS, r.choice([1, 2]))
    va = r.sample(VALS, r.choice([1, 2]))
    ve = r.sample(VERS, r.choice([1, 2, 2]))
    runs = r.sample(RUNS, r.choice([2, 3]))

    def svs(with_payload):
        out = []
        for s in r.sample(sv, r.randrange(1, len(sv) + 1)):
            vals = []
            for v in r.sample(va, r.randrange(1, len(va) + 1)):
                if with_payload:
                    counter[0] += 1
                    # mostly unique payloads (so that the monitor can name the owner), sometimes a repeated one
                    p = r.choice(PAYLOADS) if r.random() < 0.25 else ['p', counter[0], r.choice(PAYLOADS)]
                    vals.append([v, r.choice(ve), p])
                else:
                    vals.append([v, r.choice(ve)])
            out.append([s, r.choice(ve), vals])
        return out

    def shape_of(u):
        return [[s, sver, [[v[0], v[1]] for v in vals]] for s, sver, vals in u[6]]

    def rewrite_of(u):
        """the same (run, target, identity) cells with other contents"""
        out = []
        for s, sver, vals in u[6]:
            nv = []
            for v in vals:
                counter[0] += 1
                nv.append([v[0], v[1], ['rewritten', counter[0]]])
            out.append([s, sver, nv])
        return u[:6] + [out]

    tg = list(tg)
    fresh_targets = [t for t in TARGETS + NEW_TARGETS if t not in tg]
    ops = [['open']]
    for _ in range(r.choice([3, 5, 8, 12])):
        x = r.random()
        if x < 0.42:
            u = ['update', r.choice(runs), r.choice(tg), r.choice(tk), r.choice(al), r.choice(ve), svs(True)]
            ops.append(u)
            if r.random() < 0.35:
                # load -> store the SAME cells again with other contents -> load (regressions rewrite run 0;
                # a re-run rewrites its run id): the second load must see the new contents
                ops.extend([[r.choice(['load', 'load-mutate']), u[1], u[2], u[3], u[4], u[5], shape_of(u)], rewrite_of(u),
                            ['load', r.choice([u[1], 99]), u[2], u[3], u[4], u[5], shape_of(u)]])
            elif r.random() < 0.3:
                # a reader changes what it loaded in place; later loads must still see what was stored
                ops.extend([['load-mutate', r.choice([u[1], 99]), u[2], u[3], u[4], u[5], shape_of(u)],
                            ['load', r.choice([u[1], 99]), u[2], u[3], u[4], u[5], shape_of(u)]])
        elif x < 0.50 and fresh_targets and any(o[0] == 'update' for o in ops):
            # a target introduced by dawgie.db.add() (not by its first update), then used like the others
            t = fresh_targets.pop(r.randrange(len(fresh_targets)))
            u0 = r.choice([o for o in ops if o[0] == 'update'])
            ops.extend([['add', t], ['load', u0[1], t, u0[3], u0[4], u0[5], shape_of(u0)]])
            un = rewrite_of(u0)
            un[2] = t
            ops.extend([un, ['load', u0[1], u0[2], u0[3], u0[4], u0[5], shape_of(u0)],
                        ['load', u0[1], t, u0[3], u0[4], u0[5], shape_of(u0)]])
            tg.append(t)
        elif x < 0.78:
            ops.append([r.choice(['load', 'load', 'load-mutate']), r.choice(runs + [7]), r.choice(tg), r.choice(tk),
                        r.choice(al), r.choice(ve), svs(False)])
        elif x < 0.88:
            ops.append(['remove', r.choice(runs), r.choice(tg), r.choice(tk), r.choice(al), r.choice(sv), r.choice(va)])
        elif x < 0.92:
            ops.append(['add', r.choice(TARGETS)])
        else:
            ops.extend([['close'], ['open']] if r.random() < 0.8 else [['close']])
    # read back what was stored (same shape, so that most values are hit), then the tables
    ups = [o for o in ops if o[0] == 'update']
    for u in r.sample(ups, min(len(ups), 3)):
        ops.append(['load', r.choice(runs + [99]), u[2], u[3], u[4], u[5], shape_of(u)])
    ops.append(['dump'])
    return ops


V1, V2 = [1, 0, 0], [2, 0, 0]
CORPUS = [
    # requested run present / absent (fall back to the highest) / nothing stored
    [['open'], ['update', 2, 'X', 't', 'A', V1, [['sv', V1, [['v', V1, 'two']]]]],
     ['update', 10, 'X', 't', 'A', V1, [['sv', V1, [['v', V1, 'ten']]]]],
     ['update', 3, 'X', 't', 'A', V1, [['sv', V1, [['v', V1, 'three']]]]],
     ['load', 3, 'X', 't', 'A', V1, [['sv', V1, [['v', V1]]]]], ['load', 7, 'X', 't', 'A', V1, [['sv', V1, [['v', V1]]]]],
     ['load', 7, 'X', 't', 'A', V1, [['sv', V1, [['v1', V1]]]]], ['dump']],
    # isolation: other target, other task, prefix-named algorithm / state vector / value, other versions
    [['open'], ['update', 1, 'X', 't', 'A', V1, [['sv', V1, [['v', V1, 'mine']]]]],
     ['update', 5, 'X1', 't', 'A', V1, [['sv', V1, [['v', V1, 'other target']]]]],
     ['update', 5, 'X', 't2', 'A', V1, [['sv', V1, [['v', V1, 'other task']]]]],
     ['update', 5, 'X', 't', 'A2', V1, [['sv', V1, [['v', V1, 'other alg']]]]],
     ['update', 5, 'X', 't', 'A', V2, [['sv', V1, [['v', V1, 'other alg version']]]]],
     ['update', 5, 'X', 't', 'A', V1, [['sv', V2, [['v', V1, 'other sv version']]]]],
     ['update', 5, 'X', 't', 'A', V1, [['sv', V1, [['v', V2, 'other value version']]]]],
     ['update', 5, 'X', 't', 'A', V1, [['sv_', V1, [['v', V1, 'other sv']]]]],
     ['update', 5, 'X', 't', 'A', V1, [['sv', V1, [['v1', V1, 'other value']]]]],
     ['load', 9, 'X', 't', 'A', V1, [['sv', V1, [['v', V1]]]]], ['load', 5, 'X', 't', 'A', V1, [['sv', V1, [['v', V1]]]]],
     ['load', 9, 'X', 't', 'A', V2, [['sv', V2, [['v', V2]]]]], ['dump']],
    # remove then load; close / reopen; same payload twice (blob exists)
    [['open'], ['update', 1, 'X', 't', 'A', V1, [['sv', V1, [['v', V1, 'same'], ['v1', V1, 'same']]]]],
     ['update', 2, 'X', 't', 'A', V1, [['sv', V1, [['v', V1, 'two']]]]], ['remove', 2, 'X', 't', 'A', 'sv', 'v'],
     ['load', 2, 'X', 't', 'A', V1, [['sv', V1, [['v', V1], ['v1', V1]]]]], ['close'],
     ['load', 2, 'X', 't', 'A', V1, [['sv', V1, [['v', V1]]]]], ['open'],
     ['load', 1, 'X', 't', 'A', V1, [['sv', V1, [['v', V1], ['v1', V1]]]]],
     ['remove', 1, 'X', 't', 'A', 'sv', 'v'], ['load', 1, 'X', 't', 'A', V1, [['sv', V1, [['v', V1], ['v1', V1]]]]], ['dump']],
    # run ids whose decimal strings are prefixes of one another; overwrite of an existing entry
    [['open'], ['update', 1, '1', 't', '1', V1, [['1', V1, [['1', V1, 'one']]]]],
     ['update', 11, '1', 't', '1', V1, [['1', V1, [['1', V1, 'eleven']]]]],
     ['update', 1, '1', 't', '1', V1, [['1', V1, [['1', V1, 'one again']]]]],
     ['load', 1, '1', 't', '1', V1, [['1', V1, [['1', V1]]]]], ['load', 10, '1', 't', '1', V1, [['1', V1, [['1', V1]]]]], ['dump']],
    # load -> rewrite of the same (run, target, identity) -> load, directly, through the fall-back, across
    # close/open and after remove + store again (a client-side memo of key -> blob goes stale here)
    [['open'], ['update', 0, 'X', 't', 'A', V1, [['sv', V1, [['v', V1, 'first']]]]],
     ['load', 0, 'X', 't', 'A', V1, [['sv', V1, [['v', V1]]]]],
     ['update', 0, 'X', 't', 'A', V1, [['sv', V1, [['v', V1, 'second']]]]],
     ['load', 0, 'X', 't', 'A', V1, [['sv', V1, [['v', V1]]]]], ['load', 5, 'X', 't', 'A', V1, [['sv', V1, [['v', V1]]]]],
     ['close'], ['open'], ['update', 0, 'X', 't', 'A', V1, [['sv', V1, [['v', V1, 'third']]]]],
     ['load', 0, 'X', 't', 'A', V1, [['sv', V1, [['v', V1]]]]], ['remove', 0, 'X', 't', 'A', 'sv', 'v'],
     ['load', 0, 'X', 't', 'A', V1, [['sv', V1, [['v', V1]]]]],
     ['update', 0, 'X', 't', 'A', V1, [['sv', V1, [['v', V1, 'fourth']]]]],
     ['load', 0, 'X', 't', 'A', V1, [['sv', V1, [['v', V1]]]]], ['dump']],
    # three targets stored by one task (3 target ids, 1 task id), then a target introduced by dawgie.db.add():
    # nothing is stored for it, its update must not touch the others, also after close/open
    [['open'], ['update', 1, 'X', 't', 'A', V1, [['sv', V1, [['v', V1, 'of X']]]]],
     ['update', 1, 'X1', 't', 'A', V1, [['sv', V1, [['v', V1, 'of X1']]]]],
     ['update', 1, '1', 't', 'A', V1, [['sv', V1, [['v', V1, 'of 1']]]]], ['add', 'N'],
     ['load', 1, 'N', 't', 'A', V1, [['sv', V1, [['v', V1]]]]], ['load', 4, 'N', 't', 'A', V1, [['sv', V1, [['v', V1]]]]],
     ['update', 1, 'N', 't', 'A', V1, [['sv', V1, [['v', V1, 'of N']]]]],
     ['load', 1, 'X', 't', 'A', V1, [['sv', V1, [['v', V1]]]]], ['load', 1, 'X1', 't', 'A', V1, [['sv', V1, [['v', V1]]]]],
     ['load', 1, '1', 't', 'A', V1, [['sv', V1, [['v', V1]]]]], ['load', 1, 'N', 't', 'A', V1, [['sv', V1, [['v', V1]]]]],
     ['close'], ['open'], ['add', 'X2'], ['load', 1, 'X1', 't', 'A', V1, [['sv', V1, [['v', V1]]]]],
     ['load', 1, 'X2', 't', 'A', V1, [['sv', V1, [['v', V1]]]]], ['load', 1, 'N', 't', 'A', V1, [['sv', V1, [['v', V1]]]]], ['dump']],
    # bulky values (pickle > 1 MiB) that differ only after their first MiB, under another target, another run,
    # another author and another value name: each load must give back exactly its own bytes, also after reopen
    [['open'], ['update', 1, 'X', 't', 'A', V1, [['sv', V1, [['v', V1, {'__big__': [7, 'tail of X run 1']}],
                                                             ['v1', V1, 'small sibling']]]]],
     ['update', 1, 'X1', 't', 'A', V1, [['sv', V1, [['v', V1, {'__big__': [7, 'tail of X1 run 1']}]]]]],
     ['update', 2, 'X', 't', 'A', V1, [['sv', V1, [['v', V1, {'__big__': [7, 'tail of X run 2']}]]]]],
     ['update', 1, 'X', 't', 'A2', V1, [['sv', V1, [['v', V1, {'__big__': [7, 'tail of A2']}]]]]],
     ['load', 1, 'X', 't', 'A', V1, [['sv', V1, [['v', V1], ['v1', V1]]]]], ['load', 1, 'X1', 't', 'A', V1, [['sv', V1, [['v', V1]]]]],
     ['load', 2, 'X', 't', 'A', V1, [['sv', V1, [['v', V1]]]]], ['load', 1, 'X', 't', 'A2', V1, [['sv', V1, [['v', V1]]]]],
     ['load', 7, 'X1', 't', 'A', V1, [['sv', V1, [['v', V1]]]]], ['close'], ['open'],
     ['load', 1, 'X', 't', 'A', V1, [['sv', V1, [['v', V1]]]]], ['load', 1, 'X1', 't', 'A', V1, [['sv', V1, [['v', V1]]]]],
     ['load', 9, 'X', 't', 'A', V1, [['sv', V1, [['v', V1]]]]], ['load', 1, 'X', 't', 'A2', V1, [['sv', V1, [['v', V1]]]]], ['dump']],
    # a reader changes the loaded objects in place (list appended to, attribute replaced); every later load --
    # same key, the fall-back from another run, another target whose content was equal when stored, after a
    # further update, after close/open -- must hand out what was stored, not the reader's object
    [['open'], ['update', 3, 'X', 't', 'A', V1, [['sv', V1, [['v', V1, [1, 2, 3]], ['v1', V1, 'text']]]]],
     ['update', 3, 'X1', 't', 'A', V1, [['sv', V1, [['v', V1, [1, 2, 3]]]]]],
     ['load-mutate', 3, 'X', 't', 'A', V1, [['sv', V1, [['v', V1], ['v1', V1]]]]],
     ['load', 3, 'X', 't', 'A', V1, [['sv', V1, [['v', V1], ['v1', V1]]]]], ['load', 8, 'X', 't', 'A', V1, [['sv', V1, [['v', V1]]]]],
     ['load', 3, 'X1', 't', 'A', V1, [['sv', V1, [['v', V1]]]]],
     ['update', 5, 'X', 't', 'A', V1, [['sv', V1, [['v', V1, {'k': [4]}]]]]],
     ['load-mutate', 5, 'X', 't', 'A', V1, [['sv', V1, [['v', V1]]]]], ['load', 9, 'X', 't', 'A', V1, [['sv', V1, [['v', V1]]]]],
     ['load', 3, 'X', 't', 'A', V1, [['sv', V1, [['v', V1]]]]], ['close'], ['open'],
     ['load-mutate', 3, 'X1', 't', 'A', V1, [['sv', V1, [['v', V1]]]]], ['load', 3, 'X1', 't', 'A', V1, [['sv', V1, [['v', V1]]]]],
     ['load', 3, 'X', 't', 'A', V1, [['sv', V1, [['v', V1], ['v1', V1]]]]], ['dump']],
    # more tasks than targets when the target is added
    [['open'], ['update', 1, 'X', 't', 'A', V1, [['sv', V1, [['v', V1, 'x t']]]]],
     ['update', 1, 'X', 't2', 'A', V1, [['sv', V1, [['v', V1, 'x t2']]]]], ['add', 'N'],
     ['update', 1, 'X1', 't', 'A', V1, [['sv', V1, [['v', V1, 'x1 t']]]]],
     ['update', 1, '1', 't', 'A', V1, [['sv', V1, [['v', V1, '1 t']]]]],
     ['load', 1, 'N', 't', 'A', V1, [['sv', V1, [['v', V1]]]]], ['update', 1, 'N', 't', 'A', V1, [['sv', V1, [['v', V1, 'n t']]]]],
     ['load', 1, '1', 't', 'A', V1, [['sv', V1, [['v', V1]]]]], ['load', 1, 'X1', 't', 'A', V1, [['sv', V1, [['v', V1]]]]],
     ['close'], ['open'], ['load', 1, '1', 't', 'A', V1, [['sv', V1, [['v', V1]]]]],
     ['load', 1, 'N', 't', 'A', V1, [['sv', V1, [['v', V1]]]]], ['dump']],
]


def check_history(rn, res, ops, tag, lines, pending):
    obs, problems, mops = rn.run(ops)
    for sig, what in problems:
        res.hit(sig, what, {'ops': ops})
    lines.append(to_line(mops))
    pending.append((ops, mops))
    kinds = [o[0] for o in ops]
    loaded = [x for op, o in zip(ops, obs) if op[0] in ('load', 'load-mutate') and o[0] == 'ok' for x in o[1]]
    res.case(json.dumps(ops), nontrivial=kinds.count('update') >= 1 and any(x is not None for x in loaded),
             sample={'ops': ops[:6], 'observed': obs[:6]} if tag == 'random' else None)
    res.count('history:' + tag)
    for k in kinds:
        res.count('op:' + k)
    res.count('loaded:value', len([x for x in loaded if x is not None]))
    res.count('loaded:untouched', len([x for x in loaded if x is None]))
    return problems


def shrink(rn, ops, sig):
    cur = list(ops)
    budget = 60
    changed = True
    while changed and budget > 0:
        changed = False
        for i in range(len(cur) - 1, 0, -1):
            budget -= 1
            cand = cur[:i] + cur[i + 1:]
            _o, problems, _m = rn.run(cand)
            if any(s == sig for s, _ in problems):
                cur, changed = cand, True
                break
            if budget <= 0:
                break
    return cur


def run(ctx, res):
    rn = Runner()
    r = common.rng(ctx['seed'], 'C06')
    thorough = ctx['tier'] == 'thorough' or ctx['escalate']
    res.rule = ('histories of update / load / remove / target add / close+reopen through the real Interface and a '
                'loop-back Worker over author names that are prefixes of one another, several versions, targets, '
                'run ids and picklable payloads; every value read back is compared with a dictionary reference; '
                'each history also runs value by value on the Lean model; non-trivial = at least one update and '
                'one value actually loaded; distinct by the operation list')
    res.assumptions = list(TRUSTED)
    lines, pending, found = [], [], []
    counter = [0]
    for ops in CORPUS + c08.file_corpus('C06'):
        found += [(p, ops) for p in check_history(rn, res, ops, 'corpus', lines, pending)]
    n = 400 if thorough else 40
    for _ in range(n):
        ops = gen_history(r, counter)
        found += [(p, ops) for p in check_history(rn, res, ops, 'random', lines, pending)]
    if thorough:
        # exhaustive small scope: every history of length 3 over a collision-rich alphabet, read back at the end
        L = [['sv', V1, [['v', V1]]]]
        alpha = [['update', 2, 'X', 't', 'A', V1, [['sv', V1, [['v', V1, 'r2']]]]],
                 ['update', 9, 'X', 't', 'A', V1, [['sv', V1, [['v', V1, 'r9']]]]],
                 ['update', 9, 'X', 't', 'A', V2, [['sv', V1, [['v', V1, 'r9 v2']]]]],
                 ['update', 5, 'X1', 't', 'A2', V1, [['sv', V1, [['v', V1, 'elsewhere']]]]],
                 ['remove', 9, 'X', 't', 'A', 'sv', 'v'], ['load', 5, 'X', 't', 'A', V1, L], ['close'], ['open']]
        import itertools
        for seq in itertools.product(alpha, repeat=3):
            ops = [['open']] + [list(o) for o in seq] + [['open'], ['load', 9, 'X', 't', 'A', V1, L],
                                                          ['load', 4, 'X', 't', 'A', V2, L], ['dump']]
            found += [(p, ops) for p in check_history(rn, res, ops, 'exhaustive-3', lines, pending)]
    done = set()
    for (sig, _what), ops in found:
        if sig in done:
            continue
        done.add(sig)
        small = shrink(rn, ops, sig)
        _o, problems, _m = rn.run(small)
        for s2, w2 in problems:
            if s2 == sig:
                res.hit(sig, w2, {'ops': small})
    if ctx['lean']:
        outs = common.driver(lines, 'C06')
        for (ops, mops), out in zip(pending, outs):
            m = common.parse_sx(out)
            flat = [(mop, o) for ms in mops for mop, o in ms]
            for i, ((mop, o), mo) in enumerate(zip(flat, m)):
                a = model_obs(mop, mo)
                b = json.loads(json.dumps(o))
                if mop[0] == 'dump':
                    b = c08.impl_obs(['dump'], o)
                if a != b:
                    res.diff('Store model vs Interface/Worker loop-back', {'ops': ops, 'model_op': i, 'op': mop}, a, b)
                    break
        res.traces = len(pending)


def replay(rep, res):
    rn = Runner()
    ops = rep['input']['ops']
    _obs, problems, _m = rn.run(ops)
    for sig, what in problems:
        res.hit(sig, what, rep['input'])
