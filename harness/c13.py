"""C13 — correspondence + monitor for the database lock of the shelve back end.

Real code driven: `dawgie.db.shelve.comms.Worker` objects (`dataReceived`, `do`, `_do_acquire` through
the real `twisted.internet.task.LoopingCall`, `_do_release`, `connectionLost`), `dawgie.context.db_lock`
with `lock_db/unlock_db`, and the blocking client `comms.acquire` (to learn which status value a client
takes for "the lock is yours").  Fakes: one `FakeTransport` per connection, one
`twisted.internet.task.Clock` per looping call (a tick = advance that clock to the next scheduled
poll), `reactor.callLater` captured so that the delayed `LoopingCall.stop` is a schedulable event,
`DBI().task_engine` = a real `lockview.TaskLockEngine`.

An event is `[kind, connection, wire]` with kind in acq / tick / rel / disc / stop; `wire` says
whether a request is delivered as framed pickle through `dataReceived` (True) or by calling `do`
(False).  The monitor works from the messages written to each transport, `context.db_lock` and the
per-connection ownership flag; it does not look at the Lean model."""
import itertools
import multiprocessing
import pickle
import struct
import types

from . import common

LEAN_TARGETS = ['DawgieVerif.Model.LockIO']

MANIFEST = dict(
    text='Lean theorems over an executable model of the lock protocol of db/shelve/comms.py '
         '(context.db_lock and per connection has_lock / looping-call running / stopped flag / '
         'connection-lost flag / scheduled stops), for every list of acquire, poll, release, disconnect '
         'and delayed-stop events on any number of connections, by induction over the event list: '
         'mutex and mutex_count (at most one owner, lock bit set exactly when there is an owner), '
         'told_true and granted_is_told (a connection is sent the status the client loop waits for exactly '
         'in the event that makes it owner), denied_when_held, crash_release (a disconnect clears '
         'ownership, frees the lock if the connection owned it, and the connection is never granted or '
         'told afterwards; its polls become no-ops), crash_keeps_others, granted_when_free and '
         'acquire_when_free, no_starvation and release_then_granted (lock free => the next poll of any '
         'live waiter is a grant, whatever other non-poll events come first), eventually_granted (fair '
         'polling + every owner releases or dies + no new requests => a live waiter is granted), '
         'stop_never_fails, wellformed_no_error and the malformed branches second_acquire_rejected and '
         'release_by_nonholder.  The model is tied to the real Worker objects by a differential run on every '
         'check (every event, every flag of every connection, every message, exception and close request), '
         'and the status function, the granting status, the status the client waits for, the closing '
         'request kinds, the release replies and both enums are regenerated from the source.',
    note='Trusted: Lean kernel; axioms propext/Classical.choice/Quot.sound only; tools/gen_c13.py; harness fakes '
         '(transport, per-connection Clock, captured reactor.callLater). Assumed: the reactor is single threaded and '
         'one Worker callback is one atomic event; Twisted calls connectionLost once per connection and delivers no '
         'request after it; LoopingCall semantics (start runs the first poll at once, asserts on double start / stop) '
         'are modelled from the installed Twisted and compared on every run, not proved; the lockview task_engine '
         'bookkeeping never raises (display only, not modelled). A client whose TCP connection is dead without the server '
         'being notified keeps the lock until connectionLost arrives: outside the model. Individual starvation under an '
         'adversarial schedule with an unbounded supply of new requesters is possible and is excluded by the explicit '
         'hypothesis of eventually_granted (no new acquire requests); the property is read as DESIGN 7/C13 states it.',
    technique='Lean 4 proof (invariant by induction over event lists + a measure argument over infinite fair schedules) '
              '+ differential correspondence on real comms.Worker objects',
    design='7/C13',
)

TRUSTED = [
    'FakeTransport stands for the TCP transport; a connection loss is the harness calling Worker.connectionLost once',
    'twisted.internet.task.Clock drives each LoopingCall; reactor.callLater is captured, the delayed stop is fired by the harness',
    'single-threaded reactor: every Worker callback is one atomic event',
    'DBI().task_engine is a real lockview.TaskLockEngine that never raises',
    'comms.acquire is run against a scripted socket to learn which status value the client takes for "yours"',
]

KINDS = ('acq', 'tick', 'rel', 'disc', 'stop')
# client names sent with an acquire request: the property does not restrict them (the value must
# only be hashable for the lock-view bookkeeping)
NAME_POOL = ('', None, 0, 'x', 'load: tgt.task.alg', 'n' * 2000,
             'n\u00e4me with  spaces\n\t"quotes" (parens) \x00 \\ %s {0}', False, -1, 'None')
REOPEN = 'reopen'   # harness-only event: the shelve DBI is closed and opened again (no model op)


# ------------------------------------------------------------------------------ fakes
class FakeTransport:
    def __init__(self):
        self.written = []
        self.closed = 0
        self.lost = False

    def write(self, b):
        self.written.append(bytes(b))

    def loseConnection(self):
        self.closed += 1


class Delayed:
    """what the captured `reactor.callLater` returns"""

    def __init__(self, delay, fn, a, kw):
        self.delay, self.fn, self.a, self.kw = delay, fn, a, kw
        self.cancelled = False

    def cancel(self):
        self.cancelled = True

    def active(self):
        return not self.cancelled

    def getTime(self):
        return self.delay


class Mods:
    """imports of the code under test + the one process-wide patch (reactor.callLater)"""

    _inst = None

    def __init__(self):
        import dawgie.context as context
        import dawgie.db.lockview as lockview
        import dawgie.db.shelve.comms as comms
        import dawgie.db.shelve.enums as enums
        import dawgie.security as security
        import twisted.internet.error as terror
        import twisted.internet.reactor as reactor
        import twisted.internet.task as task
        import twisted.python.failure as failure
        from dawgie.db.shelve.state import DBI

        self.context, self.lockview, self.comms, self.enums, self.security = (
            context, lockview, comms, enums, security)
        self.task, self.DBI, self.reactor = task, DBI, reactor
        self.reason = failure.Failure(terror.ConnectionDone())
        # what the code under test logs is not part of the observation; keep the check's output clean
        import logging
        lg = logging.getLogger('dawgie')
        lg.addHandler(logging.NullHandler())
        lg.propagate = False
        # an exception inside a poll is swallowed by LoopingCall (its Deferred fails, the call stops);
        # Twisted only logs it ("Unhandled error in Deferred") - send that log nowhere
        import twisted.logger
        twisted.logger.globalLogBeginner.beginLoggingTo(
            [lambda event: None], redirectStandardIO=False, discardBuffer=True)
        self.world = None
        reactor.callLater = self._call_later  # instance attribute: shadows the method
        self.yours = self._client_yours()

    @classmethod
    def get(cls):
        if cls._inst is None:
            cls._inst = Mods()
        return cls._inst

    dbroot = None

    def reopen_db(self):
        """the real `DBI().close(); DBI().open()` (what `Worker._do_copy` does while it holds the
        lock) on a scratch store of this process; it replaces `DBI().task_engine`"""
        import os
        import tempfile
        if Mods.dbroot is None:
            Mods.dbroot = tempfile.mkdtemp(prefix='c13db')
            Mods.own_dbroot = os.getpid()
        d = os.path.join(Mods.dbroot, str(os.getpid()))
        os.makedirs(d, exist_ok=True)
        self.context.db_path, self.context.db_name = d, 'c13'
        self.DBI().close()
        self.DBI().open()

    def cleanup_db(self):
        import os
        import shutil
        try:
            self.DBI().close()
        except Exception:  # pylint: disable=broad-except
            pass
        if Mods.dbroot is not None and getattr(Mods, 'own_dbroot', None) == os.getpid():
            shutil.rmtree(Mods.dbroot, ignore_errors=True)
            Mods.dbroot = None

    def _call_later(self, delay, fn, *a, **kw):
        d = Delayed(delay, fn, a, kw)
        w = self.world
        if w is not None:
            w.pending.setdefault(w.current, []).append(d)
        return d

    def _client_yours(self):
        """status values on which the real blocking client `comms.acquire` returns (= believes it
        holds the lock): the client is run against a socket that answers with one status and then
        fails"""

        class Eof(Exception):
            pass

        out = []
        saved = self.security.connect
        try:
            for m in self.enums.Mutex:
                msg = pickle.dumps(m, pickle.HIGHEST_PROTOCOL)
                stream = bytearray(struct.pack('>I', len(msg)) + msg)
                sent = []

                def recv(k, stream=stream):
                    if not stream:
                        raise Eof()
                    b = bytes(stream[:k])
                    del stream[:k]
                    return b

                sock = types.SimpleNamespace(sendall=sent.append, recv=recv, close=lambda: None)
                self.security.connect = lambda addr, sock=sock: sock
                try:
                    self.comms.acquire('probe')
                    out.append(m.name)
                except Eof:
                    pass
        finally:
            self.security.connect = saved
        return out


def frame(b):
    return struct.pack('>I', len(b)) + b


class World:
    """n real Workers on fake transports"""

    def __init__(self, n, names=None):
        self.names = list(names) if names else ['c%d' % c for c in range(n)]
        m = self.m = Mods.get()
        m.world = self
        m.context.db_lock = False
        m.DBI()._DBI__task_engine = m.lockview.TaskLockEngine()
        self.n = n
        self.pending = {c: [] for c in range(n)}
        self.current = None
        self.w = []
        for _ in range(n):
            w = m.comms.Worker(None)
            w.transport = FakeTransport()
            w._Worker__looping_call.clock = m.task.Clock()
            self.w.append(w)
        self.marks = [0] * n

    # -- observations
    def has_lock(self, c):
        return bool(self.w[c]._Worker__has_lock)

    def conn(self, c):
        w = self.w[c]
        lc = w._Worker__looping_call
        return (
            self.has_lock(c), bool(lc.running), bool(w._Worker__looping_call_stopped),
            bool(w._Worker__connection_lost), len(self.pending[c]),
        )

    def lock(self):
        return bool(self.m.context.db_lock)

    def next_poll(self, c):
        """seconds until the next scheduled call of the connection's looping call (None: none)"""
        clock = self.w[c]._Worker__looping_call.clock
        calls = [d for d in clock.getDelayedCalls() if d.active()]
        if not calls:
            return None
        return min(d.getTime() for d in calls) - clock.seconds()

    def _decode(self, c):
        t = self.w[c].transport
        data = b''.join(t.written[self.marks[c]:])
        self.marks[c] = len(t.written)
        out = []
        while data:
            if len(data) < 4:
                out.append('garbage')
                break
            k = struct.unpack('>I', data[:4])[0]
            body, data = data[4:4 + k], data[4 + k:]
            try:
                v = pickle.loads(body)
            except Exception:  # pylint: disable=broad-except
                out.append('garbage')
                continue
            if isinstance(v, self.m.enums.Mutex):
                out.append(v.name)
            elif isinstance(v, bool):
                out.append('T' if v else 'F')
            else:
                out.append('other:' + type(v).__name__)
        return out

    # -- one event
    def do(self, op):
        kind, c, wire = op[0], op[1], (op[2] if len(op) > 2 else None)
        m, w = self.m, self.w[c]
        closed0 = w.transport.closed
        err = 'ok'
        self.current = c
        try:
            if kind in ('acq', 'rel'):
                func = m.comms.Func.acquire if kind == 'acq' else m.comms.Func.release
                req = m.comms.COMMAND(func, None, None, self.names[c % len(self.names)] if kind == 'acq' else None)
                if wire:
                    w.dataReceived(frame(pickle.dumps(req, pickle.HIGHEST_PROTOCOL)))
                else:
                    w.do(req)
            elif kind == 'tick':
                dt = self.next_poll(c)
                if dt is not None:
                    w._Worker__looping_call.clock.advance(dt)
            elif kind == 'disc':
                w.transport.lost = True
                w.connectionLost(m.reason)
            elif kind == REOPEN:
                m.reopen_db()
            elif kind == 'stop':
                if self.pending[c]:
                    d = self.pending[c].pop(0)
                    if not d.cancelled:
                        d.fn(*d.a, **d.kw)
            else:
                raise ValueError(kind)
        except AssertionError as e:
            s = str(e)
            err = 'assert-start' if 'start' in s else 'assert-stop' if 'stop' in s else 'assert'
        except Exception as e:  # pylint: disable=broad-except
            err = 'exc:' + type(e).__name__
        finally:
            self.current = None
        msgs = {d: self._decode(d) for d in range(self.n)}
        stray = {d: v for d, v in msgs.items() if d != c and v}
        return {
            'msgs': msgs[c], 'stray': stray, 'err': err, 'close': w.transport.closed > closed0,
            'lock': self.lock(), 'conns': [self.conn(d) for d in range(self.n)],
        }


# ------------------------------------------------------------------------------ the property, on the real trace
class Monitor:
    """C13 stated over what the clients were sent, `context.db_lock` and connection ownership.

    A client *believes* it holds the lock from the event in which it is sent a status on which the
    real `comms.acquire` returns until it asks for release or its connection drops."""

    def __init__(self, n, yours):
        self.n, self.yours = n, set(yours)
        self.live = [True] * n
        self.asked = [0] * n
        self.told = [False] * n
        self.bel = [False] * n
        self.released = [False] * n
        self.ok = [True] * n   # followed the client protocol so far
        self.hits = []

    def waiting(self, c):
        return (self.ok[c] and self.live[c] and self.asked[c] == 1 and not self.told[c]
                and not self.released[c])

    def pre(self, world, op):
        c = op[1]
        return {'free': not any(self.bel), 'waiting': self.waiting(c),
                'scheduled': world.next_poll(c) is not None}

    def step(self, i, op, pre, obs, world):
        kind, c = op[0], op[1]
        hit = lambda sig, what: self.hits.append((sig, f'event {i} {list(op)}: {what}', i))  # noqa: E731
        told_now = {d: ms for d, ms in [(c, obs['msgs'])] + list(obs['stray'].items())
                    if any(x in self.yours for x in ms)}
        for d in told_now:
            if not self.live[d]:
                hit('C13:granted-after-loss', f'connection {d} was sent "yours" after its connection had dropped')
            others = [e for e in range(self.n) if e != d and self.bel[e]]
            if others:
                hit('C13:two-holders', f'connection {d} is told it holds the lock while connection {others[0]} '
                                       'was told so and has neither released nor dropped')
            if self.live[d] and not (world.has_lock(d) and obs['lock']):
                hit('C13:told-not-owner', f'connection {d} is told it holds the lock but does not '
                                          f'(owner flag {world.has_lock(d)}, db_lock {obs["lock"]})')
            if self.live[d]:
                self.bel[d] = True
                self.told[d] = True
        if kind == 'acq':
            self.asked[c] += 1
            if self.asked[c] > 1 or not self.live[c] or self.released[c]:
                self.ok[c] = False
        elif kind == 'rel':
            if not self.live[c]:
                self.ok[c] = False
            elif self.bel[c]:
                self.bel[c] = False
                if obs['lock'] or world.has_lock(c):
                    hit('C13:release-keeps-lock', f'connection {c} released the lock it was told it holds but '
                                                  f'the lock is still taken (db_lock {obs["lock"]})')
            else:
                self.ok[c] = False
            self.released[c] = True
        elif kind == 'disc':
            was = self.bel[c]
            self.live[c] = False
            self.bel[c] = False
            if (was and obs['lock']) or world.has_lock(c):
                hit('C13:crash-keeps-lock', f'connection {c} dropped while holding the lock and the lock was '
                                            f'not released (db_lock {obs["lock"]}, owner flag {world.has_lock(c)})')
        elif kind == 'tick':
            if pre['waiting'] and not pre['scheduled']:
                hit('C13:waiter-not-polling', f'live waiting connection {c} has no poll scheduled: it can never be granted')
            elif pre['waiting'] and pre['free'] and c not in told_now:
                hit('C13:not-granted-when-free', f'no client holds the lock and live waiting connection {c} polled, '
                                                 f'but it was not granted (sent {obs["msgs"]}, db_lock {obs["lock"]})')
        owners = [d for d in range(self.n) if world.has_lock(d)]
        if len(owners) > 1:
            hit('C13:two-holders', f'connections {owners} own the lock at the same time')
        dead = [d for d in owners if not self.live[d]]
        if dead:
            hit('C13:granted-after-loss', f'connection {dead[0]} owns the lock although its connection has dropped')


def run_case(n, ops, names=None):
    """run an event list on fresh real Workers; returns (observations, monitor hits)"""
    world = World(n, names)
    mon = Monitor(n, world.m.yours)
    obs = []
    for i, op in enumerate(ops):
        pre = mon.pre(world, op)
        o = world.do(op)
        mon.step(i, op, pre, o, world)
        obs.append(o)
    return obs, mon.hits


def canon_obs(o):
    """the observation in the shape the Lean driver prints"""
    return [list(o['msgs']), o['err'], 'T' if o['close'] else 'F', 'T' if o['lock'] else 'F',
            [['T' if x else 'F' for x in k[:4]] + [str(k[4])] for k in o['conns']]]


def line_of(n, ops):
    return common.sx(['lock', 'run', n] + [[o[0], o[1]] + ([bool(o[2])] if o[0] in ('acq', 'rel') else [])
                                          for o in ops])


# ------------------------------------------------------------------------------ generators
def norm(op):
    kind, c = op[0], op[1]
    if kind == REOPEN:
        return (REOPEN, 0, None)
    return (kind, c, bool(op[2]) if kind in ('acq', 'rel') else None)


def corpus():
    """histories shaped like the ways a lock server breaks; a disconnect is injected at every
    position of each base script, for each connection"""
    A, T, R, D, S = 'acq', 'tick', 'rel', 'disc', 'stop'
    base = [
        (2, [(A, 0, 1), (A, 1, 1), (T, 1), (R, 0, 1), (T, 1), (D, 0), (S, 0), (R, 1, 1), (D, 1), (S, 1)]),
        (3, [(A, 0, 1), (A, 1, 0), (A, 2, 1), (T, 1), (T, 2), (R, 0, 1), (T, 2), (T, 1), (S, 0), (R, 2, 0),
             (T, 1), (S, 2), (S, 1), (R, 1, 1)]),
        (2, [(A, 0, 0), (S, 0), (A, 1, 1), (T, 1), (T, 0), (R, 0, 0), (T, 1), (S, 1), (R, 1, 1)]),
        (1, [(A, 0, 1), (R, 0, 1), (D, 0), (S, 0)]),
    ]
    out = []
    for n, ops in base:
        ops = [norm(o) for o in ops]
        out.append((n, ops))
        for i in range(len(ops) + 1):
            for c in range(n):
                # a dropped client sends nothing more; its timers still fire
                tail = [o for o in ops[i:] if not (o[1] == c and o[0] in (A, R, D))]
                out.append((n, ops[:i] + [(D, c, None)] + tail + [(A, n, True), (T, n, None)]))
        for i in range(len(ops) + 1):
            # the store is closed and opened again (a backup does that while it holds the lock):
            # DBI().task_engine is replaced while clients own the lock / wait for it
            out.append((n, ops[:i] + [(REOPEN, 0, None)] + ops[i:] + [(A, n, True), (T, n, None)]))
    # malformed streams: protocol breaches as explicit branches
    out += [
        (2, [norm(o) for o in [(A, 0, 1), (A, 0, 1), (A, 0, 0), (S, 0), (A, 0, 1), (T, 0), (D, 0), (T, 0), (A, 1, 1)]]),
        (2, [norm(o) for o in [(R, 0, 1), (A, 1, 1), (R, 0, 0), (A, 0, 1), (R, 0, 1), (T, 0), (D, 0), (S, 0), (T, 0)]]),
        (2, [norm(o) for o in [(D, 0), (A, 0, 0), (T, 0), (R, 0, 0), (S, 0), (A, 1, 1), (D, 0), (T, 0)]]),
        (2, [norm(o) for o in [(A, 0, 1), (R, 0, 0), (R, 0, 0), (S, 0), (A, 0, 0), (T, 0), (A, 1, 0), (R, 1, 1), (S, 1), (S, 1)]]),
        (3, [norm(o) for o in [(T, 0), (S, 1), (R, 2, 1), (D, 2), (D, 2), (A, 2, 0), (A, 0, 1), (T, 2), (D, 0), (A, 1, 1)]]),
    ]
    return [(n + 1 if any(o[1] >= n for o in ops) else n, ops) for n, ops in out]


def stored_corpus():
    """corpus/C13/*.json: minimised failing histories of past mutation drills"""
    import glob
    import json
    import os
    out = []
    for f in sorted(glob.glob(os.path.join(common.VERIF, 'corpus', 'C13', '*.json'))):
        d = json.load(open(f))
        out.append((d['n'], [norm(o) for o in d['ops']]) + ((d['names'],) if d.get('names') else ()))
    return out


def draw_names(r, n):
    """client names of one case: mostly the plain ones, otherwise drawn from the pool"""
    if r.random() < 0.5:
        return None
    return [r.choice(NAME_POOL) for _ in range(n)]


def gen_valid(r, n, length, names=None):
    """clients that follow the protocol (acquire, poll until told, release on the wire, connection
    closed by the server), interleaved at random, with connection drops at any point and the
    delayed stops fired at random times.  Generated online against the real code."""
    world = World(n, names)
    mon = Monitor(n, world.m.yours)
    ops, obs = [], []
    closing = [False] * n
    p_crash = r.choice([0.0, 0.03, 0.1, 0.25])
    p_reopen = r.choice([0.0, 0.0, 0.05, 0.15])
    for _ in range(length):
        ch = []
        if r.random() < p_reopen:
            ch += [(REOPEN, 0, None)] * 2
        for c in range(n):
            if mon.live[c]:
                if closing[c]:
                    ch += [('disc', c, None)] * 6
                elif mon.asked[c] == 0:
                    ch += [('acq', c, r.random() < 0.7)] * 3
                elif mon.bel[c]:
                    ch += [('rel', c, r.random() < 0.8)] * 3
                elif not mon.released[c]:
                    ch += [('tick', c, None)] * 3
                if r.random() < p_crash:
                    ch.append(('disc', c, None))
            elif r.random() < 0.15:
                ch.append(('tick', c, None))
            if world.pending[c]:
                ch += [('stop', c, None)] * 2
        if not ch:
            break
        op = r.choice(ch)
        pre = mon.pre(world, op)
        o = world.do(op)
        mon.step(len(ops), op, pre, o, world)
        if o['close'] or (op[2] and o['err'] != 'ok'):
            # closed by the server, or (as the reactor does) dropped because dataReceived raised
            closing[op[1]] = True
        ops.append(op)
        obs.append(o)
    return ops, obs, mon.hits


def gen_malformed(r, n, length):
    w = r.choice([(3, 3, 2, 2, 2), (1, 1, 1, 1, 1), (4, 6, 3, 1, 1), (2, 2, 4, 3, 3)])
    ops = []
    p_reopen = r.choice([0.0, 0.0, 0.1])
    for _ in range(length):
        k = r.choices(KINDS, weights=w)[0]
        if r.random() < p_reopen:
            k = REOPEN
        ops.append(norm((k, r.randrange(n), r.random() < 0.5)))
    return ops


def canonical_seqs(n, length, alphabet):
    """all event lists of the given length over connections 0..n-1, one per orbit of connection
    renaming (connections appear in order of first use)"""

    def rec(prefix, used):
        if len(prefix) == length:
            yield list(prefix)
            return
        for c in range(min(used + 1, n)):
            for k in alphabet:
                prefix.append(k + (c,))
                yield from rec(prefix, max(used, c + 1))
                prefix.pop()

    yield from rec([], 0)


def _mk(k, c):
    return norm((k[0], c, k[1] if len(k) > 1 else None))


# ------------------------------------------------------------------------------ running batches
class Batch:
    """accumulates cases; compares with the Lean model in one driver call"""

    def __init__(self, lean):
        self.lean = lean
        self.cases = []      # (tag, n, ops, obs)
        self.evals = 0
        self.nontrivial = set()
        self.stats = {}
        self.hits = []
        self.diffs = []
        self.samples = []

    def count(self, k, v=1):
        self.stats[k] = self.stats.get(k, 0) + v

    def add(self, tag, n, ops, obs, hits, names=None, to_model=True):
        import hashlib
        self.evals += 1
        self.count('case:' + tag)
        self.count('connections:%d' % n)
        grants = 0
        for op, o in zip(ops, obs):
            self.count('op:' + op[0])
            if o['err'] != 'ok':
                self.count('err:' + o['err'])
            for mname in o['msgs']:
                self.count('msg:' + mname)
            if any(x in Mods.get().yours for x in o['msgs']):
                grants += 1
        held = [i for i, o in enumerate(obs) if o['lock']]
        crashes = sum(1 for i, op in enumerate(ops) if op[0] == 'disc' and i > 0 and obs[i - 1]['conns'][op[1]][0])
        if crashes:
            self.count('crash-of-holder', crashes)
        wcrash = sum(1 for i, op in enumerate(ops) if op[0] == 'disc' and i > 0
                     and obs[i - 1]['conns'][op[1]][1] and not obs[i - 1]['conns'][op[1]][2])
        if wcrash:
            self.count('crash-of-waiter', wcrash)
        self.count('grants', grants)
        nontrivial = grants >= 1 and len({op[1] for op in ops}) >= 2 and bool(held)
        if nontrivial:
            self.nontrivial.add(hashlib.sha1(repr((n, ops, names)).encode()).hexdigest()[:16])
        if len(self.samples) < 3 and nontrivial and tag != 'exhaustive':
            self.samples.append({'connections': n, 'events': [list(o) for o in ops],
                                 'sent': [o['msgs'] for o in obs]})
        for sig, what, i in hits:
            # the history up to and including the event at which the property fails
            r_ = {'n': n, 'ops': [list(o) for o in ops[:i + 1]]}
            if names:
                r_['names'] = list(names)
                what += ' [client names %r]' % ([repr(x)[:24] for x in names],)
            self.hits.append((sig, what, r_))
        if names:
            self.count('cases-with-names-from-pool')
        if any(op[0] == REOPEN for op in ops):
            self.count('histories-with-db-reopen(monitors-only)')
        elif self.lean and to_model:
            self.cases.append((tag, n, ops, [canon_obs(o) for o in obs],
                               [o['stray'] for o in obs]))

    def compare(self):
        if not self.lean or not self.cases:
            return
        outs = common.driver([line_of(n, ops) for _t, n, ops, _o, _s in self.cases], 'C13')
        self.count('compared-with-model', len(self.cases))
        for (tag, n, ops, impl, stray), o in zip(self.cases, outs):
            model = common.parse_sx(o)
            if any(stray) and len(self.diffs) < 5:
                self.diffs.append(('a message was written to the transport of another connection',
                                   {'n': n, 'ops': [list(x) for x in ops]}, None, stray))
            if model != impl and len(self.diffs) < 5:
                k = next((i for i, (a, b) in enumerate(zip(model, impl)) if a != b), None) \
                    if isinstance(model, list) else None
                self.diffs.append((
                    'Lock.step vs comms.Worker (%s)' % tag,
                    {'n': n, 'ops': [list(x) for x in ops], 'first_diverging_event': k},
                    model[k] if k is not None and isinstance(model, list) else model,
                    impl[k] if k is not None else impl))
        self.cases = []

    def result(self):
        return {'evals': self.evals, 'nontrivial': self.nontrivial, 'stats': self.stats,
                'hits': self.hits, 'diffs': self.diffs, 'samples': self.samples}


def _exhaustive_chunk(args):
    """one slice of the exhaustive enumeration (every `stride`-th canonical sequence)"""
    n, length, offset, stride, lean = args[:5]
    model_every = args[5] if len(args) > 5 else 1   # quick tier: every k-th list also goes to the model
    alphabet = [('acq', True), ('tick',), ('rel', True), ('disc',), ('stop',)]
    b = Batch(lean)
    for idx, seq in enumerate(canonical_seqs(n, length, [(k,) for k in range(len(alphabet))])):
        if idx % stride != offset:
            continue
        ops = [_mk(alphabet[k], c) for k, c in seq]
        # every third sequence runs with client names from the pool (rotating through it)
        names = [NAME_POOL[(idx // 3 + 3 * c) % len(NAME_POOL)] for c in range(n)] if idx % 3 == 0 else None
        obs, hits = run_case(n, ops, names)
        b.add('exhaustive', n, ops, obs, hits, names, to_model=(idx // stride) % model_every == 0)
        if lean and (idx // stride) % model_every == 0:
            b.count('exhaustive:compared-with-model')
        if len(b.cases) >= 40000:
            b.compare()
    b.compare()
    return b.result()


def _random_chunk(args):
    seed, salt, count, lean, long_ = args
    r = common.rng(seed, 'C13:' + salt)
    b = Batch(lean)
    for _ in range(count):
        n = r.choice([1, 2, 2, 3, 3, 4, 5])
        length = r.choice([30, 60, 120, 200]) if long_ else r.choice([4, 8, 12, 20, 40])
        names = draw_names(r, n)
        if r.random() < 0.7:
            ops, obs, hits = gen_valid(r, n, length, names)
            b.add('valid', n, ops, obs, hits, names)
        else:
            ops = gen_malformed(r, n, length)
            obs, hits = run_case(n, ops, names)
            b.add('malformed', n, ops, obs, hits, names)
    b.compare()
    return b.result()


def _merge(res, out):
    res.evaluations += out['evals']
    res.nontrivial |= out['nontrivial']
    for k, v in out['stats'].items():
        res.count(k, v)
    for sig, what, rep in out['hits']:
        res.hit(sig, what, rep)
    for what, case, model, impl in out['diffs']:
        res.diff(what, case, model, impl)
    for s in out['samples']:
        if len(res.samples) < 5:
            res.samples.append(s)


# ------------------------------------------------------------------------------ the blocking client under faults
CLIENT_FAULTS = ('ConnectionResetError', 'TimeoutError', 'BrokenPipeError', 'ConnectionAbortedError',
                 'OSError', 'SSLError', 'EOF')
CLIENT_CUTS = (0, 2, 4, 10)   # bytes of the next answer delivered before the fault


class StillWaiting(BaseException):
    """the client would block for ever (no data will come); not an Exception on purpose"""


class BridgeSocket:
    """socket of a real `comms.acquire` call, wired to connection `c` of a World: `sendall`
    feeds the Worker's `dataReceived`, `recv` reads what the Worker wrote; when nothing is
    buffered the Worker's looping call is ticked.  After `k` complete answers the socket fails
    `cut` bytes into the next one."""

    def __init__(self, world, c, k, fault, cut, before_poll=None, before_fault=None):
        self.world, self.c, self.k, self.fault, self.cut = world, c, k, fault, cut
        self.before_poll, self.before_fault = before_poll, before_fault
        self.stream = bytearray()
        self.pos = 0
        self.taken = 0      # writes of the transport already pulled
        self.eofs = 0
        self.polls = 0
        self.closed = False

    def sendall(self, b):
        w = self.world
        w.current = self.c
        try:
            w.w[self.c].dataReceived(bytes(b))
        finally:
            w.current = None

    def _pull(self):
        t = self.world.w[self.c].transport
        for b in t.written[self.taken:]:
            self.stream += b
        self.taken = len(t.written)
        self.world.marks[self.c] = self.taken

    def _frames(self):
        """(complete answers consumed, bytes consumed of the current one)"""
        done, off = 0, 0
        while off + 4 <= len(self.stream):
            end = off + 4 + struct.unpack('>I', bytes(self.stream[off:off + 4]))[0]
            if end <= self.pos:
                done, off = done + 1, end
            else:
                break
        return done, self.pos - off

    def _fail(self):
        if self.before_fault is not None:
            self.before_fault()
            self.before_fault = None
        if self.fault == 'EOF':
            self.eofs += 1
            if self.eofs > 64:
                raise StillWaiting()
            return b''
        if self.fault == 'SSLError':
            import ssl
            raise ssl.SSLError('scripted TLS failure')
        raise getattr(__import__('builtins'), self.fault)('scripted socket failure')

    def recv(self, n):
        self._pull()
        done, inside = self._frames()
        limit = n
        if self.fault is not None and done == self.k:
            if inside >= self.cut:
                return self._fail()
            limit = min(n, self.cut - inside)
        while self.pos >= len(self.stream):
            # nothing buffered: the server's next poll
            self.polls += 1
            if self.polls > self.k + 4:
                raise StillWaiting()
            if self.before_poll is not None:
                self.before_poll(self.polls)
            self.world.do(('tick', self.c, None))
            self._pull()
        out = bytes(self.stream[self.pos:self.pos + limit])
        self.pos += len(out)
        return out

    def close(self):
        self.closed = True


def run_client_case(inp):
    """connection 0 owns the lock; the real `comms.acquire` runs as the client of connection 1.
    Returns (outcome, owner flag of connection 1, db_lock)."""
    m = Mods.get()
    cname = inp.get('name', 'client')
    world = World(2, [inp.get('holder', 'holder'), cname])
    world.do(('acq', 0, True))
    release_at = inp.get('release_at')

    def before_poll(i):
        if release_at is not None and i == release_at:
            world.do(('rel', 0, True))

    def before_fault():
        if inp.get('release_before_fault'):
            world.do(('rel', 0, True))

    sock = BridgeSocket(world, 1, inp['k'], inp.get('fault'), inp.get('cut', 0), before_poll, before_fault)
    saved = m.security.connect
    m.security.connect = lambda addr: sock
    try:
        got = m.comms.acquire(cname)
        outcome = 'returned' if got is sock else 'returned-other'
    except StillWaiting:
        outcome = 'waiting'
    except Exception as e:  # pylint: disable=broad-except
        outcome = 'raised:' + type(e).__name__
    finally:
        m.security.connect = saved
    return outcome, world.has_lock(1), world.lock()


def check_client_case(inp, res):
    outcome, owner, lock = run_client_case(inp)
    res.count('client:' + outcome.split(':')[0])
    if outcome.startswith('returned') and not (owner and lock):
        res.hit('C13:client-returns-without-grant',
                f'comms.acquire() returned (the client now believes it holds the lock) after '
                f'{inp["k"]} "locked" answers and a socket fault {inp.get("fault")} {inp.get("cut", 0)} bytes '
                f'into the next answer, but its connection does not own the lock '
                f'(owner flag {owner}, db_lock {lock}) while connection 0 holds it '
                f'[names: holder {inp.get("holder", "holder")!r:.24}, client {inp.get("name", "client")!r:.24}]',
                dict(inp, kind='client'))
    return outcome, owner


def client_faults(res):
    """the blocking client `comms.acquire` under a socket fault at every point of its wait loop
    while another client holds the lock: it must not return unless its connection owns the lock"""
    n = 0
    for k in (0, 1, 2, 3):
        for fault in CLIENT_FAULTS:
            for cut in CLIENT_CUTS:
                check_client_case({'k': k, 'fault': fault, 'cut': cut}, res)
                n += 1
        # the holder releases, the lock is free, and the fault comes before the client's next poll
        for fault in CLIENT_FAULTS:
            check_client_case({'k': k, 'fault': fault, 'cut': 0, 'release_before_fault': True}, res)
            n += 1
        # control: no fault, the holder releases, the client is granted and acquire() returns
        outcome, owner = check_client_case({'k': k, 'fault': None, 'release_at': max(k, 1)}, res)
        if not (outcome == 'returned' and owner):
            res.diff('client control: comms.acquire() does not return after a grant',
                     {'k': k}, 'returned, owner', [outcome, owner])
        # control: no fault, no release: the client keeps waiting
        outcome, _ = check_client_case({'k': k, 'fault': None}, res)
        if outcome != 'waiting':
            res.count('client:control-not-waiting:' + outcome)
        n += 2
    # the same with client names from the pool, for the holder and for the waiting client
    for name in NAME_POOL:
        for holder in ('holder', name):
            for fault, extra in (('OSError', {}), ('EOF', {}), (None, {}), (None, {'release_at': 1})):
                inp = dict({'k': 1, 'fault': fault, 'cut': 2, 'name': name, 'holder': holder}, **extra)
                outcome, owner = check_client_case(inp, res)
                if fault is None and extra and not (outcome == 'returned' and owner):
                    res.diff('client control: comms.acquire() does not return after a grant',
                             inp, 'returned, owner', [outcome, owner])
                n += 1
    res.evaluations += n
    res.count('client-fault-scripts', n)


def validate_generated(res, lean):
    """generated definitions vs the Python originals, on their whole (finite) domain"""
    m = Mods.get()
    impl_status = []
    saved = m.context.db_lock
    for b in (False, True):
        m.context.db_lock = b
        impl_status.append(m.comms.Worker._get_db_lock_status().name)
    m.context.db_lock = saved
    # behavioural facts the constants stand for
    w = World(2)
    o1 = w.do(('acq', 0, True))
    o2 = w.do(('acq', 1, True))
    interval = w.next_poll(1)
    d_grant = [d.delay for d in w.pending[0]]
    o3 = w.do(('rel', 0, True))
    o4 = w.do(('rel', 1, True))
    w.do(('disc', 1, None))
    d_lost = [d.delay for d in w.pending[1]]
    closing = []
    for f in m.enums.Func:
        if f in (m.enums.Func.acquire, m.enums.Func.release):
            closing.append((f.name, (o1 if f == m.enums.Func.acquire else o3)['close']))
    impl = {
        'status': impl_status,
        'yours': m.yours,
        'granted_msg': o1['msgs'], 'denied_msg': o2['msgs'],
        'reply_held': o3['msgs'], 'reply_free': o4['msgs'],
        'interval': interval, 'd_grant': d_grant, 'd_lost': d_lost,
        'mutex': [[x.name, str(x.value)] for x in sorted(m.enums.Mutex, key=lambda e: e.value)],
        'func': [[x.name, str(x.value)] for x in sorted(m.enums.Func, key=lambda e: e.value)],
        'closing': closing,
    }
    res.count('generated-definitions-validated')
    if not lean:
        return
    outs = common.driver(['(lock status F)', '(lock status T)', '(lock consts)'], 'C13')
    c = common.parse_sx(outs[2])
    model = {
        'status': [outs[0], outs[1]],
        'yours': [c[1]],
        'granted_msg': [c[0]], 'denied_msg': [x for x in (outs[0], outs[1]) if x != c[0]][:1],
        'reply_held': [c[3]], 'reply_free': [c[4]],
        'interval': float(c[5]), 'd_grant': [int(c[6])], 'd_lost': [int(c[7])],
        'mutex': c[8], 'func': c[9],
        'closing': [[f, f in c[2]] for f in ('acquire', 'release')],
    }
    impl['closing'] = [list(x) for x in impl['closing']]
    for k in impl:
        if impl[k] != model[k]:
            res.diff('Generated/Lock.lean: ' + k, {'definition': k}, model[k], impl[k])


def run(ctx, res):
    thorough = ctx['tier'] == 'thorough' or ctx['escalate']
    lean = ctx['lean']
    res.rule = (
        'event lists over 1-6 connections: a scenario corpus (hand-off scripts with a disconnect injected at '
        'every position for every connection, followed by a probing client; protocol breaches), exhaustive '
        'enumeration of every event list up to a fixed length over 2 and 3 connections (one per orbit of '
        'connection renaming), protocol-following clients generated online with random drops, and uniform '
        'malformed streams; each list runs on fresh real comms.Worker objects and on the Lean model. '
        'non-trivial = at least one grant, at least two connections touched and the lock taken at some '
        'point; distinct by (connections, event list)')
    res.assumptions = list(TRUSTED)
    Mods.get()
    validate_generated(res, lean)
    client_faults(res)
    b = Batch(lean)
    falsy = [x for x in NAME_POOL if not x and x is not False]
    odd = [x for x in NAME_POOL if x]
    for j, (n, ops, names) in enumerate([c + (None,) if len(c) == 2 else c for c in stored_corpus() + corpus()]):
        variants = [names] if names else [None, [falsy[(j + c) % len(falsy)] for c in range(n)],
                                           [odd[(j + c) % len(odd)] for c in range(n)]]
        for nm in variants:
            obs, hits = run_case(n, ops, nm)
            b.add('corpus', n, ops, obs, hits, nm)
    b.compare()
    _merge(res, b.result())
    Mods.get().DBI().close()   # nothing of the scratch store stays open across the fork
    try:
        _run_pools(ctx, res, thorough, lean)
    finally:
        Mods.get().cleanup_db()


def _run_pools(ctx, res, thorough, lean):
    # exhaustive small scope + random streams
    if thorough:
        jobs = [(2, 6, i, 8, lean) for i in range(8)] + [(3, 5, i, 4, lean) for i in range(4)] \
            + [(1, 7, 0, 1, lean), (4, 4, 0, 1, lean)]
        rjobs = [(ctx['seed'], 'r%d' % i, 1500, lean, False) for i in range(8)] \
            + [(ctx['seed'], 'l%d' % i, 150, lean, True) for i in range(8)]
    else:
        jobs = [(2, 5, i, 8, lean, 4) for i in range(8)] + [(3, 4, i, 2, lean, 2) for i in range(2)] \
            + [(2, 4, 0, 1, lean), (1, 5, 0, 1, lean)]
        rjobs = [(ctx['seed'], 'r%d' % i, 400, lean, False) for i in range(4)] \
            + [(ctx['seed'], 'l%d' % i, 30, lean, True) for i in range(2)]
    mp = multiprocessing.get_context('fork')
    with mp.Pool(min(16 if thorough else 8, len(jobs) + len(rjobs))) as pool:
        r1 = pool.map_async(_exhaustive_chunk, jobs, chunksize=1)
        r2 = pool.map_async(_random_chunk, rjobs, chunksize=1)
        for out in r1.get() + r2.get():
            _merge(res, out)
    res.exhaustive = False
    res.count('exhaustive:scopes', len({(j[0], j[1]) for j in jobs}))
    res.traces = res.stats.get('compared-with-model', 0)


def replay(rep, res):
    inp = rep['input']
    if inp.get('kind') == 'client':
        check_client_case({k: v for k, v in inp.items() if k != 'kind'}, res)
        return
    ops = [norm(o) for o in inp['ops']]
    try:
        _obs, hits = run_case(inp['n'], ops, inp.get('names'))
    finally:
        Mods.get().cleanup_db()
    for sig, what, _i in hits:
        res.hit(sig, what, inp)
