"""Histories over the real scheduler/farm with the monitors of C01–C05 and the correspondence
with Model/Sched.lean.  Used by harness/c01.py … c05.py (each selects its own monitors)."""
import json

from . import common
from . import sched_env as E

ALL = E.ALL

TRUSTED = [
    'harness/sched_env.py: synthetic engines written as real packages, fakes for dawgie.db.targets/next, context.fsm, chronicle.append, context.dumps',
    'promotion is off (dawgie.context.allow_promotion = False, the default)',
    'the graph handed to the Lean model (children, descendants, ancestry, declared inputs, feedback map) is read from the real dag.Construct nodes; its faithfulness to the declared dependencies is property C09',
]


# ------------------------------------------------------------------------------ generators
def gen_engine(r):
    n = r.choice([2, 3, 3, 4, 4, 5, 6, 7])
    algs = []
    ntasks = max(1, n - r.randrange(0, 2))
    for i in range(n):
        kind = 'task'
        if i > 0 and r.random() < 0.25:
            kind = 'analysis'
        elif i > 0 and r.random() < 0.08:
            kind = 'regress'
        values = ['v0'] if r.random() < 0.5 else ['v0', 'v1']
        inputs = []
        if i > 0:
            for j in r.sample(range(i), min(i, r.choice([1, 1, 2, 2, 3]))):
                if r.random() < 0.2 and i > 1:
                    continue
                if r.random() < 0.5:
                    inputs.append((j, None))
                else:
                    inputs.append((j, r.choice(algs[j]['values'])))
        algs.append({'task': f't{i % ntasks}', 'name': f'a{i}', 'kind': kind, 'values': values,
                     'inputs': inputs, 'feedback': []})
    if n >= 3 and r.random() < 0.2:
        # an early task consumes, as feedback, a value of a later algorithm
        j = r.randrange(1, n)
        i = r.randrange(0, j)
        if algs[i]['kind'] == 'task' and algs[j]['kind'] == 'task':
            algs[i]['feedback'].append((j, algs[j]['values'][0]))
    return algs


def closure(algs):
    """descriptor-level transitive upstream / downstream sets (independent of dag.py)"""
    n = len(algs)
    direct = [set(j for j, _v in a['inputs']) for a in algs]
    up = []
    for i in range(n):
        seen, stack = set(), list(direct[i])
        while stack:
            j = stack.pop()
            if j not in seen:
                seen.add(j)
                stack.extend(direct[j])
        up.append(seen)
    down = [set(j for j in range(n) if i in up[j]) for i in range(n)]
    return up, down


def gen_ops(r, env, length):
    """abstract ops; replies are resolved against the units in flight while running"""
    ops = []
    tags = env.tags
    tg = env.targets
    for _ in range(length):
        x = r.random()
        if x < 0.28:
            names = r.sample(tags, r.choice([1, 1, 2]) if len(tags) > 1 else 1)
            rid = r.choice([None, None, 7, 8, 9])
            k = r.random()
            if k < 0.1:
                targets = []
            elif k < 0.2:
                targets = [ALL]
            else:
                targets = r.sample(tg, r.randrange(1, len(tg) + 1)) if tg else []
            ops.append(('org', names, rid, targets))
        elif x < 0.55:
            ops.append(('disp',))
        elif x < 0.9:
            ops.append(('reply', r.random(), r.choice(['success', 'success', 'success', 'failure', 'invalid']),
                        r.random(), r.random()))
        elif x < 0.94:
            per = [(t, r.choice([0, 1, 1, 2])) for t in r.sample(tags, r.choice([1, 2]) if len(tags) > 1 else 1)]
            ops.append(('defer', per))
        elif x < 0.97:
            ops.append(('pause', r.random() < 0.5))
        else:
            ops.append(('stray', r.choice(tags), r.choice(tg + [ALL]) if tg else ALL))
    return ops


CORPUS = [
    # re-request of an executing unit (two executions in flight before the repair)
    [('org', 0, None, [1]), ('disp',), ('org', 0, None, [1]), ('disp',), ('reply0', 'success'),
     ('disp',), ('reply0', 'success'), ('disp',)],
    # failure arriving while a dependent is pending: stale queue entries before the repair
    [('org', 0, None, [1]), ('org', -1, None, [1]), ('disp',), ('reply0', 'failure'), ('disp',)],
    # request with an empty target list
    [('org', 0, None, []), ('disp',)],
    # success with new values, then a failure of the dependent
    [('org', 0, None, [1, 2]), ('disp',), ('reply0', 'success-new'), ('disp',), ('reply0', 'invalid'),
     ('disp',), ('reply0', 'success-new'), ('disp',)],
]


def _alg(i, kind='task', inputs=(), values=('v0',), feedback=()):
    return dict(task=f't{i}', name=f'a{i}', kind=kind, values=list(values), inputs=list(inputs),
                feedback=list(feedback))


# graph shapes that random generation hits too rarely
SHAPES = {
    'chain3': [_alg(0), _alg(1, inputs=[(0, 'v0')]), _alg(2, inputs=[(1, None)])],
    'fork-analysis': [_alg(0, values=('v0', 'v1')), _alg(1, 'analysis', [(0, 'v0')]), _alg(2, inputs=[(0, 'v1')])],
    'two-roots': [_alg(0), _alg(1), _alg(2, inputs=[(0, None), (1, 'v0')])],
    # a node reachable from the root by a short and by a long path (level is assigned on the first visit)
    'short-long-a': [_alg(0), _alg(1, inputs=[(0, None)]), _alg(2, inputs=[(1, None)]),
                     _alg(3, inputs=[(0, None), (2, None)])],
    'short-long-b': [_alg(0), _alg(3, inputs=[(0, None), (2, None)]), _alg(1, inputs=[(0, None)]),
                     _alg(2, inputs=[(1, None)])],
    # two branches, three deep each, that share no ancestor and merge
    'merge-deep': [_alg(0), _alg(1, inputs=[(0, None)]), _alg(2, inputs=[(1, None)]),
                   _alg(3), _alg(4, inputs=[(3, None)]), _alg(5, inputs=[(4, None)]),
                   _alg(6, inputs=[(2, None), (5, None)])],
    # B -> C with C's value fed back to B
    'feedback-loop': [_alg(0), _alg(1, inputs=[(0, None)], feedback=[(2, 'v0')]), _alg(2, inputs=[(1, None)])],
    'analysis-chain': [_alg(0), _alg(1, 'analysis', [(0, None)]), _alg(2, 'analysis', [(1, None)]),
                       _alg(3, inputs=[(1, None)])],
    'regress-leaf': [_alg(0), _alg(1, inputs=[(0, None)]), _alg(2, 'regress', [(1, None)])],
}
# algorithms of one task whose names are prefixes of one another (look-ups by name must be exact)
SHAPES['prefix-names'] = [
    dict(task='q', name='root', kind='task', values=['v0'], inputs=[], feedback=[]),
    dict(task='q', name='fit', kind='task', values=['v0'], inputs=[(0, None)], feedback=[]),
    dict(task='q', name='fitter', kind='task', values=['v0'], inputs=[(0, None)], feedback=[]),
    dict(task='x', name='use', kind='task', values=['v0'], inputs=[(2, None)], feedback=[]),
    dict(task='x', name='user', kind='task', values=['v0'], inputs=[(1, None)], feedback=[]),
]
# two task packages whose algorithms carry the SAME name (as disk.engine / network.engine in the fixture)
SHAPES['same-names'] = [
    dict(task='network', name='engine', kind='task', values=['v0'], inputs=[], feedback=[]),
    dict(task='disk', name='engine', kind='task', values=['v0'], inputs=[(0, None)], feedback=[]),
    dict(task='review', name='engine', kind='task', values=['v0'], inputs=[(1, None)], feedback=[]),
]
# an algorithm that asks for the cloud although no cloud provider is configured (it must run on the cluster)
SHAPES['cloud-minded'] = [
    dict(task='t0', name='a0', kind='task', values=['v0'], inputs=[], feedback=[], where='cloud'),
    dict(task='t1', name='a1', kind='task', values=['v0'], inputs=[(0, None)], feedback=[], where='auto'),
    dict(task='t2', name='a2', kind='analysis', values=['v0'], inputs=[(1, None)], feedback=[], where='cloud'),
]
# 'short-long-b' lists algorithms out of dependency order on purpose: fix the indices
SHAPES['short-long-b'] = [
    dict(task='t0', name='a0', kind='task', values=['v0'], inputs=[], feedback=[]),
    dict(task='t1', name='a1', kind='task', values=['v0'], inputs=[(0, None)], feedback=[]),
    dict(task='t2', name='a2', kind='task', values=['v0'], inputs=[(1, None)], feedback=[]),
    dict(task='t3', name='a3', kind='task', values=['v0'], inputs=[(2, None), (0, None)], feedback=[]),
]


def scenarios(algs):
    """deterministic histories shaped like the ways these properties fail"""
    n = len(algs)
    up, _down = closure(algs)
    out = [
        ('pipeline', [('orgall', None, 'all'), ('pump', 'success-new', None)]),
        ('rerequest-while-executing', [('orgall', None, 'all'), ('disp',), ('orgall', None, 'all'), ('disp',),
                                       ('pump', 'success', None)]),
        ('first-fails', [('orgall', 7, 'all'), ('disp',), ('reply0', 'failure'), ('pump', 'success-new', None)]),
        ('empty-targets', [('orgall', None, 'none'), ('disp',), ('pump', 'success', None)]),
    ]
    pairs = [(r_, x) for x in range(n) for r_ in sorted(up[x])][:10]
    for r_, x in pairs:
        out.append((f'descendant-then-ancestor', [('org', x, None, [1]), ('org', r_, None, [1]), ('disp',),
                                                  ('pump', 'success', None)]))
        out.append((f'ancestor-executing', [('org', r_, None, [1]), ('disp',), ('org', x, None, [1]), ('disp',),
                                            ('org', r_, None, [1]), ('disp',), ('pump', 'success-new', None)]))
        # x executes target 1, then its ancestor executes target 1, then x is released for target 2
        out.append((f'descendant-other-target-while-ancestor-executes',
                    [('org', x, None, [1]), ('disp',), ('org', r_, None, [1]), ('disp',), ('org', x, None, [2]),
                     ('disp',), ('pump', 'success', None)]))
    for i in range(n):
        out.append(('node-fails', [('orgall', None, 'all'), ('pump', 'success-new', i)]))
        out.append(('node-invalid-rerun', [('orgall', 3, 'all'), ('pump', 'success-new', i),
                                           ('org', i, None, [1]), ('pump', 'success-new', None)]))
    # a parent is re-run for two targets while its consumer executes one of them; the parent's
    # other target succeeds with new values, then the shared target fails, all between two ticks
    edges = [(j, c) for c in range(n) for (j, _v) in algs[c]['inputs']
             if algs[c]['kind'] == 'task' and algs[j]['kind'] == 'task'][:4]
    for p_, c in edges:
        out.append(('parent-mixed-outcomes-while-child-executes',
                    [('org', c, None, [1]), ('disp',), ('org', p_, None, [1, 2]), ('disp',),
                     ('replyu', p_, 2, 'success-new'), ('replyu', p_, 1, 'failure'), ('disp',),
                     ('replyu', c, 2, 'success'), ('replyu', c, 1, 'success-new'), ('pump', 'success', None)]))
    for i in range(n):
        if algs[i]['kind'] != 'analysis':
            # the same algorithm is requested for another target while its first target executes
            out.append(('rerequest-other-target-while-executing',
                        [('org', i, None, [1]), ('disp',), ('org', i, None, [2]), ('disp',), ('disp',),
                         ('pump', 'success', None)]))
            # a unit is requested again while it executes, then its first execution reports new values
            out.append(('rerequest-while-executing-then-new-values',
                        [('org', i, None, [1]), ('disp',), ('org', i, None, [1]), ('replyu', i, 1, 'success-new'),
                         ('disp',), ('pump', 'success', None)]))
    tasks_ = [i for i in range(n) if algs[i]['kind'] == 'task']
    chains = [(p_, x, y) for (p_, x) in edges for (x2, y) in edges if x2 == x][:4]
    for i in tasks_:
        # a database fault while the first target is handed over, then another target of the same algorithm
        out.append(('dbfault-then-other-target',
                    [('org', i, None, [1]), ('dbfail',), ('disp',), ('org', i, None, [2]), ('disp',), ('disp',),
                     ('pump', 'success', None)]))
    for p_, c in edges:
        # the child fails on one target, its parent on the other, then the child reports invalid data for it
        out.append(('child-and-parent-fail-on-different-targets',
                    [('org', c, None, [1, 2]), ('disp',), ('org', p_, None, [2]), ('disp',),
                     ('replyu', c, 1, 'failure'), ('replyu', p_, 2, 'failure'), ('replyu', c, 2, 'invalid'),
                     ('pump', 'success', None)]))
    for p_, x, y in chains:
        # x executes target 1 and has target 2 pending (held by its parent); its child wants target 1
        out.append(('executing-one-target-pending-another',
                    [('org', x, None, [1]), ('disp',), ('org', p_, None, [2]), ('org', x, None, [2]), ('disp',),
                     ('org', y, None, [1]), ('disp',), ('pump', 'success', None)]))
    # a worker that registered with incarnation 0 loses its connection while idle; then work arrives
    out.append(('dead-worker', [('workers', 1, 0), ('lose', 0), ('orgall', None, 'all'), ('disp',), ('disp',),
                                ('pump', 'success', None)]))
    for p_, x, y in chains:
        # x executes; its parent is re-run; x is requested again; the parent fails; then the grandchild is asked for
        out.append(('child-rerequested-parent-fails-grandchild',
                    [('org', x, None, [1]), ('disp',), ('org', p_, None, [1]), ('disp',), ('org', x, None, [1]),
                     ('replyu', p_, 1, 'failure'), ('org', y, None, [1]), ('disp',), ('replyu', x, 1, 'success'),
                     ('pump', 'success', None)]))
    # an upstream algorithm executes target 1 while ANOTHER algorithm is busy with target 2
    trip = [(a_, x, b) for x in tasks_ for a_ in sorted(up[x]) if a_ in tasks_
            for b in tasks_ if b not in (a_, x) and x not in up[b] and b not in up[a_] and a_ not in up[b]][:6]
    for a_, x, b in trip:
        out.append(('two-busy-algorithms-different-targets',
                    [('org', b, None, [2]), ('org', a_, None, [1]), ('disp',), ('org', x, None, [1]), ('disp',),
                     ('pump', 'success', None)]))
    if not any(a.get('feedback') for a in algs):
        roots_ = [i for i in range(n) if not algs[i]['inputs'] and algs[i]['kind'] != 'analysis']
        if roots_:
            out.append(('epochs', [('epochs', [(roots_[0], 1), (roots_[0], 1), (roots_[-1], 2), (roots_[0], 1)], None)]))
            out.append(('epochs-dbfault', [('epochs', [(roots_[0], 1), (roots_[-1], 2), (roots_[0], 1)], 1)]))
    out.append(('dbfault-first-job', [('orgall', None, 'all'), ('dbfail',), ('disp',), ('disp',),
                                      ('pump', 'success', None)]))
    out.append(('waiters', [('orgall', None, 'all'), ('waiters',), ('pump', 'success', None), ('joinwaiters',)]))
    # the waiters start while units are executing on real farm hands (doing and crew are not empty)
    out.append(('waiters-with-crew', [('workers', 3), ('orgall', None, 'all'), ('disp',), ('waiters',),
                                      ('pump', 'success', None), ('joinwaiters',)]))
    out.append(('waiters-with-crew-history-fault',
                [('workers', 3), ('orgall', None, 'all'), ('disp',), ('waiters',), ('chronfail',),
                 ('reply0', 'success'), ('pump', 'success', None), ('joinwaiters',)]))
    # a database fault inside dispatch (db.next raises): monitors only
    roots = [i for i in range(n) if not up[i]]
    for r_ in roots[:2]:
        kids = [x for x in range(n) if r_ in up[x]]
        others = [u for u in range(n) if u != r_ and u not in kids]
        if kids and others:
            out.append(('dbfault-in-dispatch', [('org', others[0], None, [1]), ('disp',), ('org', r_, None, [1]),
                                                ('org', kids[0], None, [1]), ('dbfail',), ('disp',),
                                                ('reply0', 'success'), ('disp',), ('pump', 'success', None)]))
            # the same, and the unit whose release hit the fault fails when it finally runs
            out.append(('dbfault-in-dispatch-then-failure',
                        [('org', others[0], None, [1]), ('disp',), ('org', r_, None, [1]),
                         ('org', kids[0], None, [1]), ('dbfail',), ('disp',),
                         ('reply0', 'success'), ('disp',), ('pump', 'success', r_)]))
    return out


# ------------------------------------------------------------------------------ one history
class Run:
    def __init__(self, env, res, want, algs):
        self.env, self.res, self.want = env, res, want
        self.algs = algs
        self.up, self.down = closure(algs)
        self.idx = {t: i for i, t in enumerate(env.tags)}
        self.tnum = {ALL: 0}
        for i, t in enumerate(env.targets):
            self.tnum[t] = i + 1
        self.inflight = []      # (tag, target) released and not yet answered (ground truth)
        self.purged = set()     # in-flight units whose target a failure purge removed from `doing`
        self.trace = []         # concrete ops as executed (replay + model line)
        self.model_ops = []
        self.impl_obs = []
        self.runid_of = {}
        self.tainted = False    # a worker broke the wire protocol: monitors off, correspondence on
        self.no_model = False   # a database fault was injected: monitors on, correspondence off
        self.put = set()        # units for which farm._put queued a task message since their release
        self.fault_tick = False
        self.tick_puts = []     # task messages farm._put queued during the current dispatch tick
        self.hands = []
        self.lost_hands = []    # (hand, bytes written to it when its connection was lost)
        self.owed = {}          # (consumer, unit) made pending by a new-value report and not yet released
        self.chron_fault = False
        self.waiter_threads = []
        F = env.F
        orig_put = F._put.__wrapped__ if hasattr(F._put, '__wrapped__') else F._put

        def rec_put(job, runid, target, where):
            self.put.add((job.tag, target if target else ALL))
            self.tick_puts.append((job.tag, target if target else ALL))
            return orig_put(job=job, runid=runid, target=target, where=where)

        rec_put.__wrapped__ = orig_put
        F._put = rec_put

    # ---- helpers
    def hit(self, prop, sig, what):
        if prop in self.want and not self.tainted:
            self.res.hit(f'{prop}:{sig}', what,
                         {'engine': self.algs, 'targets': self.env.targets, 'ops': self.trace})

    def vals_of(self, tag):
        a = self.algs[self.idx[tag]]
        return [f"{tag}.sv.{v}" for v in a['values']]

    def pending(self, snap, tag):
        return set(snap['nodes'][tag]['todo'])

    def executing(self, tag):
        return {t for (x, t) in self.inflight if x == tag}

    def busy(self, snap, tag):
        return self.pending(snap, tag) | self.executing(tag)

    # ---- monitored operations
    def do_organize(self, names, rid, targets):
        env = self.env
        before = env.snapshot()
        env.organize(names, rid, targets)
        self.trace.append(['org', names, rid, targets])
        self.model_ops.append(['org', [self.idx[n] for n in names], rid,
                               [self.tnum[t] for t in targets]])
        self.after(None)
        return before

    def do_pause(self, b):
        if b:
            self.env.S.pause()
        else:
            self.env.S.unpause()
        self.trace.append(['pause', b])
        self.model_ops.append(['pause', bool(b)])
        self.after(None)

    def do_defer(self, per):
        env = self.env
        before = env.snapshot()
        paused = env.S.is_paused()
        env.defer(per)
        after = env.snapshot()
        self.trace.append(['defer', [list(p) for p in per]])
        self.model_ops.append(['defer', [[self.idx[t], d] for t, d in per]])
        # C20 clause checked here as part of the scheduler: a due event queues all known targets
        if not paused:
            for tag, due in per:
                st = before['nodes'][tag]['status']
                if due and st not in ('running', 'waiting'):
                    want = {ALL} if self.algs[self.idx[tag]]['kind'] == 'analysis' else set(env.targets)
                    if not want <= set(after['nodes'][tag]['todo']) or (want and tag not in after['que']):
                        self.hit('C04', 'due-event-not-queued',
                                 f'due timer event of {tag} did not queue it for {sorted(want)}')
        self.after(None)

    def do_dispatch(self):
        env = self.env
        before = env.snapshot()
        active = env.fsm.active and not env.S.is_paused()
        self.fault_tick = bool(getattr(env, 'fail_next_db', False))
        self.tick_puts = []
        self.put_before = set(self.put)
        released = env.dispatch()
        self.trace.append(['disp'])
        self.model_ops.append(['disp'])
        # ---- C01: every released unit has idle upstream (ground truth: pending = todo, executing = in flight)
        for tag, t in released:
            i = self.idx[tag]
            for a in self.up[i]:
                atag = self.env.tags[a]
                b = self.busy(before, atag)
                bad = None
                if t in b or ALL in b:
                    bad = f'{tag}[{t}] released while upstream {atag} has {sorted(b & {t, ALL})} pending/executing'
                elif t == ALL and b:
                    bad = f'all-targets unit {tag} released while upstream {atag} has {sorted(b)} pending/executing'
                if bad:
                    blockers = {(atag, u) for u in b}
                    if blockers & self.purged and not (self.pending(before, atag) & {t, ALL}) and not (
                            t == ALL and self.pending(before, atag)):
                        self.hit('C01', 'purge-executing-dependent', bad + ' (its doing entry was purged by an upstream failure)')
                    else:
                        self.hit('C01', 'release-with-busy-upstream', bad)
        # ---- C03: at most one execution of a unit in flight
        for unit in released:
            if unit in self.inflight:
                if unit in self.purged:
                    self.hit('C03', 'purge-executing-dependent',
                             f'{unit[0]}[{unit[1]}] released again while still executing (its doing entry was purged by an upstream failure)')
                else:
                    self.hit('C03', 'double-release', f'{unit[0]}[{unit[1]}] released again while still executing')
        if len(set(released)) != len(released):
            self.hit('C03', 'double-release', f'unit released twice in one batch: {released}')
        # ---- the real release point is farm._put: a task message for a unit that was NOT released in this tick
        # (it is still executing, or was never pending) is a second hand-over and a release of its own
        carried = set(released) | {u for u in self.inflight if u not in self.put_before}
        for unit in self.tick_puts:
            if unit in carried:
                continue
            tag, t = unit
            self.hit('C03', 'message-for-unreleased-unit',
                     f'farm._put queued a task message for {tag}[{t}] which was not released by this tick'
                     + (' and is still executing' if unit in self.inflight else ''))
            for a in self.up[self.idx[tag]]:
                atag = self.env.tags[a]
                b = self.busy(before, atag)
                if t in b or ALL in b or (t == ALL and b):
                    self.hit('C01', 'release-with-busy-upstream',
                             f'a task message for {tag}[{t}] was handed to the farm while upstream {atag} has '
                             f'{sorted(b)} pending/executing')
        if len(set(self.tick_puts)) != len(self.tick_puts):
            self.hit('C03', 'double-release', f'two task messages for one unit in one tick: {sorted(self.tick_puts)}')
        # ---- C03/C04: a task is never written to a connection that is already lost, and never parked for a cloud
        # provider that does not exist
        for k, (h, n0) in enumerate(self.lost_hands):
            if len(h.transport.written) > n0:
                self.lost_hands[k] = (h, len(h.transport.written))
                for prop in ('C03', 'C04'):
                    self.hit(prop, 'handed-to-dead-worker',
                             'a task message was written to a worker whose connection had been lost: the unit can '
                             'never be answered')
        if env.F._cloud and not env.F._agency[0]:
            parked = sorted((m.jobid, m.target or ALL) for m in env.F._cloud)
            for prop in ('C03', 'C04'):
                self.hit(prop, 'released-never-runs',
                         f'task messages {parked} wait for a cloud provider although none is configured: they never '
                         f'reach a worker')
        for unit in released:
            self.owed.pop(unit, None)
        # ---- C04: a pending unit whose upstream is idle (and which is not itself executing) is released
        if active:
            for tag in env.tags:
                i = self.idx[tag]
                for t in before['nodes'][tag]['todo']:
                    if (tag, t) in self.inflight:
                        continue
                    if t != ALL and (tag, ALL) in self.inflight:
                        continue
                    idle = True
                    for a in self.up[i]:
                        b = self.busy(before, self.env.tags[a])
                        if t in b or ALL in b or (t == ALL and b):
                            idle = False
                    if t != ALL and ALL in before['nodes'][tag]['todo']:
                        idle = False  # an all-targets marker on a task node: outside the property's units
                    if idle and (tag, t) not in released:
                        self.hit('C04', 'runnable-not-released',
                                 f'{tag}[{t}] is pending, every upstream algorithm is idle for it, yet dispatch did not release it')
        else:
            if released:
                self.hit('C11', 'released-while-inactive', f'units released while paused/inactive: {released}')
        self.inflight.extend(released)
        for tag, t in released:
            self.runid_of[(tag, t)] = None
        # ---- C03: a released unit stays queued for a worker (its task message exists) unless this very
        # tick hit a database fault (then the next tick retries it)
        if active and not self.fault_tick:
            for unit in self.inflight:
                if unit not in self.put:
                    self.hit('C03', 'released-not-queued',
                             f'{unit[0]}[{unit[1]}] was released (todo -> doing) but no task message was ever queued for it')
                    self.hit('C04', 'released-never-runs',
                             f'{unit[0]}[{unit[1]}] was released but never reaches a worker: the pipeline cannot quiesce')
        self.after(sorted([self.idx[x], self.tnum[t]] for x, t in released))
        return released

    def do_reply(self, tag, t, outcome, news, nonempty=True, known=True):
        env = self.env
        i = self.idx[tag]
        before = env.snapshot()
        rid = 5
        values = []
        if nonempty:
            values = [(v, v in news) for v in self.vals_of(tag)]
        was_inflight = (tag, t) in self.inflight
        if was_inflight and (tag, t) not in self.put:
            # an answer for a task message that was never written: no worker can produce it; the history is
            # outside the protocol, the monitors stop judging it
            self.tainted = True
        self.put.discard((tag, t))
        if self.chron_fault:
            # infrastructure fault while the result is booked: the exception leaves Hand._res; whatever the
            # scheduler did before it stays; the reply itself is not judged
            self.chron_fault = False
            import dawgie.pl.logger.chronicle as chronicle
            keep = chronicle.append

            def broken(_e):
                raise NotADirectoryError('injected: chronicle not writable')

            chronicle.append = broken
            try:
                env.reply(tag, t, outcome, rid, values)
            except NotADirectoryError:
                pass
            finally:
                chronicle.append = keep
            if was_inflight:
                self.inflight.remove((tag, t))
                self.purged.discard((tag, t))
            self.trace.append(['reply', tag, t, outcome, sorted(news), nonempty])
            self.after('fault')
            return
        n_chron = env.reply(tag, t, outcome, rid, values)
        after = env.snapshot()
        self.trace.append(['reply', tag, t, outcome, sorted(news), nonempty])
        vidx = {v: k for k, v in enumerate(env.vals)}
        self.model_ops.append(['reply', i, self.tnum[t], outcome, rid,
                               sorted(vidx[v] for v in news if nonempty), bool(nonempty)])
        if was_inflight:
            self.inflight.remove((tag, t))
            was_purged = (tag, t) in self.purged
            self.purged.discard((tag, t))
            # ---- C03: the result is applied exactly once
            if n_chron != 1:
                if was_purged or any(p[0] == tag for p in self.purged):
                    self.hit('C03', 'purge-executing-dependent',
                             f'result of {tag}[{t}] dropped: its queue entry was removed after an upstream failure purged its doing set')
                else:
                    self.hit('C03', 'reply-not-applied-once',
                             f'result of {tag}[{t}] recorded {n_chron} times (expected once)')
            else:
                e = env.chron[-1]
                if e['task'] != tag or e['target'] != t or e['status'] != outcome:
                    self.hit('C05', 'history-wrong-entry', f'history entry {e} does not describe {tag}[{t}] {outcome}')
            if outcome == 'success' and n_chron == 1:
                self.check_update(tag, t, news if nonempty else [], before, after)
            if outcome != 'success':
                self.owed_after_failure(tag, t)
            if outcome != 'success' and n_chron == 1:
                self.check_failure(tag, t, before, after)
            if outcome != 'success' and n_chron != 1:
                self.hit('C05', 'outcome-not-recorded',
                         f'{tag}[{t}] answered {outcome}: {n_chron} history entries were written (expected one), '
                         f'its target is not withdrawn from its dependents')
        # failure purge may strip `doing` of executing dependents: remember them (known finding)
        for (x, u) in self.inflight:
            if u not in after['nodes'][x]['doing'] and (x, u) not in self.purged:
                self.purged.add((x, u))
        self.after('applied' if n_chron else 'lost')

    def check_update(self, tag, t, news, before, after):
        """C02 step clauses for one success report"""
        env = self.env
        i = self.idx[tag]
        newset = set(news)
        fb_consumers = set()
        for k, a in enumerate(self.algs):
            for (j, v) in a.get('feedback', []):
                if f"{env.tags[j]}.sv.{v}" in newset:
                    fb_consumers.add(k)
        for k, a in enumerate(self.algs):
            if k == i:
                continue
            declared = set()
            for (j, v) in a['inputs']:
                if v is None:
                    declared |= {f"{env.tags[j]}.sv.{x}" for x in self.algs[j]['values']}
                else:
                    declared.add(f"{env.tags[j]}.sv.{v}")
            ktag = env.tags[k]
            grew = set(after['nodes'][ktag]['todo']) - set(before['nodes'][ktag]['todo'])
            if declared & newset:
                if a['kind'] == 'analysis':
                    want = {ALL}
                elif t == ALL:
                    want = set(env.db_targets)
                else:
                    want = {t}
                have = set(after['nodes'][ktag]['todo'])
                for u in want & have:
                    self.owed[(ktag, u)] = f'{tag}[{t}] reported {sorted(declared & newset)} new'
                if not want <= have:
                    self.hit('C02', 'dependent-not-scheduled',
                             f'{tag}[{t}] reported {sorted(declared & newset)} new but consumer {ktag} was not scheduled for {sorted(want - have)}')
                    self.hit('C03', 'report-not-propagated',
                             f'the result of {tag}[{t}] was recorded but its new-value report {sorted(declared & newset)} '
                             f'did not reach consumer {ktag} (not scheduled for {sorted(want - have)})')
                elif want and ktag not in after['que']:
                    self.hit('C02', 'dependent-not-scheduled', f'consumer {ktag} has pending work but is not in the queue')
            elif grew and k not in fb_consumers:
                self.hit('C02', 'needless-rerun',
                         f'{ktag} was scheduled for {sorted(grew)} although none of its inputs was reported new by {tag}[{t}]')
        own = set(after['nodes'][tag]['todo']) - set(before['nodes'][tag]['todo'])
        if own and i not in fb_consumers:
            self.hit('C02', 'needless-rerun', f'{tag} rescheduled itself for {sorted(own)}')

    def owed_after_failure(self, tag, t):
        """a failure of (tag, t) legitimately withdraws t from everything below tag"""
        i = self.idx[tag]
        for (d, u) in list(self.owed):
            if u == t and (self.idx[d] in self.down[i] or d == tag):
                del self.owed[(d, u)]

    def check_failure(self, tag, t, before, after):
        """C05 for one failure / invalid report"""
        env = self.env
        i = self.idx[tag]
        affected = {env.tags[d] for d in self.down[i]} | {tag}
        for x in env.tags:
            b, a = before['nodes'][x], after['nodes'][x]
            if x in affected and t in a['todo']:
                self.hit('C05', 'not-withdrawn', f'{x} still has {t} pending after {tag}[{t}] failed')
            for u in set(b['todo']) | set(a['todo']):
                if (u != t or x not in affected) and ((u in b['todo']) != (u in a['todo'])):
                    self.hit('C05', 'unrelated-pending-changed',
                             f'pending work {x}[{u}] changed by the failure of {tag}[{t}]')
            for u in set(b['doing']) | set(a['doing']):
                if x == tag and (u == t or t == ALL):
                    continue
                if (u != t or x not in affected) and ((u in b['doing']) != (u in a['doing'])):
                    self.hit('C05', 'unrelated-executing-changed',
                             f'executing work {x}[{u}] changed by the failure of {tag}[{t}]')
            if not set(a['todo']) <= set(b['todo']):
                self.hit('C05', 'dependent-triggered', f'{x} gained pending work from the failed run {tag}[{t}]')
        if not set(after['que']) <= set(before['que']):
            self.hit('C05', 'dependent-triggered', f'queue grew after the failed run {tag}[{t}]')

    def after(self, out):
        """state-level monitors + record the observation for the correspondence"""
        env = self.env
        snap = env.snapshot()
        # ---- C04: idle means idle
        nothing = not self.inflight and all(not n['todo'] for n in snap['nodes'].values())
        if nothing:
            vt = env.S.view_todo()
            vd = env.S.view_doing()
            if snap['que'] or vt or vd:
                self.hit('C04', 'idle-not-idle',
                         f'nothing pending or executing but queue={snap["que"]} view_todo={vt} view_doing={vd}')
        # ---- C02: a consumer made pending by a new-value report runs: its pending unit is not dropped on the way
        for (d, u), why in list(self.owed.items()):
            if u not in snap['nodes'][d]['todo'] and (d, u) not in self.inflight:
                del self.owed[(d, u)]
                self.hit('C02', 'scheduled-then-dropped',
                         f'{d}[{u}] was made pending because {why}, and lost that pending unit without being run '
                         f'and without a failure upstream of it for that target')
        # ---- C01/C04 support: every node with work is in the queue
        for x, n in snap['nodes'].items():
            if (n['todo'] or n['doing']) and x not in snap['que']:
                self.hit('C04', 'work-not-queued', f'{x} has work {n} but is not in the queue')
        cluster = sorted([m.jobid, m.target if m.target else ALL, m.runid] for m in env.F._cluster)
        self.impl_obs.append({'snap': snap, 'out': out, 'chron': len(env.chron), 'cluster': cluster})

    def pump(self, policy, fail_node, limit):
        """dispatch and answer everything in flight until nothing moves"""
        env = self.env
        for _ in range(limit):
            released = self.do_dispatch()
            if not self.inflight and not released:
                return
            for (x, t) in list(self.inflight):
                if (x, t) not in self.put:
                    continue  # no task message exists yet: no worker can answer it
                if fail_node is not None and self.idx[x] == fail_node:
                    self.do_reply(x, t, 'failure' if policy != 'invalid' else 'invalid', [])
                elif policy == 'success-new':
                    self.do_reply(x, t, 'success', self.vals_of(x))
                else:
                    self.do_reply(x, t, 'success', [])

    def start_waiters(self):
        """the real FSM poll loops (is_todo_done / is_doing_done / is_crew_done) on threads, started
        while work is still queued; they must return once the pipeline is idle"""
        import threading
        import types as _t

        import dawgie.pl.state as state

        if not hasattr(state.time, '_verif_fast'):
            state.time = _t.SimpleNamespace(sleep=lambda _s: __import__('time').sleep(0.002), _verif_fast=True)
        self.waiter_stop = False
        fake = _t.SimpleNamespace(
            waiting_on_todo=lambda: not self.waiter_stop, waiting_on_doing=lambda: not self.waiter_stop,
            waiting_on_crew=lambda: not self.waiter_stop)
        for name in ('is_todo_done', 'is_doing_done', 'is_crew_done'):
            fn = getattr(state.FSM, name)
            th = threading.Thread(target=fn, args=(fake,), daemon=True)
            th.start()
            self.waiter_threads.append((name, th))

    def join_waiters(self):
        snap = self.env.snapshot()
        idle = not self.inflight and all(not n['todo'] for n in snap['nodes'].values())
        for name, th in self.waiter_threads:
            th.join(20.0 if idle else 0.01)   # generous: the machine may be loaded
            if idle and th.is_alive():
                self.hit('C04', 'waiter-not-satisfied',
                         f'nothing is pending or executing but the waiter loop FSM.{name} keeps waiting')
        self.waiter_stop = True
        for _name, th in self.waiter_threads:
            th.join(1.0)
        self.waiter_threads = []

    # ---- C02 consequence clause: stored results at quiescence = from-scratch run
    def content(self, latest, epochs, i, t, k):
        """deterministic output of value k of algorithm i on target t: a digest of the latest
        contents of (a subset of) its declared input values and, for roots, of an epoch"""
        import hashlib

        a = self.algs[i]
        declared = []
        for (j, v) in a['inputs']:
            vs = self.algs[j]['values'] if v is None else [v]
            declared.extend((j, x) for x in vs)
        declared = sorted(set(declared))
        used = declared if k == 0 else declared[: (len(declared) + 1) // 2]
        parts = [self.env.tags[i], str(k), t]
        for (j, v) in used:
            src_kind = self.algs[j]['kind']
            if src_kind == 'analysis':
                parts.append(latest.get((j, ALL, v), '-'))
            elif a['kind'] == 'analysis':
                parts.extend(latest.get((j, u, v), '-') for u in self.env.targets)
            else:
                parts.append(latest.get((j, t, v), '-'))
        if not a['inputs']:
            e = epochs.get((i, t), 0)
            parts.append(str(e if k == 0 else e // 2))
        return hashlib.sha1('|'.join(parts).encode()).hexdigest()[:12]

    def execute(self, x, t):
        """what a worker does for unit (x, t): compute, store, report which values are new"""
        i = self.idx[x]
        news = []
        for k, v in enumerate(self.algs[i]['values']):
            c = self.content(self.latest, self.epochs, i, t, k)
            if c not in self.seen:
                self.seen.add(c)
                news.append(f'{x}.sv.{v}')
            self.latest[(i, t, v)] = c
        self.ran.add((i, t))
        return news

    def epoch_run(self, bumps, limit, fault_at=None):
        """full run of the engine, then root re-runs with changed content, each driven to
        quiescence; finally the store must equal a from-scratch evaluation"""
        env = self.env
        self.latest, self.epochs, self.seen, self.ran = {}, {}, set(), set()

        def to_idle():
            for _ in range(limit):
                released = self.do_dispatch()
                if not self.inflight and not released:
                    return True
                for (x, t) in list(self.inflight):
                    if (x, t) in self.put:
                        self.do_reply(x, t, 'success', self.execute(x, t))
            return False

        self.do_organize(list(env.tags), None, list(env.targets))
        ok = to_idle()
        for n_bump, (root, t) in enumerate(bumps):
            self.epochs[(root, t)] = self.epochs.get((root, t), 0) + 1
            self.do_organize([env.tags[root]], None, [t])
            if fault_at == n_bump:
                env.fail_next_db = True   # the database fails once inside the next dispatch tick
            ok = to_idle() and ok
        if not ok:
            self.hit('C04', 'no-quiescence', 'epoch scenario did not reach quiescence')
            self.hit('C02', 'stale-result-at-quiescence',
                     f'after root re-runs {bumps} the pipeline never finishes the reprocessing '
                     f'(in flight {self.inflight[:4]}), so the stored results stay stale')
            return
        # from-scratch evaluation in dependency order with the final epochs
        fresh = {}
        order = list(range(len(self.algs)))  # inputs refer to earlier algorithms only
        for i in order:
            tgs = [ALL] if self.algs[i]['kind'] == 'analysis' else list(env.targets)
            for t in tgs:
                for k, v in enumerate(self.algs[i]['values']):
                    fresh[(i, t, v)] = self.content(fresh, self.epochs, i, t, k)
        wrong = [(env.tags[i], t, v) for (i, t, v), c in fresh.items()
                 if self.latest.get((i, t, v)) != c]
        if wrong:
            self.hit('C02', 'stale-result-at-quiescence',
                     f'stored results differ from a from-scratch run for {wrong[:4]} after root re-runs {bumps}')

    def drain(self, limit):
        """C04 quiescence: always-answering workers, no more external events"""
        env = self.env
        if env.S.is_paused():
            self.do_pause(False)
        steps = 0
        while steps < limit:
            snap = env.snapshot()
            if not self.inflight and all(not n['todo'] for n in snap['nodes'].values()):
                return True
            self.do_dispatch()
            for (x, t) in list(self.inflight):
                if (x, t) in self.put:
                    self.do_reply(x, t, 'success', [])
            steps += 1
        snap = env.snapshot()
        if self.inflight or any(n['todo'] for n in snap['nodes'].values()):
            self.hit('C04', 'no-quiescence',
                     f'pipeline did not quiesce within {limit} dispatch rounds with always-answering workers: '
                     f'que={snap["que"]}')
            return False
        return True


def model_line(env, run):
    tnums = [run.tnum[t] for t in env.targets]
    return common.sx(['sched', 'run', len(env.tags), env.graph(), tnums, run.model_ops])


class Rec:
    """what the correspondence needs from one executed history (picklable)"""

    def __init__(self, env, run):
        self.tags, self.targets = list(env.tags), list(env.targets)
        self.impl_obs, self.trace = run.impl_obs, run.trace


def compare(res, env, run, out, case):
    """correspondence: per-op observation of the model vs the implementation"""
    m = common.parse_sx(out)
    if isinstance(m, list) and m and m[0] == 'bad-op':
        res.diff('Sched driver rejected the case', case, out, None)
        return
    if len(m) != len(run.impl_obs):
        res.diff('Sched.run length', case, len(m), len(run.impl_obs))
        return
    tname = {0: ALL}
    for i, t in enumerate(env.targets):
        tname[i + 1] = t
    for k, (mo, io) in enumerate(zip(m, run.impl_obs)):
        que, nodes, o, chron, msgs, _infl = mo
        mq = sorted(set(env.tags[int(i)] for i in que))
        iq = sorted(set(io['snap']['que']))
        mism = None
        if mq != iq:
            mism = ('que', mq, iq)
        for i, nd in enumerate(nodes):
            tag = env.tags[i]
            inode = io['snap']['nodes'][tag]
            mt = sorted(tname[int(t)] for t in nd[0])
            md = sorted(tname[int(t)] for t in nd[1])
            mdo = sorted(tname[int(t)] for t in nd[2])
            mr = None if nd[4] == 'N' else int(nd[4])
            if (mt, md, mdo, nd[3], mr) != (sorted(inode['todo']), inode['doing'], inode['do'],
                                           inode['status'], inode['runid']):
                mism = mism or ('node ' + tag, [mt, md, mdo, nd[3], mr],
                                [sorted(inode['todo']), inode['doing'], inode['do'], inode['status'], inode['runid']])
        if isinstance(io['out'], list):
            if sorted([int(a), int(b)] for a, b in o) != io['out']:
                mism = mism or ('released', o, io['out'])
        elif io['out'] in ('applied', 'lost') and o != io['out']:
            mism = mism or ('reply result', o, io['out'])
        if int(chron) != io['chron']:
            mism = mism or ('history length', chron, io['chron'])
        mm = sorted([env.tags[int(j)], tname[int(t)], int(r)] for j, t, r in msgs)
        # the model keeps every message ever queued; the cluster holds those not yet handed out
        if io['cluster'] != mm:
            mism = mism or ('task messages', mm, io['cluster'])
        if mism:
            res.diff(f'Sched.step vs schedule/farm at op {k} ({mism[0]})',
                     dict(case, op=run.trace[k] if k < len(run.trace) else None), mism[1], mism[2])
            return


def special_op(env, run, want, op):
    """fault injections and waiter threads (recorded in the trace so that replays repeat them)"""
    kind = op[0]
    run.trace.append(list(op))
    if kind == 'waiters':
        if 'C04' in want:
            run.start_waiters()
    elif kind == 'joinwaiters':
        if 'C04' in want:
            run.join_waiters()
    elif kind == 'dbfail':
        run.no_model = True
        env.fail_next_db = True
    elif kind == 'workers':
        # real farm hands on fake transports: dispatch hands messages over and farm._busy is exercised
        run.no_model = True
        for _k in range(op[1]):
            h = env.new_worker()
            env.send_to_hand(h, env.M.make(typ=env.M.Type.register, inc=op[2] if len(op) > 2 else 1,
                                            rev=env.dawgie.context.git_rev))
            run.hands.append(h)
    elif kind == 'lose':
        # the reactor reports the connection of that worker as lost
        run.no_model = True
        h = run.hands[op[1]]
        h.connectionLost(None)
        run.lost_hands.append((h, len(h.transport.written)))
    elif kind == 'chronfail':
        # the next history write fails (unwritable chronicle): monitors only
        run.no_model = True
        run.chron_fault = True


def run_history(env, res, want, algs, ops, r, lines, pending, tag):
    env.fresh()
    run = Run(env, res, want, algs)
    for op in ops:
        kind = op[0]
        if kind == 'org':
            names = op[1]
            if isinstance(names, int):
                names = [env.tags[names]]
            targets = [(env.targets[t - 1] if t <= len(env.targets) else None) if isinstance(t, int) and t > 0 else t
                       for t in op[3]]
            targets = [t for t in targets if t == ALL or t in env.targets]
            run.do_organize(names, op[2], targets)
        elif kind == 'orgall':
            tg = list(env.targets) if op[2] == 'all' else []
            run.do_organize(list(env.tags), op[1], tg)
        elif kind == 'pump':
            run.pump(op[1], op[2], 4 * len(env.tags) * (len(env.targets) + 2) + 8)
        elif kind == 'epochs':
            if 'C02' in want and len(env.targets) >= 2:
                bumps = [(r_, env.targets[k - 1]) for r_, k in op[1]]
                if op[2] is not None:
                    run.no_model = True
                run.epoch_run(bumps, 4 * len(env.tags) * (len(env.targets) + 2) + 8, op[2])
        elif kind == 'replyu':
            x = env.tags[op[1]]
            t = env.targets[op[2] - 1] if 0 < op[2] <= len(env.targets) else None
            if t is not None and (x, t) in run.inflight and (x, t) in run.put:
                if op[3] == 'success-new':
                    run.do_reply(x, t, 'success', run.vals_of(x))
                else:
                    run.do_reply(x, t, op[3], [])
        elif kind in ('waiters', 'joinwaiters', 'dbfail', 'workers', 'chronfail', 'lose'):
            special_op(env, run, want, op)
        elif kind == 'disp':
            run.do_dispatch()
        elif kind == 'reply':
            # only a unit whose task message exists can be answered by a worker (after a database fault
            # inside dispatch a released unit has none until the next tick)
            sent = [u for u in run.inflight if u in run.put]
            if not sent:
                continue
            x, t = sent[int(op[1] * len(sent)) % len(sent)]
            vals = run.vals_of(x)
            news = [v for v in vals if (op[3] * 7919 * (1 + vals.index(v))) % 1 < 0.6] if op[2] == 'success' else []
            run.do_reply(x, t, op[2], news, nonempty=op[4] > 0.07)
        elif kind == 'reply0':
            sent = [u for u in run.inflight if u in run.put]
            if not sent:
                continue
            x, t = sent[0]
            if op[1] == 'success-new':
                run.do_reply(x, t, 'success', run.vals_of(x))
            else:
                run.do_reply(x, t, op[1], [])
        elif kind == 'replyL':
            sent = [u for u in run.inflight if u in run.put]
            if not sent:
                continue
            x, t = sent[-1]
            run.do_reply(x, t, op[1], [])
        elif kind == 'stray':
            # a reply for a unit that is not in flight (protocol violation by a worker): only the
            # correspondence looks at it
            if (op[1], op[2]) not in run.inflight:
                run.tainted = True
                run.do_reply(op[1], op[2], 'success', [], known=False)
        elif kind == 'defer':
            run.do_defer(op[1])
        elif kind == 'pause':
            run.do_pause(op[1])
    if ('C04' in want or 'C02' in want) and not run.tainted:
        run.drain(4 * len(env.tags) * (len(env.targets) + 2) + 8)
    case = {'engine': algs, 'targets': env.targets, 'ops': run.trace}
    if not run.no_model:
        lines.append(model_line(env, run))
        pending.append((Rec(env, run), Rec(env, run), case))
    nontrivial = any(o['out'] not in (None, [], 'lost') for o in run.impl_obs)
    res.case(json.dumps(run.trace, sort_keys=True, default=str), nontrivial=nontrivial,
             sample={'engine': [(a['task'] + '.' + a['name'], a['kind'], a['inputs']) for a in algs],
                     'ops': run.trace[:12]})
    for t in run.trace:
        res.count('op:' + t[0] + (':' + t[3] if t[0] == 'reply' else ''))
    res.count(tag)
    return run


def run_all(ctx, res, want, salt):
    """generate engines and histories, run monitors, then the correspondence in one driver call"""
    import logging

    logging.disable(logging.CRITICAL)
    r = common.rng(ctx['seed'], salt)
    thorough = ctx['tier'] == 'thorough' or ctx['escalate']
    n_engines = 40 if thorough else 10
    n_hist = 12 if thorough else 6
    res.rule = ('random acyclic engines (2-6 algorithms; task/analysis/regress; alg- and value-level inputs; '
                'feedback) written as real packages and loaded by the real scanner and dag.Construct; per engine '
                'several histories of organize / dispatch / reply(success with a subset of values new, failure, '
                'invalid) / defer / pause, biased to re-requests of executing units and failures, plus a scenario '
                'corpus; every history is then drained with always-answering workers; monitors read the real '
                'node sets; each history is also run by Model/Sched.lean and compared op by op; '
                'non-trivial = some unit released or reply applied; distinct by executed op trace')
    res.assumptions = list(TRUSTED)
    batches = []
    envs = []
    import sys
    import io
    shapes = list(SHAPES.items())
    for e in range(n_engines + len(shapes)):
        if e < len(shapes):
            shape, algs = shapes[e]
            targets = ['T1', 'T2']
        else:
            shape, algs = None, gen_engine(r)
            ntg = r.choice([0, 1, 2, 2, 3])
            targets = [f'T{i + 1}' for i in range(ntg)]
        old = sys.stdout
        sys.stdout = io.StringIO()  # the deprecation banner of the scanner
        try:
            env = E.Env(algs, targets)
        finally:
            sys.stdout = old
        envs.append(env)
        lines, pending = [], []
        if shape is not None or thorough:
            for name, ops in scenarios(algs):
                run_history(env, res, want, algs, ops, r, lines, pending, 'scenario:' + name)
        if e < len(CORPUS) * 2:
            ops = CORPUS[e % len(CORPUS)]
            ops = [(o[0], (len(algs) - 1 if o[1] == -1 else min(o[1], len(algs) - 1)), *o[2:])
                   if o[0] == 'org' else o for o in ops]
            run_history(env, res, want, algs, ops, r, lines, pending, 'corpus')
        for _ in range(n_hist):
            ops = gen_ops(r, env, r.choice([6, 10, 16, 24, 40]))
            run_history(env, res, want, algs, ops, r, lines, pending, 'random')
        batches.append((lines, pending))
        if env.self_children:
            res.count('graphs-with-self-children')
    if ctx['tier'] == 'thorough':
        batches.extend(exhaustive(res, want, ctx))
    if ctx['lean']:
        all_lines = [l for lines, _p in batches for l in lines]
        outs = common.driver(all_lines, 'Sched')
        k = 0
        for lines, pend in batches:
            for (env, run, case) in pend:
                compare(res, env, run, outs[k], case)
                k += 1
        res.traces = k
    for env in envs:
        env.close()


# ------------------------------------------------------------------------------ small scope
SMALL = [
    # chain a0 -> a1 -> a2
    [dict(task='t0', name='a0', kind='task', values=['v0'], inputs=[], feedback=[]),
     dict(task='t1', name='a1', kind='task', values=['v0'], inputs=[(0, 'v0')], feedback=[]),
     dict(task='t2', name='a2', kind='task', values=['v0'], inputs=[(1, None)], feedback=[])],
    # a task feeding an analysis and a task (fork)
    [dict(task='t0', name='a0', kind='task', values=['v0', 'v1'], inputs=[], feedback=[]),
     dict(task='t1', name='a1', kind='analysis', values=['v0'], inputs=[(0, 'v0')], feedback=[]),
     dict(task='t2', name='a2', kind='task', values=['v0'], inputs=[(0, 'v1')], feedback=[])],
    # diamond top: two roots, one consumer
    [dict(task='t0', name='a0', kind='task', values=['v0'], inputs=[], feedback=[]),
     dict(task='t1', name='a1', kind='task', values=['v0'], inputs=[], feedback=[]),
     dict(task='t2', name='a2', kind='task', values=['v0'], inputs=[(0, None), (1, 'v0')], feedback=[])],
]


def small_alphabet(n):
    syms = [('org', i, None, [1]) for i in range(n)]
    syms += [('org', 0, None, [1, 2]), ('disp',), ('reply0', 'success-new'), ('reply0', 'success'),
             ('reply0', 'failure'), ('replyL', 'success')]
    return syms


def _small_worker(args):
    """runs a slice of the exhaustive enumeration in its own process"""
    import io
    import itertools
    import logging
    import sys

    k, length, lo, hi, want, seed = args
    logging.disable(logging.CRITICAL)
    algs = SMALL[k]
    old = sys.stdout
    sys.stdout = io.StringIO()
    try:
        env = E.Env(algs, ['T1', 'T2'])
    finally:
        sys.stdout = old
    res = common.Result()
    r = common.rng(seed, 'small')
    syms = small_alphabet(len(algs))
    lines, pending = [], []
    try:
        for idx, seq in enumerate(itertools.product(syms, repeat=length)):
            if idx < lo:
                continue
            if idx >= hi:
                break
            run_history(env, res, want, algs, list(seq), r, lines, pending, 'exhaustive')
    finally:
        env.close()
    return lines, pending, res


def exhaustive(res, want, ctx):
    import multiprocessing

    jobs = []
    for k in range(len(SMALL)):
        syms = small_alphabet(len(SMALL[k]))
        for length in (3, 4, 5):
            total = len(syms) ** length
            parts = 1 if total < 2000 else 16
            step = (total + parts - 1) // parts
            for i in range(parts):
                jobs.append((k, length, i * step, min(total, (i + 1) * step), want, ctx['seed']))
    out = []
    with multiprocessing.Pool(16) as pool:
        for lines, pending, sub in pool.imap_unordered(_small_worker, jobs):
            out.append((lines, pending))
            res.evaluations += sub.evaluations
            res.nontrivial |= sub.nontrivial
            for h in sub.hits:
                res.hit(h['sig'], h['what'], h['replay'])
            for k2, v in sub.stats.items():
                res.count(k2, v)
    res.exhaustive = False
    return out


def replay_case(rep, res, want):
    import logging

    logging.disable(logging.CRITICAL)
    inp = rep['input']
    algs = [dict(a, inputs=[tuple(i) for i in a['inputs']],
                 feedback=[tuple(i) for i in a.get('feedback', [])]) for a in inp['engine']]
    env = E.Env(algs, inp['targets'])
    try:
        env.fresh()
        run = Run(env, res, want, algs)
        for op in inp['ops']:
            if op[0] == 'org':
                run.do_organize(op[1], op[2], op[3])
            elif op[0] == 'disp':
                run.do_dispatch()
            elif op[0] == 'reply':
                run.do_reply(op[1], op[2], op[3], op[4], nonempty=op[5])
            elif op[0] == 'defer':
                run.do_defer([tuple(p) for p in op[1]])
            elif op[0] == 'pause':
                run.do_pause(op[1])
            elif op[0] in ('waiters', 'joinwaiters', 'dbfail', 'workers', 'chronfail', 'lose'):
                special_op(env, run, want, op)
                run.trace.pop()
        if run.waiter_threads:
            run.join_waiters()
    finally:
        env.close()
