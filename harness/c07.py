"""C07 — content-addressed store: correspondence + monitor with enumerated crash points.

Real code driven (nothing in /repo is modified): `db.util.encode/move`, `Connector._set_prime`,
`comms.Worker.dataReceived/do` (branches `Func.upd` and `Func.set`), `shelve.util.append`,
`shelve.model.Interface._update/_update_msv`, `dawgie.Task.new_values`, `dawgie.db.shelve.remove`
and the `__main__` block of `db/tools/purge.py`, against real dbm/shelve files, a real staging
directory and a real store directory in a fresh temp dir, with the real `md5sum`/`sha1sum`.

Every history is executed once, in-process.  In front of EVERY file-system / table / wire call the
real code makes (module attributes of `dawgie.db.util`, `shelve.Shelf.__setitem__/__delitem__`,
`Worker._send`, `Task.new_values` are replaced by counting pass-throughs) the directories and dbm files
are copied: the copy is exactly what a process killed at that point leaves behind (each `pickle.dump`
is additionally torn half-way).  Every copy is re-read from disk as a restarted pipeline would,
judged by the property (`monitor`), compared with the Lean model run on the same micro-step budgets
(`compare`), and the remainder of the history is executed on it (restart: the interrupted operation
retried or abandoned).  A sample of crash points is repeated with a forked process that really dies
(`os._exit`) to validate the copy method.  Crash points are enumerated, not sampled."""
import errno
import hashlib
import json
import os
import pickle
import shutil
import struct
import sys
import tempfile

from . import common

LEAN_TARGETS = ['DawgieVerif.Model.BlobIO']

MANIFEST = dict(
    text='Lean theorems over an executable micro-step model of the shelve blob store, proved about the '
         'update program that is regenerated from db/util (encode, move), shelve/comms (Worker.do, Func.set) '
         'and shelve/model (_update, _update_msv) on every run: for every history of updates, removals and '
         'purges with arbitrary repeating contents and a crash after any micro-step of any update, in both '
         'configurations (staging directory on the store\'s file system / on another one) '
         '(no_dangling, name_is_digest, single_copy, isnew_iff, isnew_in_history, crashed_update_silent, '
         'staged_garbage, completed_update; invariant by symbolic execution of every crash prefix and '
         'induction over the history).  The model is tied to the real code by a run on every check: real '
         'encode/move/Worker.do/_update/_update_msv/remove/purge on real dbm files and directories, the '
         'process killed in front of every file-system, table and wire call of every history, the disk '
         're-read by the parent and compared with the model and with the property itself.',
    note='Trusted: Lean kernel; axioms propext/Classical.choice/Quot.sound only; tools/gen_c07.py (AST -> '
         'micro-step list, validated against the observed call order); harness loop-back (socket and lock '
         'bypassed), call interceptors and canonicalisation.  Assumed, not verified: digest collision '
         'freedom (hypothesis of isnew_iff), atomicity of os.replace within data_dbs (the only rename atomicity '
         'still assumed; the move of the staged file into data_dbs/incoming is modelled and exercised both as an '
         'atomic rename and as the copy + unlink that shutil.move performs across file systems, EXDEV injected), dbm durability (a '
         'process crash is simulated, not a kernel crash; partial dbm writes are not modelled), '
         'tempfile.mkstemp uniqueness, sequential updates (the database lock serialises writers; '
         'concurrent writers are not modelled).  PostgreSQL backend not tied.',
    technique='Lean 4 proof (invariant over micro-step prefixes + induction over histories) + differential '
              'correspondence with exhaustive crash-point enumeration',
    design='7/C07',
)

TRUSTED = [
    'digest collision freedom of md5sum+sha1sum on the contents seen (hypothesis Function.Injective h of isnew_iff)',
    'os.replace of a file inside the store directory tree (data_dbs/incoming/<f> -> data_dbs/<digest>) is atomic: '
    'one micro-step of the model in both configurations; shutil.move of the staged file is one atomic os.rename when '
    'data_stg is on the store\'s file system and create / partial write / complete / unlink-source when it is not '
    '(both configurations are modelled, proved and exercised; the second by answering EXDEV to os.rename inside '
    'the harness, signatures C07:xfs:*)',
    'dbm/shelve durability: a crash is a process exit (os._exit), not a kernel crash; torn dbm writes are not modelled',
    'tempfile.mkstemp returns a name that does not exist (model: counter)',
    'updates are sequential (database lock); the socket, the lock handshake and PGP/TLS are bypassed by a loop-back '
    'that feeds the pickled request to a real comms.Worker.dataReceived',
    'pickle.dump(value, file) and pickle.dumps(value) produce the same bytes (checked on every completed update)',
]

DONE = 99  # crash budget of an update that ran to its end (more than any configuration's micro-steps)
CRASH_RC = 99
METRIC_KEYS = ['input', 'mem', 'output', 'pages', 'sys', 'user', 'wall']
MSV_NAMES = ['input', 'memory', 'output', 'pages', 'system', 'user', 'wall']


# ------------------------------------------------------------------ synthetic AE pieces
def _classes():
    """dawgie.Value / StateVector / Algorithm subclasses, created once the repo's dawgie is importable.
    They live at module level of this module so that pickle can refer to them by name."""
    g = globals()
    if 'Val' in g:
        return g['Val'], g['SV'], g['Alg']
    import warnings

    import dawgie

    with warnings.catch_warnings():
        warnings.simplefilter('ignore')

        class Val(dawgie.Value):
            def __init__(self, data=None):
                self._version_ = dawgie.VERSION(1, 0, 0)
                self.data = data

            def features(self):
                return []

        class SV(dawgie.StateVector):
            def __init__(self, name='sv', items=()):
                dict.__init__(self)
                self._version_ = dawgie.VERSION(1, 0, 0)
                self._name = name
                for k, v in items:
                    self[k] = v

            def name(self):
                return self._name

            def view(self, caller, visitor):
                return None

        class Alg(dawgie.Algorithm):
            def __init__(self, name='alg', svs=(), ver=0):
                self._version_ = dawgie.VERSION(1, 0, ver)
                self._name = name
                self._svs = list(svs)

            def name(self):
                return self._name

            def previous(self):
                return []

            def run(self, ds, ps):
                return None

            def state_vectors(self):
                return self._svs

    for c in (Val, SV, Alg):
        c.__module__ = __name__
        c.__qualname__ = c.__name__
        g[c.__name__] = c
    return Val, SV, Alg


def pool_value(cid):
    """content id (1..) -> python datum; small pool so that repeats are frequent"""
    pool = {
        1: b'',
        2: 'a',
        3: 0,
        4: [1, 2, 3],
        5: 'x' * 300,
        6: {'k': (1.5, None)},
        7: b'\x00' * 5000,
        8: list(range(40)),
    }
    if cid in BIG:
        return _sized_bytes(BIG[cid])
    return pool[cid]


# values whose serialisation has exactly this many bytes: around and beyond the 1 MiB read-block size that
# block-wise digest implementations use (content ids 9..12)
MIB = 1 << 20
BIG = {9: MIB - 1, 10: MIB + 1, 11: 2 * MIB + 3, 12: MIB}
_OVERHEAD = []


def _sized_bytes(total):
    """a bytes datum d such that pickle.dumps(Val(d), HIGHEST_PROTOCOL) is `total` bytes long; the fill is not
    periodic in the block size, so that any block read in isolation differs from the whole"""
    Val, _SV, _Alg = _classes()
    if not _OVERHEAD:
        _OVERHEAD.append(len(pickle.dumps(Val(b'\0' * 70000), pickle.HIGHEST_PROTOCOL)) - 70000)
    n = total - _OVERHEAD[0]
    d = (bytes(range(251)) * (n // 251 + 1))[:n]
    assert len(pickle.dumps(Val(d), pickle.HIGHEST_PROTOCOL)) == total
    return d


def metric_cid(n):
    return 100 + n


def make_value(cid):
    import warnings

    Val, _SV, _Alg = _classes()
    with warnings.catch_warnings():
        warnings.simplefilter('ignore')
        if cid >= 100:
            import dawgie.util

            return dawgie.util.MetricValue(cid - 100)
        return Val(pool_value(cid))


def expected_bytes(cid):
    return pickle.dumps(make_value(cid), pickle.HIGHEST_PROTOCOL)


def sha(b):
    return hashlib.sha256(b).hexdigest()[:20]


# ------------------------------------------------------------------ histories
def flatten(hist):
    """history (json-able) -> list of model-level operations in the order the real code performs them:
    ('upd', key-label, cid) | ('del', key-label) | ('purge',)"""
    out = []
    for i, op in enumerate(hist):
        k = op['kind']
        if k == 'update':
            for svn, vals in op['svs']:
                for vn, cid in vals:
                    out.append(('upd', keylabel(op, svn, vn), cid, i))
        elif k == 'msv':
            for pre, met in (('db', op['db']), ('task', op['tk'])):
                for nm, val in zip(MSV_NAMES, met):
                    out.append(('upd', keylabel(op, '__metric__', f'{pre}_{nm}'), metric_cid(val), i))
        elif k == 'remove':
            out.append(('del', keylabel(op, op['sv'], op['vn']), None, i))
        elif k == 'purge':
            out.append(('purge', None, None, i))
        else:
            raise ValueError(k)
    return out


def alglabel(op):
    """algorithm name, with its version when the history re-executes a run under a bumped algorithm version
    (same run id and names, another version = another catalogue entry)"""
    return op['alg'] + ('@1.0.%d' % op['ver'] if op.get('ver') else '')


def keylabel(op, svn, vn):
    return '.'.join([str(op['run']), op['target'], op['task'], alglabel(op), svn, vn])


# ------------------------------------------------------------------ environment (fresh dirs)
class Env:
    def __init__(self):
        base = '/dev/shm' if os.path.isdir('/dev/shm') and os.access('/dev/shm', os.W_OK) else None
        self.root = tempfile.mkdtemp(prefix='c07_', dir=base)
        self.dbs = os.path.join(self.root, 'dbs')
        self.stg = os.path.join(self.root, 'stg')
        self.db = os.path.join(self.root, 'db')
        self.log = os.path.join(self.root, 'log')
        for d in (self.dbs, self.stg, self.db, self.log):
            os.mkdir(d)
        self.events = os.path.join(self.root, 'events.jsonl')

    def configure(self):
        import dawgie.context as ctx

        ctx.data_dbs, ctx.data_stg, ctx.data_log = self.dbs, self.stg, self.log
        ctx.db_path, ctx.db_name, ctx.db_impl = self.db, 'c07', 'shelve'
        ctx.db_rotate_path = self.db
        ctx.data_per = self.db

    def close(self):
        shutil.rmtree(self.root, ignore_errors=True)


# ------------------------------------------------------------------ interceptors (counting pass-throughs)
class RT:
    """state shared with the interceptors; one history executes at a time"""
    installed = False
    env = None
    ordinal = 0      # number of intercepted calls so far
    flat = -1        # index of the model-level operation in flight
    events = []
    hook = None      # called with the tick record BEFORE the intercepted call is executed
    kill_at = 0      # forked cross-check only: os._exit in front of this call
    xfs = False      # configuration "staging area on another file system": rename stg -> dbs fails with EXDEV
    in_move = None   # (src, dst) while the real shutil.move called by db.util.move is running


def emit(rec):
    RT.events.append(rec)


def tick(label, detail=None):
    RT.ordinal += 1
    rec = {'e': 'tick', 'n': RT.ordinal, 'l': label, 'd': detail, 'f': RT.flat}
    RT.events.append(rec)
    if RT.kill_at and RT.ordinal == RT.kill_at:
        os._exit(CRASH_RC)
    if RT.hook is not None:
        saved, RT.in_move = RT.in_move, None  # the harness' own copies must not look like the move under test
        try:
            RT.hook(rec)
        finally:
            RT.in_move = saved


class _Proxy:
    """module stand-in: every attribute is the real one; the named callables tick first"""

    def __init__(self, real, wrapped, sub=None):
        self.__dict__['_real'] = real
        self.__dict__['_wrapped'] = wrapped
        self.__dict__['_sub'] = sub or {}

    def __getattr__(self, name):
        if name in self._sub:
            return self._sub[name]
        real = getattr(self._real, name)
        if name in self._wrapped:
            label = self._wrapped[name]

            def call(*a, **kw):
                tick(label, _brief(a))
                return real(*a, **kw)

            return call
        return real


def _brief(args):
    out = []
    for a in args[:2]:
        if isinstance(a, (list, tuple)):
            out.append([os.path.basename(str(x)) for x in a][:3])
        elif isinstance(a, (str, bytes, os.PathLike)):
            out.append(os.path.basename(os.fsdecode(a)))
        else:
            out.append(type(a).__name__)
    return out


class FakeTransport:
    def __init__(self):
        self.written = []

    def write(self, b):
        self.written.append(bytes(b))

    def loseConnection(self):
        pass


def snapshot_store():
    out = []
    for fn in sorted(os.listdir(RT.env.dbs)):
        if not os.path.isfile(os.path.join(RT.env.dbs, fn)):
            continue
        with open(os.path.join(RT.env.dbs, fn), 'rb') as f:
            out.append([fn, sha(f.read())])
    return out


def install():
    """replace module attributes (never files of /repo) by counting pass-throughs, once per process"""
    if RT.installed:
        return
    import shelve
    import subprocess

    import dawgie.db.shelve as impl
    import dawgie.db.shelve.comms as comms
    import dawgie.db.util as dbu
    import dawgie.security as security
    from dawgie.db.shelve.state import DBI

    RT.installed = True
    security._myself = None  # legacy mode: Worker(None) installs no handshake wrapper
    os.environ['DAWGIE_DOCKERIZED_AE_GIT_REVISION'] = 'c07'  # context.override() would shell out to git

    def dump(obj, f, protocol=None, **kw):
        tick('dump', [os.path.basename(str(getattr(f, 'name', '?')))])
        return pickle.dump(obj, f, protocol, **kw)

    dbu.pickle = _Proxy(pickle, {}, {'dump': dump})
    dbu.tempfile = _Proxy(tempfile, {'mkstemp': 'mkstemp', 'mkdtemp': 'mkstemp', 'NamedTemporaryFile': 'mkstemp'})
    ospath = _Proxy(os.path, {'exists': 'probe', 'isfile': 'probe', 'lexists': 'probe'})
    fs = {'unlink': 'unlink', 'remove': 'unlink', 'rename': 'replace', 'replace': 'replace', 'renames': 'replace',
          'link': 'link', 'symlink': 'link', 'chmod': 'chmod', 'makedirs': 'mkdirs', 'mkdir': 'mkdirs'}
    dbu.os = _Proxy(os, fs, {'path': ospath})
    dbu.subprocess = _Proxy(subprocess, {k: 'digest' for k in
                                         ('check_output', 'run', 'call', 'check_call', 'Popen', 'getoutput')})

    # configuration "staging area on another file system" (RT.xfs): no second file system is needed, the
    # kernel's answer to a cross-device rename (EXDEV) is given for every rename from the staging directory
    # into the store, so that the REAL shutil.move takes its real copy2 + unlink path; the calls of that path
    # (open of the destination, every sendfile, copystat, unlink of the source) become crash points, and
    # sendfile is asked for the bytes in four pieces (1, half, all but one, rest) = real partial writes.
    def crosses(src, dst):
        try:
            a, b = os.path.abspath(os.fsdecode(src)), os.path.abspath(os.fsdecode(dst))
        except TypeError:
            return False
        return a.startswith(RT.env.stg + os.sep) and b.startswith(RT.env.dbs + os.sep)

    def exdev(src, dst):
        return OSError(errno.EXDEV, os.strerror(errno.EXDEV), os.fsdecode(src), None, os.fsdecode(dst))

    def in_copy():
        return RT.xfs and RT.in_move is not None

    def where(dst):
        """which directory a destination path lies in, in the model's vocabulary"""
        try:
            d = os.path.dirname(os.path.abspath(os.fsdecode(dst)))
        except TypeError:
            return '?'
        if d == RT.env.dbs:
            return 'store'
        return 'incoming' if d.startswith(RT.env.dbs + os.sep) else ('stage' if d == RT.env.stg else '?')

    def through(label, real):
        def f(src, dst, *a, **kw):
            tick(label + ':' + where(dst), _brief((src, dst)))
            RT.in_move = (src, dst)
            try:
                return real(src, dst, *a, **kw)
            finally:
                RT.in_move = None
        return f

    dbu.shutil = _Proxy(shutil, {'copyfileobj': 'copy'},
                        {'move': through('move', shutil.move), 'copy': through('copy', shutil.copy),
                         'copy2': through('copy', shutil.copy2), 'copyfile': through('copy', shutil.copyfile)})

    def direct_rename(real):
        def f(src, dst, *a, **kw):
            tick('replace' if where(src) == 'incoming' else 'move:' + where(dst), _brief((src, dst)))
            if RT.xfs and crosses(src, dst):
                raise exdev(src, dst)
            return real(src, dst, *a, **kw)
        return f

    dbu.os._sub.update({'rename': direct_rename(os.rename), 'replace': direct_rename(os.replace)})

    def sh_rename(src, dst, *a, **kw):
        if in_copy() and crosses(src, dst):
            raise exdev(src, dst)
        return os.rename(src, dst, *a, **kw)

    def sh_sendfile(out, in_, offset, count):
        if not in_copy():
            return os.sendfile(out, in_, offset, count)
        size = os.fstat(in_).st_size
        tick('xcopy:write', ['@%d/%d' % (offset, size)])
        nxt = [c for c in sorted({1, size // 2, size - 1}) if offset < c < size]
        return os.sendfile(out, in_, offset, min(count, nxt[0] - offset) if nxt else count)

    def sh_unlink(path, *a, **kw):
        if in_copy() and os.path.abspath(os.fsdecode(path)).startswith(RT.env.stg + os.sep):
            tick('xcopy:unlink', _brief((path,)))
        return os.unlink(path, *a, **kw)

    shutil.os = _Proxy(os, {}, {'rename': sh_rename, 'sendfile': sh_sendfile, 'unlink': sh_unlink})

    def sh_open(file, mode='r', *a, **kw):
        if in_copy() and 'w' in mode and isinstance(file, (str, bytes, os.PathLike)) \
                and os.path.abspath(os.fsdecode(file)).startswith(RT.env.dbs + os.sep):
            tick('xcopy:create', _brief((file,)))
        return open(file, mode, *a, **kw)

    shutil.open = sh_open
    real_copystat, real_copyfileobj = shutil.copystat, shutil.copyfileobj

    def sh_copystat(src, dst, *a, **kw):
        if in_copy():
            tick('xcopy:copystat', _brief((src, dst)))
        return real_copystat(src, dst, *a, **kw)

    def sh_copyfileobj(fsrc, fdst, *a, **kw):
        if in_copy():
            tick('xcopy:write', ['fallback'])
        return real_copyfileobj(fsrc, fdst, *a, **kw)

    shutil.copystat, shutil.copyfileobj = sh_copystat, sh_copyfileobj

    def listdir(path='.'):
        ls = os.listdir(path)
        emit({'e': 'listdir', 'd': os.path.basename(str(path)), 'ls': list(ls)})
        return ls

    RT.purge_os = _Proxy(os, dict(fs), {'listdir': listdir})

    # table writes (all six dbm-backed shelves)
    real_set, real_del = shelve.Shelf.__setitem__, shelve.Shelf.__delitem__

    def table_name(sh):
        for n, t in DBI().tables._asdict().items():
            if t is sh:
                return n
        return '?'

    def setitem(sh, key, value):
        tick('set:' + table_name(sh), [str(key)])
        return real_set(sh, key, value)

    def delitem(sh, key):
        tick('del:' + table_name(sh), [str(key)])
        return real_del(sh, key)

    shelve.Shelf.__setitem__ = setitem
    shelve.Shelf.__delitem__ = delitem

    # the reply on the wire
    real_send = comms.Worker._send

    def _send(worker, response):
        tick('send', [repr(response)[:40]])
        return real_send(worker, response)

    comms.Worker._send = _send

    # loop-back instead of the socket; the database lock is not under test here
    def loop_do(request):
        msg = pickle.dumps(request, pickle.HIGHEST_PROTOCOL)
        w = comms.Worker(None)
        w.transport = FakeTransport()
        w.dataReceived(struct.pack('>I', len(msg)) + msg)
        data = b''.join(w.transport.written)
        if len(data) < 4:
            raise RuntimeError('no reply from Worker.do for ' + str(request.func))
        n = struct.unpack('>I', data[:4])[0]
        return pickle.loads(data[4:4 + n])

    comms.Connector._Connector__do = staticmethod(loop_do)
    comms.acquire = lambda name: 'lok'
    comms.release = lambda s: True

    # marker: which model-level update the following calls belong to, and what the store held before it
    real_set_prime = comms.Connector._set_prime

    def _set_prime(conn, key, value):
        RT.flat += 1
        emit({'e': 'enter', 'f': RT.flat, 'x': sha(pickle.dumps(value, pickle.HIGHEST_PROTOCOL)),
              'store': snapshot_store()})
        return real_set_prime(conn, key, value)

    comms.Connector._set_prime = _set_prime
    impl.DBSerializer.open = staticmethod(lambda: None)  # purge.py calls dawgie.db.open(): no listening socket


# ------------------------------------------------------------------ executing a history on the real code
def _bot(op):
    import dawgie

    bot = dawgie.Task(op['task'], 0, op['run'], op['target'])
    real = dawgie.Task.new_values

    def new_values(value=None):
        if value:
            tick('flag', [str(value[0])])
            r = real(bot, value)
            emit({'e': 'flag', 'f': RT.flat, 'name': value[0], 'isnew': bool(value[1])})
            return r
        return real(bot, value)

    bot.new_values = new_values
    return bot


def _do(i, op):
    import warnings

    import dawgie
    import dawgie.db.shelve as impl
    import dawgie.db.shelve.model as model
    import dawgie.util

    _Val, SV, Alg = _classes()
    emit({'e': 'op', 'i': i, 'kind': op['kind']})
    k = op['kind']
    with warnings.catch_warnings():
        warnings.simplefilter('ignore')
        if k == 'update':
            svs = [SV(svn, [(vn, make_value(cid)) for vn, cid in vals]) for svn, vals in op['svs']]
            model.Interface(Alg(op['alg'], svs, op.get('ver', 0)), _bot(op), op['target'])._update()
        elif k == 'msv':
            ds = model.Interface(Alg(op['alg'], [], op.get('ver', 0)), _bot(op), op['target'])
            ds._update_msv(dawgie.util.MetricStateVector(dawgie.METRIC(*op['db']), dawgie.METRIC(*op['tk'])))
        elif k == 'remove':
            RT.flat += 1
            emit({'e': 'enter-del', 'f': RT.flat})
            try:
                impl.remove(op['run'], op['target'], op['task'], op['alg'], op['sv'], op['vn'])
            except KeyError as e:  # a name that was never catalogued (its update was abandoned): nothing to remove
                emit({'e': 'remove-unknown', 'f': RT.flat, 'msg': str(e)[:60]})
        elif k == 'purge':
            RT.flat += 1
            emit({'e': 'enter-purge', 'f': RT.flat, 'store': snapshot_store()})
            _purge()
    emit({'e': 'op-done', 'i': i})


def _purge():
    """the `__main__` block of db/tools/purge.py, unmodified, with `os` resolving to the counting proxy"""
    import logging
    import runpy

    path = os.path.join(common.REPO, 'Python', 'dawgie', 'db', 'tools', 'purge.py')
    argv, real_os, real_cfg, spath = sys.argv, sys.modules['os'], logging.basicConfig, list(sys.path)
    sys.argv = ['purge.py', '-l', 'purge.log']
    sys.modules['os'] = RT.purge_os
    logging.basicConfig = lambda **kw: None
    logging.disable(logging.CRITICAL)
    try:
        runpy.run_path(path, run_name='__main__')
    except SystemExit as e:
        emit({'e': 'purge-exit', 'code': e.code if isinstance(e.code, int) else 1})
    finally:
        sys.modules['os'] = real_os
        sys.argv = argv
        logging.basicConfig = real_cfg
        logging.disable(logging.NOTSET)
        sys.path[:] = spath


class Killed(BaseException):
    """raised by a hook to stop the execution after the last snapshot that is wanted"""


def execute(env, hist, start=0, hook=None, kill_at=0, xfs=False):
    """run hist[start:] through the real code on the directories of `env`.
    Returns (events, exception record or None)."""
    from dawgie.db.shelve.state import DBI

    install()
    if DBI().is_open:
        DBI().close()
    env.configure()
    RT.env, RT.ordinal, RT.flat, RT.events, RT.hook, RT.kill_at = env, 0, -1, [], hook, kill_at
    RT.xfs, RT.in_move = bool(xfs), None
    failure = None
    DBI().open()
    try:
        for i, op in enumerate(hist):
            if i >= start:
                _do(i, op)
    except Killed:
        pass
    except Exception as e:  # pylint: disable=broad-except
        import traceback

        failure = {'type': type(e).__name__, 'msg': str(e)[:300], 'tb': traceback.format_exc()[-1200:]}
    finally:
        RT.hook = None
        DBI().close()
    return RT.events, failure


def killed_run(env, hist, n, xfs=False):
    """cross-check of the snapshot method: a forked process really dies (os._exit) in front of call #n"""
    sys.stdout.flush()
    sys.stderr.flush()
    pid = os.fork()
    if pid == 0:
        try:
            devnull = os.open(os.devnull, os.O_WRONLY)
            os.dup2(devnull, 1)
            os.dup2(devnull, 2)
            execute(env, hist, 0, None, n, xfs)
        finally:
            os._exit(0)
    _, status = os.waitpid(pid, 0)
    return os.waitstatus_to_exitcode(status)


# ------------------------------------------------------------------ what is on disk
def copy_env(env):
    """the disk as it is right now = what survives if the process is killed right now"""
    e2 = Env.__new__(Env)
    e2.root = tempfile.mkdtemp(prefix='c07s_', dir=os.path.dirname(env.root))
    for d in ('dbs', 'stg', 'db', 'log'):
        setattr(e2, d, os.path.join(e2.root, d))
        shutil.copytree(getattr(env, d), getattr(e2, d))
    return e2


def _dissect(name):
    if ':parent___' in name:
        name = name.split(':parent___', 1)[1]
    if '___version:' in name:
        name = name.split('___version:', 1)[0]
    return name


def observe(env):
    """re-read everything from disk, as a restarted pipeline would"""
    import shelve

    store = {}
    for fn in sorted(os.listdir(env.dbs)):
        if not os.path.isfile(os.path.join(env.dbs, fn)):
            continue  # sub-directories are not stored values (purge.py skips them as well)
        with open(os.path.join(env.dbs, fn), 'rb') as f:
            store[fn] = f.read()
    incoming = {}
    inc = os.path.join(env.dbs, 'incoming')
    for root, _dirs, files in (os.walk(env.dbs) if os.path.isdir(env.dbs) else []):
        if root == env.dbs:
            continue  # sub-directories of the store hold files in transit, never stored values
        for fn in sorted(files):
            with open(os.path.join(root, fn), 'rb') as f:
                incoming[os.path.relpath(os.path.join(root, fn), env.dbs)] = f.read()
    del inc
    stage = {}
    for fn in sorted(os.listdir(env.stg)):
        p = os.path.join(env.stg, fn)
        if os.path.isfile(p):
            with open(p, 'rb') as f:
                stage[fn] = f.read()
    tabs = {}
    for t in ('alg', 'prime', 'state', 'target', 'task', 'value'):
        p = os.path.join(env.db, 'c07.' + t)
        try:
            sh = shelve.open(p, 'r')
        except Exception:  # pylint: disable=broad-except  (no dbm file yet)
            tabs[t] = {}
            continue
        try:
            tabs[t] = dict(sh)
        finally:
            sh.close()
    inv = {t: {i: _dissect(n) for n, i in tabs[t].items()} for t in ('alg', 'state', 'target', 'task', 'value')}
    for n, i in tabs['alg'].items():  # entries of one run under different algorithm versions are different keys
        ver = n.split('___version:', 1)[1] if '___version:' in n else '1.0.0'
        if ver != '1.0.0':
            inv['alg'][i] = inv['alg'][i] + '@' + ver
    prime = {}
    for k, v in tabs['prime'].items():
        try:
            run, tn, tk, al, sv, vn = eval(k)  # pylint: disable=eval-used  (tuple of ints, as util.prime_keys does)
            label = '.'.join([str(run), inv['target'][tn], inv['task'][tk], inv['alg'][al],
                              inv['state'][sv], inv['value'][vn]])
        except Exception:  # pylint: disable=broad-except
            label = 'raw:' + k.replace(' ', '')
        prime[label] = v
    return {'store': store, 'stage': stage, 'incoming': incoming, 'prime': prime}


def digest_name(content):
    """the name the store gives to `content`: <md5>_<sha1> of the WHOLE file, recomputed here with hashlib,
    independently of whatever the code under test used to compute it"""
    return hashlib.md5(content).hexdigest() + '_' + hashlib.sha1(content).hexdigest()


def is_digest_name(name, content):
    return str(name) == digest_name(content)


# ------------------------------------------------------------------ analysis of one executed segment
def done_steps(ticks, xfs):
    """executed intercepted calls of ONE update -> the micro-steps of the model they complete, in order
    (the vocabulary of `(blob program <xfs>)`)"""
    seq, dst = [], 'incoming'

    def add(x):
        if x not in seq:
            seq.append(x)

    for t in ticks:
        l, d = t['l'], t.get('d') or []
        if l in ('mkstemp', 'dump', 'digest', 'probe', 'unlink', 'mkdirs', 'replace', 'flag'):
            add(l)
        elif l.startswith('move:'):
            dst = l[5:]
            if not xfs:
                add('rename:' + dst)
        elif l.startswith('copy:') or l in ('copy', 'link'):
            add('copy')
        elif l == 'xcopy:create':
            add('create:' + dst)
        elif l == 'xcopy:write':
            if d and d[0].startswith('@'):
                o, size = (int(x) for x in d[0][1:].split('/'))
                nxt = [c for c in sorted({1, size // 2, size - 1}) if o < c < size]
                if o >= size:
                    continue
                add('torn:' + dst)
                if not nxt:
                    add('fill:' + dst)
            else:
                add('torn:' + dst)
                add('fill:' + dst)
        elif l == 'xcopy:unlink':
            add('dropSrc')
        elif l == 'set:prime':
            add('record')
        elif l == 'send' and d and d[0] in ('True', 'False'):
            add('reply')
    return seq


def budgets(flat, events, rc, xfs=False):
    """per model-level operation: how many micro-steps of the model's update program the real code
    completed before the process ended (None: the operation was never started; DONE: it ran to its end)."""
    crashed = rc == CRASH_RC
    ticks = [e for e in events if e['e'] == 'tick']
    if crashed and ticks:
        ticks = ticks[:-1]  # the last logged call was not executed
    entered = set()
    for e in events:
        if e['e'] in ('enter', 'enter-del', 'enter-purge'):
            entered.add(e['f'])
    flagged = {e['f'] for e in events if e['e'] == 'flag'}
    start = {e['f']: i for i, e in enumerate(events) if e['e'] == 'enter'}
    executed = {id(t) for t in ticks}
    out = []
    for f, op in enumerate(flat):
        if f not in entered:
            out.append(None)
        elif op[0] == 'upd':
            if f in flagged:
                out.append(DONE)
            else:
                mine = [t for t in events[start[f]:] if t['e'] == 'tick' and t['f'] == f and id(t) in executed]
                out.append(len(done_steps(mine, xfs)))
        else:
            out.append(0)
    return out


def model_line(flat, events, rc, carried, xfs=False):
    """the s-expression line for the Lean model: operations of earlier segments (`carried`) plus this
    segment's operations with the crash budget the real process reached"""
    bs = budgets(flat, events, rc, xfs)
    ops = list(carried)
    crashed = rc == CRASH_RC
    ticks = [e for e in events if e['e'] == 'tick']
    executed = ticks[:-1] if crashed and ticks else ticks
    listing = {}
    cur = None
    for e in events:
        if e['e'] == 'enter-purge':
            cur = e['f']
        elif e['e'] == 'listdir' and cur is not None and e['d'] == 'dbs':
            listing[cur] = e['ls']
    for f, (op, b) in enumerate(zip(flat, bs)):
        if b is None:
            continue
        if op[0] == 'upd':
            ops.append(['upd', op[1], op[2], b])
        elif op[0] == 'del':
            if any(t['f'] == f and t['l'] == 'del:prime' for t in executed):
                ops.append(['del', op[1]])
        elif op[0] == 'purge':
            ls = listing.get(f)
            if ls is None:
                continue
            mine = [t for t in ticks if t['f'] == f and t['l'] == 'unlink']
            if crashed and mine and mine[-1] is ticks[-1]:
                victim = (mine[-1]['d'] or [''])[0]
                ls = ls[: ls.index(victim)] if victim in ls else ls
            ops.append(['purge', ['name:' + n for n in ls]])
    return ops, bs


def canon_impl(obs, cids):
    """canonical observation of the disk: contents as content ids (x<sha> when unknown)"""
    def cid(b):
        return cids.get(sha(b), 'x' + sha(b)[:6])

    store = sorted(str(cid(b)) for b in obs['store'].values())
    prime = {}
    for k, v in obs['prime'].items():
        prime[k] = str(cid(obs['store'][v])) if v in obs['store'] else 'DANGLING'
    return {'store': store, 'prime': dict(sorted(prime.items())), 'stage': len(obs['stage']),
            'incoming': len(obs['incoming'])}


def canon_model(reply):
    r = common.parse_sx(reply)
    if r and r[0] == 'bad-op':
        return {'error': r}
    d = {x[0]: x[1:] for x in r}
    return {'store': sorted(c for _n, c in d['store']),
            'prime': dict(sorted((k, n) for k, n in d['prime'])),
            'stage': len(d['stage']),
            'incoming': len(d['incoming']),
            'flags': list(d['flags'])}


def sx_ops(ops, xfs=False):
    """model operations -> s-expression (purge lists already hold content ids: the model's digest is the
    identity on content ids; unknown files got ids nobody else uses)"""
    out = ['blob', 'run', bool(xfs)]
    for o in ops:
        if o[0] == 'upd':
            out.append(['upd', o[1], o[2], o[3]])
        elif o[0] == 'del':
            out.append(['del', o[1]])
        else:
            out.append(['purge', list(o[1])])
    return common.sx(out)


# ------------------------------------------------------------------ the property on the real code
def monitor(res, events, rc, obs, crashes_so_far, replay, sigp='C07:'):
    """C07 stated over what the real code left on disk and reported.  `crashes_so_far` = number of
    updates cut short by a crash in this store's life (bounds the staged leftovers)."""
    store, prime, stage = obs['store'], obs['prime'], obs['stage']
    where = replay.get('crash')
    at = f' (process killed in front of call #{where[0]} [{where[2]}])' if where else ''
    if replay.get('then'):
        at += f", then restarted and the interrupted operation {'retried' if replay['then'] == 'retry' else 'skipped'}"
    cfg = '[staging area on another file system] ' if replay.get('xfs') else ''
    # every stored file hashes to its own name
    for fn, b in store.items():
        if not is_digest_name(fn, b):
            res.hit(sigp + 'name-not-digest', cfg +
                    f'stored file {fn[:20]}..{fn[-12:]} ({len(b)} bytes) does not hash to its own name: md5_sha1 of '
                    f'the whole file is {digest_name(b)[:20]}..{digest_name(b)[-12:]}{at}', replay)
    # identical content is kept once
    seen = {}
    for fn, b in store.items():
        if sha(b) in seen:
            res.hit(sigp + 'duplicate-content', cfg + f'identical content stored twice: {seen[sha(b)][:16]}.. and {fn[:16]}..{at}',
                    replay)
        seen[sha(b)] = fn
    # no dangling reference
    for k, v in prime.items():
        if v not in store:
            res.hit(sigp + 'dangling', cfg + f'catalogue entry {k} names {str(v)[:24]}.. which is not in the store{at}', replay)
    # novelty flag <=> content was not in the store before this update
    enters = {e['f']: e for e in events if e['e'] == 'enter'}
    for e in events:
        if e['e'] != 'flag' or e['f'] not in enters:
            continue
        before = {s for _n, s in enters[e['f']]['store']}
        want = enters[e['f']]['x'] not in before
        if e['isnew'] != want:
            res.hit(sigp + 'isnew-wrong', cfg +
                    f"update #{e['f']} ({e['name']}) reported isnew={e['isnew']} but identical content was "
                    f"{'not ' if want else ''}in the store before{at}", replay)
    # identical content is kept once: the staged copy is moved or discarded; an interrupted update may leave one
    # file in the staging directory and one in a sub-directory of the store (incoming), nothing else
    incoming = obs.get('incoming', {})
    if len(stage) > crashes_so_far or len(incoming) > crashes_so_far:
        res.hit(sigp + 'staged-copy-kept', cfg +
                f'{len(stage)} staged file(s) and {len(incoming)} file(s) in transit inside the store left behind '
                f'by {crashes_so_far} interrupted update(s): the staged copy of a value is neither moved into the '
                f'store nor discarded{at}', replay)

# ------------------------------------------------------------------ one history, all crash points
def crash_points(events):
    """(ordinal, mode, label) for every intercepted call of the crash-free run, plus a torn write per dump"""
    pts = []
    for e in events:
        if e['e'] == 'tick':
            pts.append((e['n'], 'before', e['l']))
            if e['l'] == 'dump':
                pts.append((e['n'], 'partial', e['l']))
    return pts


def observed_program(events, f, xfs):
    """(exists?, micro-steps) of the completed update #f as the real code performed them, in the model's
    vocabulary: compared with the regenerated program expanded for the configuration"""
    mine, ex = [], None
    started = False
    for e in events:
        if e['e'] == 'enter' and e['f'] == f:
            started = True
        elif started and e['e'] == 'tick' and e['f'] == f:
            mine.append(e)
            if e['l'] == 'send' and e.get('d') and e['d'][0] in ('True', 'False'):
                ex = e['d'][0] == 'True'
            if e['l'] == 'flag':
                break
    return [ex, done_steps(mine, xfs)]


class Case:
    """one history: ONE crash-free execution during which the disk is copied in front of every intercepted
    call (= what a process killed there leaves behind; each pickle.dump additionally torn), every copy is
    re-read, judged and compared with the model; then the remainder of the history is executed on every
    copy (restart after the crash: the interrupted operation retried or abandoned)."""

    def __init__(self, hist, cont='all', kills=0, seed=0, xfs=False):
        self.xfs = bool(xfs)  # configuration "staging area on another file system": own signatures C07:xfs:*
        self.sigp = 'C07:xfs:' if xfs else 'C07:'
        self.hist = hist
        self.flat = flatten(hist)
        self.cont = cont
        self.kills = kills
        self.seed = seed
        self.cids = {}
        for op in self.flat:
            if op[0] == 'upd':
                self.cids[sha(expected_bytes(op[2]))] = op[2]
        self.lines = []      # (sx line, impl canonical, offset of this segment's ops, replay, crashed)
        self.stats = {}
        self.program = []
        self.failure = None
        self.kill_diffs = []

    def count(self, k, n=1):
        self.stats[k] = self.stats.get(k, 0) + n

    def judge(self, res, start, events, crashed, obs, carried, crashes_before, replay):
        """property + queue the model comparison for one observed disk state"""
        flat = [o for o in self.flat if o[3] >= start]  # operations are numbered from the segment's start
        rc = CRASH_RC if crashed else 0
        ops, bs = model_line(flat, events, rc, carried, self.xfs)
        cut = crashed and any(b is not None and 0 < b < DONE and flat[f][0] == 'upd' for f, b in enumerate(bs))
        ncr = crashes_before + (1 if cut else 0)
        monitor(res, events, rc, obs, ncr, replay, self.sigp)
        flags = {e['f']: e['isnew'] for e in events if e['e'] == 'flag'}
        names = {}
        for i, (fn, b) in enumerate(sorted(obs['store'].items())):
            names[fn] = self.cids.get(sha(b), 800000 + i)
        for e in events:  # files that a purge removed are gone from the listing: take them from the snapshots
            for fn, x in e.get('store', []):
                names.setdefault(fn, self.cids.get(x, 700000))
        # purge lists: file names -> content ids now, while this segment still knows the files it removed
        ops = [o if o[0] != 'purge' else
               ['purge', [n if isinstance(n, int) else names.get(n[5:], 900000 + i) for i, n in enumerate(o[1])]]
               for o in ops]
        impl = canon_impl(obs, self.cids)
        impl['flags'] = ['T' if v else 'F' for _f, v in sorted(flags.items())]
        self.lines.append((sx_ops(ops, self.xfs), impl, len(carried), replay, crashed))
        return ops, ncr

    def fail(self, failure, replay):
        self.count('real-code-exception')
        if self.failure is None and failure is not None:
            self.failure = dict(failure, replay=replay)

    def choose(self, points):
        """crash points after which the history is continued: all of them (`cont` = 'all') or `cont` of them,
        preferring the window between placing the file and reporting the flag"""
        if self.cont == 'all':
            return {(rec['n'], mode): (True, False) for rec, _ev, _snap, mode in points}
        if self.cont == 'xfs':  # every crash point inside shutil.move's copy path and up to the flag
            return {(rec['n'], mode): (True, False) for rec, _ev, _snap, mode in points
                    if rec['l'].startswith(('xcopy:', 'move:', 'copy')) or rec['l'] in ('mkdirs', 'replace', 'unlink', 'set:prime', 'flag')
                    or (rec['l'] == 'send' and rec['d'] and rec['d'][0] in ('True', 'False'))}
        if not self.cont:
            return {}
        r = common.rng(self.seed, 'C07-cont')
        hot = [(rec['n'], mode) for rec, _ev, _snap, mode in points
               if mode == 'partial' or rec['l'].startswith(('move:', 'xcopy:'))
               or rec['l'] in ('mkdirs', 'replace', 'unlink', 'set:prime', 'flag', 'probe', 'del:prime')
               or (rec['l'] == 'send' and rec['d'] and rec['d'][0] in ('True', 'False'))]
        cold = [(rec['n'], mode) for rec, _ev, _snap, mode in points if (rec['n'], mode) not in set(hot)]
        k = int(self.cont)
        pick = r.sample(hot, min(len(hot), k)) + r.sample(cold, min(len(cold), max(1, k // 3)))
        return {p: ((True,) if r.random() < 0.7 else (False,)) for p in pick}

    def run(self, res):
        hist, flat = self.hist, self.flat
        env = Env()
        points = []

        def hook(rec):
            ev = list(RT.events)
            points.append((rec, ev, copy_env(env), 'before'))
            if rec['l'] == 'dump' and 0 <= rec['f'] < len(flat) and flat[rec['f']][0] == 'upd':
                torn = copy_env(env)
                data = expected_bytes(flat[rec['f']][2])
                target = os.path.join(torn.stg, (rec['d'] or ['?'])[0])
                if os.path.isfile(target):
                    with open(target, 'wb') as f:
                        f.write(data[: max(1, len(data) // 2)])
                    points.append((rec, ev, torn, 'partial'))
                else:
                    torn.close()

        try:
            base = {'hist': hist, 'xfs': True} if self.xfs else {'hist': hist}
            events, failure = execute(env, hist, 0, hook, 0, self.xfs)
            if failure:
                self.fail(failure, dict(base))
            self.judge(res, 0, events, False, observe(env), [], 0, dict(base))
            self.count('updates', sum(1 for o in flat if o[0] == 'upd'))
            self.program = [observed_program(events, f, self.xfs) for f, o in enumerate(flat) if o[0] == 'upd']
            before = {}
            chosen = self.choose(points)
            for rec, ev, snap, mode in points:
                n, label = rec['n'], rec['l']
                replay = dict(base, crash=[n, mode, label])
                obs = observe(snap)
                ops, ncr = self.judge(res, 0, ev, True, obs, [], 0, replay)
                if mode == 'before' and (not self.xfs or label.startswith('xcopy:')):
                    before[n] = canon_impl(obs, self.cids)
                self.count('crash:' + label + (':torn' if mode == 'partial' else ''))
                if (n, mode) not in chosen:
                    continue
                # restart: the interrupted high-level operation is retried or abandoned, the rest follows
                opi = max([e['i'] for e in ev if e['e'] == 'op'], default=0)
                for retry in chosen[(n, mode)]:
                    start = opi if retry else opi + 1
                    if start >= len(hist):
                        continue
                    env2 = copy_env(snap)
                    try:
                        replay2 = dict(replay, then='retry' if retry else 'skip')
                        ev2, failure = execute(env2, hist, start, None, 0, self.xfs)
                        if failure:
                            self.fail(failure, replay2)
                        self.judge(res, start, ev2, False, observe(env2), ops, ncr, replay2)
                        self.count('continued:' + ('retry' if retry else 'skip'))
                    finally:
                        env2.close()
            # cross-check of the snapshot method against processes that really die
            ticks = sorted(before)
            r = common.rng(self.seed, 'C07-kill')
            for n in (r.sample(ticks, min(self.kills, len(ticks))) if ticks else []):
                envk = Env()
                try:
                    rc = killed_run(envk, hist, n, self.xfs)
                    got = canon_impl(observe(envk), self.cids)
                    want = before[n]
                    self.count('killed-process-cross-check')
                    if rc != CRASH_RC or got != want:
                        self.kill_diffs.append((dict(base, crash=[n, 'before', '?'], rc=rc), want, got))
                finally:
                    envk.close()
        finally:
            for _rec, _ev, snap, _mode in points:
                snap.close()
            env.close()


def compare(res, line, reply):
    _sx, impl, off, replay, _crashed = line
    model = canon_model(reply)
    if 'error' in model:
        res.diff('Blob.run rejected the operation list', replay, model, impl)
        return
    want = {'store': model['store'], 'prime': model['prime'], 'stage': model['stage'], 'incoming': model['incoming'],
            'flags': [f for f in model['flags'][off:] if f != 'N']}  # this segment's reports, in order
    if want != impl:
        res.diff('Blob.run vs encode/move/Worker.do/_update/remove/purge on disk', replay, want, impl)


# ------------------------------------------------------------------ generators
def gen_history(r, size):
    """updates with contents from a small pool across runs/targets/algorithms; occasional msv, remove, purge"""
    hist = []
    written = []
    targets, tasks, algs = ['T1', 'T2'], ['tk1', 'tk2'], ['A1', 'B2']
    n = r.choice(size)
    for _ in range(n):
        x = r.random()
        if x < 0.1:
            # the same run id executed again under a bumped algorithm version: same names, another catalogue entry
            # (never the object of a `remove`: dawgie.db.remove addresses all versions of a name at once)
            hist.append(upd(5, 'T1', 'tk1', 'V3', [['S1', [['v1', r.choice([2, 3, 4])], ['w2', r.choice([3, 6])]]]],
                            r.choice([1, 2])))
        elif x < 0.62 or not written:
            op = {'kind': 'update', 'run': r.choice([1, 1, 2, 3]), 'target': r.choice(targets),
                  'task': r.choice(tasks), 'alg': r.choice(algs), 'svs': []}
            pool = r.choice([[1, 2], [2, 3, 4], [5, 5, 6], [1, 7], [2, 8, 8, 3]] * 4 + [[2, 12], [10, 3, 3]])
            for svn in r.sample(['S1', 'Q2'], r.choice([1, 1, 2])):
                vals = [[vn, r.choice(pool)] for vn in r.sample(['v1', 'w2', 'u3'], r.choice([1, 2, 2, 3]))]
                op['svs'].append([svn, vals])
                for vn, _c in vals:
                    written.append((op, svn, vn))
            hist.append(op)
        elif x < 0.72:
            hist.append({'kind': 'msv', 'run': r.choice([1, 2]), 'target': r.choice(targets),
                         'task': r.choice(tasks), 'alg': r.choice(algs),
                         'db': [r.choice([0, 0, 1]) for _ in METRIC_KEYS],
                         'tk': [r.choice([0, 1, 2]) for _ in METRIC_KEYS]})
        elif x < 0.86:
            op, svn, vn = r.choice(written)
            hist.append({'kind': 'remove', 'run': op['run'], 'target': op['target'], 'task': op['task'],
                         'alg': op['alg'], 'sv': svn, 'vn': vn})
        else:
            hist.append({'kind': 'purge'})
    return hist


def upd(run, target, task, alg, svs, ver=0):
    op = {'kind': 'update', 'run': run, 'target': target, 'task': task, 'alg': alg, 'svs': svs}
    if ver:
        op['ver'] = ver
    return op


CORPUS = [
    # one run id executed twice, under algorithm versions 1.0.1 and 1.0.2: same names, two catalogue entries with
    # different content (v1) and shared content (w2); an orphan made by remove; then the purge tool
    [upd(5, 'T1', 'tk1', 'V3', [['S1', [['v1', 2], ['w2', 3]]]], 1),
     upd(5, 'T1', 'tk1', 'V3', [['S1', [['v1', 4], ['w2', 3]]]], 2),
     upd(6, 'T2', 'tk1', 'A1', [['S1', [['v1', 5]]]]),
     {'kind': 'remove', 'run': 6, 'target': 'T2', 'task': 'tk1', 'alg': 'A1', 'sv': 'S1', 'vn': 'v1'},
     {'kind': 'purge'}],
    # serialisations of 1 MiB + 1 and 2 MiB + 3 bytes under two keys, the first again in a later run (not new),
    # next to 1 MiB - 1: block-wise digests, copies and torn writes see more than one block
    [upd(1, 'T1', 'tk1', 'A1', [['S1', [['v1', 10], ['w2', 11]]]]),
     upd(2, 'T1', 'tk1', 'A1', [['S1', [['v1', 10], ['u3', 9]]]])],
    # same content under two keys of one update, then again in another run
    [upd(1, 'T1', 'tk1', 'A1', [['S1', [['v1', 2], ['w2', 2]]]]), upd(2, 'T1', 'tk1', 'A1', [['S1', [['v1', 2]]]])],
    # overwrite one key with new content, then with the old content again
    [upd(1, 'T1', 'tk1', 'A1', [['S1', [['v1', 3]]]]), upd(1, 'T1', 'tk1', 'A1', [['S1', [['v1', 4]]]]),
     upd(1, 'T1', 'tk1', 'A1', [['S1', [['v1', 3]]]])],
    # remove the only reference, purge, write the same content again (new again)
    [upd(1, 'T1', 'tk1', 'A1', [['S1', [['v1', 5]]]]), upd(1, 'T2', 'tk1', 'A1', [['S1', [['v1', 6]]]]),
     {'kind': 'remove', 'run': 1, 'target': 'T1', 'task': 'tk1', 'alg': 'A1', 'sv': 'S1', 'vn': 'v1'},
     {'kind': 'purge'}, upd(2, 'T1', 'tk1', 'A1', [['S1', [['v1', 5]]]])],
    # the catalogue becomes empty while the store is not: purge.py refuses to run, the content stays (not new)
    [upd(1, 'T1', 'tk1', 'A1', [['S1', [['v1', 4]]]]),
     {'kind': 'remove', 'run': 1, 'target': 'T1', 'task': 'tk1', 'alg': 'A1', 'sv': 'S1', 'vn': 'v1'},
     {'kind': 'purge'}, upd(2, 'T2', 'tk1', 'A1', [['S1', [['v1', 4]]]])],
    # purge on an empty catalogue must not delete anything
    [{'kind': 'purge'}, upd(1, 'T1', 'tk1', 'A1', [['S1', [['v1', 1]]]]), {'kind': 'purge'}],
]


# histories of the part "staging area on another file system"
XFS_CORPUS = [
    # one value; after the crash the same update is retried (same content stored again)
    [upd(1, 'T1', 'tk1', 'A1', [['S1', [['v1', 2]]]])],
    # the same content again under another run, then another content under another target
    [upd(1, 'T1', 'tk1', 'A1', [['S1', [['v1', 5]]]]), upd(2, 'T1', 'tk1', 'A1', [['S1', [['v1', 5]]]]),
     upd(1, 'T2', 'tk1', 'A1', [['S1', [['v1', 2]]]])],
    # a serialisation of 1 MiB + 1 bytes and a small one in one update, the large one again later
    [upd(1, 'T1', 'tk1', 'A1', [['S1', [['v1', 10], ['w2', 2]]]]), upd(2, 'T1', 'tk1', 'A1', [['S1', [['v1', 10]]]])],
]


# ------------------------------------------------------------------ entry points
def _prepare():
    common.use_repo()
    _classes()
    import dawgie.db.shelve  # noqa: F401
    import dawgie.db.shelve.comms  # noqa: F401
    import dawgie.db.shelve.model  # noqa: F401
    import dawgie.db.util  # noqa: F401
    import dawgie.util  # noqa: F401


def _run_case(args):
    hist, cont, kills, seed = args[:4]
    xfs = len(args) > 4 and args[4]
    res = common.Result()
    case = Case(hist, cont, kills, seed, xfs)
    case.run(res)
    return {'hits': res.hits, 'lines': case.lines, 'stats': case.stats, 'program': case.program,
            'failure': case.failure, 'kill_diffs': case.kill_diffs, 'xfs': xfs}


def run(ctx, res):
    _prepare()
    r = common.rng(ctx['seed'], 'C07')
    thorough = ctx['tier'] == 'thorough' or ctx['escalate']
    res.rule = ('histories of Interface._update/_update_msv, remove and purge.py with contents from a pool of 12 '
                '(four of them serialise to 1 MiB-1, 1 MiB, 1 MiB+1, 2 MiB+3 bytes) + metric values across '
                'runs/targets/tasks/algorithms, in two configurations: staging directory on the store\'s file system, '
                'and on another one (statistics xfs:*, signatures C07:xfs:*; every rename from the staging directory '
                'into the store directory tree answers EXDEV as a second file system does, so that the real '
                'shutil.move copies and unlinks).  Per history one execution on real dbm files and directories during '
                'which the disk is copied in front of EVERY intercepted file-system/table/wire call (what a process '
                'killed there leaves; each pickle.dump also torn; inside the cross-file-system copy: in front of the '
                'creation of the destination, of each of four partial writes, of copystat and of the unlink of the '
                'staged file), then restart with retry / skip of the interrupted operation and the remainder; every '
                'disk state is re-read, judged by the property and compared with Blob.run of the same configuration '
                'on the same micro-step budgets; the observed order of calls of every update is compared with the '
                'regenerated program expanded for the configuration; a sample of crash points is repeated with a '
                'forked process that really dies (os._exit); non-trivial = a crash point or a non-empty store; '
                'distinct by configuration + history + crash point + restart mode')
    res.assumptions = list(TRUSTED)
    cases = [(h, 'all' if thorough else 4, 1, ctx['seed'], False) for h in CORPUS]
    n = 20 if thorough else 5
    sizes = [2, 3, 3, 4, 5, 6] if thorough else [2, 3, 3, 4]
    for i in range(n):
        h = gen_history(r, sizes)
        cases.append((h, ('all' if len(h) <= 2 else 10) if thorough else 3, 1 if thorough else i % 2,
                      ctx['seed'] + i, False))
    # the same on "another file system": every crash point inside the copy is continued
    for h in XFS_CORPUS:
        cases.append((h, 'xfs', 2, ctx['seed'], True))
    for i in range(8 if thorough else 2):
        cases.append((gen_history(r, [2, 3] if thorough else [2]), 'xfs', 1, ctx['seed'] + i, True))
    if thorough:
        cases.append((gen_history(r, [9]), 8, 1, ctx['seed'], False))
        import multiprocessing

        with multiprocessing.get_context('fork').Pool(min(16, os.cpu_count() or 2)) as pool:
            outs = pool.map(_run_case, cases, chunksize=1)
    else:
        outs = [_run_case(c) for c in cases]
    lines, owners = [], []
    for case_args, out in zip(cases, outs):
        hist = case_args[0]
        pre = 'xfs:' if out['xfs'] else ''
        for h in out['hits']:
            res.hit(h['sig'], h['what'], h['replay'])
        for k, v in out['stats'].items():
            res.count(pre + k, v)
        res.count(pre + 'histories')
        res.count(pre + 'ops/history:%d' % len(hist))
        if out['failure']:
            res.diff('the real code raised while a history was executed', out['failure'].get('replay'),
                     'completes', {k: v for k, v in out['failure'].items() if k != 'replay'})
        for (case, want, got) in out['kill_diffs']:
            res.diff('harness self-check: copied disk state vs process really killed at the same call', case, want, got)
        for ln in out['lines']:
            lines.append(ln[0])
            owners.append(ln)
            crash = ln[3].get('crash')
            res.case((json.dumps(ln[3], sort_keys=True),), nontrivial=bool(crash) or bool(ln[1]['store']),
                     sample={'model_ops': ln[0][:400], 'crash': crash, 'then': ln[3].get('then'), 'disk': ln[1]}
                     if crash and crash[2] in ('replace', 'set:prime', 'xcopy:write') and ln[3].get('then') else None)
    res.traces = len(lines)
    if ctx['lean']:
        replies = common.driver(lines + [common.sx(['blob', 'program', False]), common.sx(['blob', 'program', True])],
                                'C07')
        for ln, rep in zip(owners, replies):
            compare(res, ln, rep)
        # translator validation, both configurations: the regenerated program, expanded for the configuration and
        # restricted to the branch taken, lists the micro-steps in the order the real code made them
        progs = {}
        for xfs, rep in ((False, replies[-2]), (True, replies[-1])):
            prog = common.parse_sx(rep)
            for ex in (True, False):
                progs[(xfs, ex)] = [p[1] for p in prog if p[0] == 'N' or p[0] == ('T' if ex else 'F')]
        for out in outs:
            bad = [(ex, seq) for ex, seq in out['program'] if ex is not None and seq != progs[(bool(out['xfs']), ex)]]
            if bad:
                ex, seq = bad[0]
                res.diff('Generated.Blob.program (expanded) vs the observed order of calls of one update',
                         {'xfs': bool(out['xfs']), 'exists': ex}, progs[(bool(out['xfs']), ex)], seq)
                break


def replay(rep, res):
    _prepare()
    inp = rep['input']
    hist = inp['hist']
    xfs = bool(inp.get('xfs'))
    case = Case(hist, None, 0, 0, xfs)
    crash = inp.get('crash')
    env = Env()
    snaps = []
    try:
        if not crash:
            events, _failure = execute(env, hist, 0, None, 0, xfs)
            case.judge(res, 0, events, False, observe(env), [], 0, dict({'hist': hist}, **({'xfs': True} if xfs else {})))
            return
        flat = case.flat

        def hook(rec):
            if rec['n'] != crash[0]:
                return
            snap = copy_env(env)
            snaps.append((snap, list(RT.events)))
            if crash[1] == 'partial' and 0 <= rec['f'] < len(flat) and flat[rec['f']][0] == 'upd':
                data = expected_bytes(flat[rec['f']][2])
                with open(os.path.join(snap.stg, (rec['d'] or ['?'])[0]), 'wb') as f:
                    f.write(data[: max(1, len(data) // 2)])
            raise Killed()

        execute(env, hist, 0, hook, 0, xfs)
        if not snaps:
            return
        snap, ev = snaps[0]
        base = {'hist': hist, 'crash': crash}
        if xfs:
            base['xfs'] = True
        ops, ncr = case.judge(res, 0, ev, True, observe(snap), [], 0, base)
        if inp.get('then'):
            opi = max([e['i'] for e in ev if e['e'] == 'op'], default=0)
            start = opi if inp['then'] == 'retry' else opi + 1
            if start < len(hist):
                env2 = copy_env(snap)
                snaps.append((env2, None))
                ev2, _failure = execute(env2, hist, start, None, 0, xfs)
                case.judge(res, start, ev2, False, observe(env2), ops, ncr, dict(base, then=inp['then']))
    finally:
        for snap, _ in snaps:
            snap.close()
        env.close()
