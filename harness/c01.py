"""C01 — see harness/sched_run.py (shared scheduler histories, monitors and correspondence)."""
from . import sched_run

LEAN_TARGETS = ['DawgieVerif.Model.SchedIO']
TRUSTED = sched_run.TRUSTED
MANIFEST = dict(
    text='Lean theorem release_safe over Model/Sched.lean (a line-by-line model of schedule.organize/next_job_batch/complete/purge/update/defer and the per-job part of farm.dispatch): after EVERY history of requests, dispatches, replies of any outcome, timer events, pauses (induction over the op list, no protocol assumption), every unit the next dispatch releases has all ancestors idle for its target and for the all-targets marker, and an all-targets unit is released only when its ancestors have nothing pending or executing. Supporting theorems: release_safe_within_batch, busy_nodes_are_queued (the invariant the release filter relies on), paused_releases_nothing. The model is tied to the real schedule.py/farm.py/dag.py by an op-by-op correspondence on synthetic engines loaded through the real scanner, and an independent monitor recomputes upstream closures from the declared references.',
    note="Trusted: Lean kernel, axioms propext/Classical.choice/Quot.sound; harness/sched_env.py fakes (db.targets/next, context.fsm, chronicle.append). The theorem speaks about node.get('ancestry') as supplied by the real graph; that this is the transitive closure of declared inputs is C09. 'Executing' = the doing set, which equals the units in flight (C03 executing_iff_inflight). Promotion is off (default).",
    technique='Lean 4 proof: invariant by induction over operation histories + differential correspondence',
    design='7/C01',
)
WANT = {'C01'}


def run(ctx, res):
    sched_run.run_all(ctx, res, WANT, 'C01')
    # the same clauses on the end-to-end path: real farm messages, the real worker (pl.worker.cluster.execute),
    # the real store and run ids from the real db.next(); REAL overlaps of executions
    from . import c02_e2e
    c02_e2e.run_monitors(ctx, res, WANT)


def replay(rep, res):
    if ':e2e-' in str(rep.get('sig', '')):
        from . import c02_e2e
        c02_e2e.replay_monitors(rep, res, WANT)
    else:
        sched_run.replay_case(rep, res, WANT)
