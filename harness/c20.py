"""C20 — correspondence + monitor for timer events.

Real code driven in-process: pl.schedule._delay under an injected clock (the module attribute
`dawgie.pl.schedule.datetime` is replaced by a namespace with a fake `datetime` class; the real
datetime module is never touched), pl.schedule.defer with the reactor's callLater recorded and
`dawgie.db.targets` faked, pl.schedule.complete for the up-time simulation, dawgie.schedule and
tools.compliant.rule_10 for the accepted shape.  The monitor is a brute-force `datetime` oracle;
the correspondence sends the same inputs to lean/Driver/C20.lean (Model/Delay.lean)."""
import datetime as _dt
import multiprocessing
import signal
import sys
import types
from concurrent.futures import ThreadPoolExecutor

from . import c18_cal, common
from .c18_cal import from_us, us

LEAN_TARGETS = ['DawgieVerif.Model.DelayIO', 'DawgieVerif.Model.CalIO']

MANIFEST = dict(
    text='Lean theorems over an executable model of schedule._delay / defer / complete / _prune on a proved '
         'proleptic Gregorian calendar (Model/Cal: conversions inverse and monotone for all integers): '
         'delay_total (every specification accepted by rule_10 and dawgie.schedule with dom 1..31, dow 0..6, at '
         'every instant: no error except the documented NotKnowable of a boot event that fired), delay_matches '
         '(now+delay has the wanted weekday / day of month / date at the wanted time of day), delay_within (dow: '
         'today or the next six days, at most 7 d; dom: the first day with that number from today on), due_queues '
         '(a due event of a node that is neither running nor waiting leaves it waiting, with every known target or '
         'the all-targets marker in todo, and queued unless there is nothing to run it on — proved through the real '
         'loops over per and period, including duplicates in per and the threading of booted), boot_fires_once, '
         'booted_grows, paused_retries, accepted_shape; the month loop of the dom branch has a termination proof. '
         'Recurrence: the full-strength clause Delay.Recurs is kept and its NEGATION is proved (recurs_fails, '
         'concrete witness, known finding C20:no-recurrence); proved instead: recurs_first_firing_partial (first '
         'firing through the timer the code arms, within 0.5 s of the designated moment). The firing window test, '
         'the paused retry, the statuses defer skips/sets, the all-targets marker and the accepted shape are '
         'regenerated from the source on every run; the model is tied to the real _delay at every 7 h 13 min '
         '(quick) / every hour (thorough) of 2023-2029 for every dow, every dom 1..31, dates and boot, to the real '
         'defer with a recorded reactor, and to an up-time simulation of the real defer/complete.',
    note='KNOWN FINDING C20:no-recurrence (reported, not failing the check): after a weekly/monthly event fired, '
         'schedule.complete leaves the node waiting, defer skips waiting nodes and arms no timer when every event '
         'was due, so there is no second firing; the last clause of the property is therefore proved only as '
         'recurs_first_firing_partial and its full statement is refuted on the model (recurs_fails) and observed on '
         'the real code by the up-time monitor. Trusted: Lean kernel; axioms propext/Classical.choice/Quot.sound '
         'only; tools/gen_c20.py; the harness (injected clock, recorded callLater, faked dawgie.db.targets, real '
         'dag.Node objects, farm emulated as todo->doing + schedule.complete). Assumed: UTC clock; datetime/calendar '
         'as the civil calendar (Model/Cal compared on every day 1970-2100 in thorough); the clock is not in the last '
         'two years of datetime range (NowOK); timers fire at the requested time (the reactor is not modelled: late '
         'timers, and defer raising inside DeferWithLogOnError, are outside); an event belongs to one node (Owned). '
         'No lower bound on the delay is demanded (a moment earlier today counts as due all day). Late wake-ups '
         '(1 s ... minutes, paused pipeline) are exercised on the real code only as long as they fall on the day of '
         'the moment: a wake-up served after that midnight loses the occurrence on the code as it is (observed: time '
         'of day 23:59:59 with a timer 1 s late), which is outside what is demanded here. Whole engines are loaded '
         'through scan.for_factories / schedule.build / schedule.periodics with scan.REGISTRY emptied per engine '
         '(one engine = one process). The due window of '
         'the monitor is the documented 300 s. Duplicate queue entries when two events of one node are due together '
         'are not part of this property.',
    technique='Lean 4 proof (case analysis over the accepted shape, arithmetic over a proved calendar, invariants '
              'through the two loops of defer, well-founded up-time simulation) + differential correspondence',
    design='7/C20',
)

TRUSTED = [
    'CPython datetime/calendar as the civil calendar (Model/Cal is compared with it on every day 1970-2100 in the thorough tier, sampled in quick)',
    'dawgie.pl.schedule.datetime replaced by a namespace with a controlled now(); twisted reactor replaced by a recorder of callLater; dawgie.db.targets faked',
    'timers fire at the requested time; farm emulated as todo->doing/running followed by schedule.complete per target',
    'the firing window of the monitor is the documented 300 s',
]

DAY = 86400 * 10 ** 6
WINDOW_US = 300 * 10 ** 6


# ------------------------------------------------------------------ specifications
def mk_spec(kind, n=None, date=None, time=(3, 0, 0), boot=True):
    return {'kind': kind, 'n': n, 'date': list(date) if date else None,
            'time': list(time) if time is not None else None, 'boot': boot}


def spec_fields(spec):
    """(boot, day, dom, dow, time) Python values of a MOMENT"""
    t = None if spec['time'] is None else _dt.time(*spec['time'])
    k = spec['kind']
    if k == 'boot':
        return spec['boot'], None, None, None, t
    if k == 'day':
        return None, _dt.date(*spec['date']), None, None, t
    if k == 'dom':
        return None, None, spec['n'], None, t
    if k == 'dow':
        return None, None, None, spec['n'], t
    if k == 'raw':  # malformed: fields given literally
        d = spec['date']
        return spec['boot'], (_dt.date(*d) if d else None), spec.get('dom'), spec.get('dow'), t
    raise ValueError(k)


def spec_sx(spec, ref=1):
    boot, day, dom, dow, t = spec_fields(spec)
    return [ref, boot, [day.year, day.month, day.day] if day else None, dom, dow,
            [t.hour, t.minute, t.second] if t else None]


def accepted(spec):
    """inside the property's quantifier: accepted shape, dom 1..31, dow 0..6"""
    if spec['kind'] == 'raw':
        return False
    if spec['kind'] == 'boot':
        return True
    if spec['time'] is None:
        return False
    if spec['kind'] == 'dom':
        return 1 <= spec['n'] <= 31
    if spec['kind'] == 'dow':
        return 0 <= spec['n'] <= 6
    return True


# ------------------------------------------------------------------ the oracle (plain datetime)
def bounds(spec, now):
    """what the property demands of the designated moment `then` at clock `now` (the weaker reading,
    DESIGN 5.1): it matches the specification and is not later than the next occurrence after `now`
    (that is at most one period ahead); no lower bound.  Returns check(then) -> error text or None"""
    k = spec['kind']
    t = _dt.time(*spec['time'])
    limit = next_at_or_after(spec, now + _dt.timedelta(microseconds=1)) if k != 'day' else None

    def check(then):
        if (then.hour, then.minute, then.second, then.microsecond) != (t.hour, t.minute, t.second, 0):
            return f'time of day {then.time()} is not {t}'
        if k == 'dow' and then.weekday() != spec['n']:
            return f'weekday {then.weekday()} is not {spec["n"]}'
        if k == 'dom' and then.day != spec['n']:
            return f'day of month {then.day} is not {spec["n"]}'
        if k == 'day' and then.date() != _dt.date(*spec['date']):
            return f'date {then.date()} is not {_dt.date(*spec["date"])}'
        if limit is not None and then > limit:
            return f'{then - now} ahead lies beyond the next occurrence {limit} (more than one period)'
        return None

    return check


def next_at_or_after(spec, instant):
    """the first moment matching the specification that is not before `instant` (plain datetime scan)"""
    t = _dt.time(*spec['time'])
    if spec['kind'] == 'day':
        return _dt.datetime.combine(_dt.date(*spec['date']), t, tzinfo=_dt.UTC)
    d = instant.date()
    for _ in range(80):
        if (spec['kind'] == 'dow' and d.weekday() == spec['n']) or (spec['kind'] == 'dom' and d.day == spec['n']):
            c = _dt.datetime.combine(d, t, tzinfo=_dt.UTC)
            if c >= instant:
                return c
        d += _dt.timedelta(days=1)
    raise AssertionError('no occurrence within 80 days')


def first_occurrence(spec, now):
    """the first moment matching the specification on or after today's date (used for due-ness
    and for the up-time expectation), plain datetime scan"""
    t = _dt.time(*spec['time'])
    if spec['kind'] == 'day':
        return _dt.datetime.combine(_dt.date(*spec['date']), t, tzinfo=_dt.UTC)
    d = now.date()
    for _ in range(70):
        if (spec['kind'] == 'dow' and d.weekday() == spec['n']) or (spec['kind'] == 'dom' and d.day == spec['n']):
            return _dt.datetime.combine(d, t, tzinfo=_dt.UTC)
        d += _dt.timedelta(days=1)
    raise AssertionError('no occurrence within 70 days')


# ------------------------------------------------------------------ the real code
class Real:
    def __init__(self):
        import dawgie
        import dawgie.db
        import dawgie.pl.dag
        import dawgie.pl.logger.chronicle as chron
        import dawgie.pl.schedule as sched
        import dawgie.util.fifo
        from dawgie.pl.jobinfo import State

        self.dawgie, self.sched, self.State, self.chron = dawgie, sched, State, chron
        self.Node, self.Unique = dawgie.pl.dag.Node, dawgie.util.fifo.Unique
        self.clock = types.SimpleNamespace(now=c18_cal.EPOCH)
        sched.datetime = c18_cal.fake_datetime_module(self.clock)
        self.timers = []
        reactor = types.SimpleNamespace(callLater=lambda delay, fn, *a: self.timers.append((delay, fn, a)))
        sched.twisted = types.SimpleNamespace(internet=types.SimpleNamespace(reactor=reactor))
        self.targets = []
        dawgie.db.targets = lambda: list(self.targets)
        self.appended = []
        chron.append = self.appended.append
        sched.log.disabled = True
        import logging

        logging.getLogger('dawgie.util').setLevel(logging.ERROR)
        dawgie.context.git_rev = 'rev0'

        def task(*_a):
            return None

        def analysis(*_a):
            return None

        self.factories = {False: task, True: analysis}
        self.impls = {}

    def event(self, spec, ref=1, via_schedule=True):
        """the dawgie.EVENT of a specification; `ref` identifies the algorithm reference"""
        impl = self.impls.setdefault(ref, types.SimpleNamespace(ref=ref))
        boot, day, dom, dow, t = spec_fields(spec)
        d = self.dawgie
        if via_schedule and spec['kind'] != 'raw':
            try:
                return d.schedule(self.factories[False], impl, boot=boot, day=day, dom=dom, dow=dow, time=t)
            except ValueError:
                pass
        return d.EVENT(d.ALG_REF(self.factories[False], impl), d.MOMENT(boot, day, dom, dow, t))

    def delay(self, ev, now_us, booted=None):
        """('ok', micro-seconds) | ('err', name)"""
        self.clock.now = from_us(now_us)
        self.sched.booted[:] = booted or []
        try:
            with watchdog(2.0):
                td = self.sched._delay(ev)
        except Hang:
            return ('err', 'does-not-terminate')
        except self.sched._DelayNotKnowableError:
            return ('err', 'notKnowable')
        except ValueError:
            return ('err', 'valueError')
        except AttributeError:
            return ('err', 'attributeError')
        except OverflowError:
            return ('err', 'overflow')
        except Exception as e:  # pylint: disable=broad-except
            return ('err', type(e).__name__)
        return ('ok', td // c18_cal.US)


class Hang(Exception):
    pass


def _alarm(_sig, _frame):
    raise Hang()


HANGS = {'n': 0}   # real calls that did not return; after a few the remaining cases of a part are skipped
MAX_HANGS = 3


class watchdog:
    """raises Hang in the main thread when the block burns more than `seconds` of CPU (a `while True` that
    never breaks must not hang the check)"""

    def __init__(self, seconds):
        self.seconds = seconds

    # process CPU time, not wall clock: a busy machine must not look like a hang
    def __enter__(self):
        signal.signal(signal.SIGVTALRM, _alarm)
        signal.setitimer(signal.ITIMER_VIRTUAL, self.seconds)

    def __exit__(self, *_a):
        signal.setitimer(signal.ITIMER_VIRTUAL, 0)
        return False


REAL = None


def real():
    global REAL  # pylint: disable=global-statement
    if REAL is None:
        REAL = Real()
    return REAL


# ------------------------------------------------------------------ part A: _delay sweep
def sweep_specs(r, thorough):
    tods = [(0, 0, 0), (3, 0, 0), (12, 30, 15), (23, 59, 59), (2, 59, 0), (18, 45, 30)]
    specs = []
    for n in range(7):
        specs.append(mk_spec('dow', n, time=tods[n % len(tods)]))
    for n in range(1, 32):
        specs.append(mk_spec('dom', n, time=r.choice(tods)))
    for date in ((2024, 2, 29), (2026, 1, 1), (2022, 12, 31), (2028, 12, 31)):
        specs.append(mk_spec('day', date=date, time=r.choice(tods)))
    if thorough:
        for n in (0, 6):
            specs.append(mk_spec('dow', n, time=(23, 59, 59)))
        for n in (29, 30, 31):
            specs.append(mk_spec('dom', n, time=(0, 0, 0)))
    return specs


def sweep_instants(r, thorough):
    step = _dt.timedelta(hours=1) if thorough else _dt.timedelta(hours=7, minutes=13)
    t, end = _dt.datetime(2023, 1, 1, tzinfo=_dt.UTC), _dt.datetime(2029, 1, 1, tzinfo=_dt.UTC)
    out = []
    while t < end:
        # somewhere inside the step's first minute, with micro-seconds
        out.append(us(t) + r.randrange(0, 60 * 10 ** 6))
        t += step
    # the instants around month ends, leap day and year ends, to the micro-second
    for y in range(2023, 2029):
        for m in range(1, 13):
            first = us(_dt.datetime(y, m, 1, tzinfo=_dt.UTC))
            out += [first - 1, first, first + 1, first - DAY, first - DAY - 1, first + 3 * 3600 * 10 ** 6]
    return sorted(set(out))


def _sweep_chunk(args):
    """worker: real _delay + monitor for (spec, instants); returns (results, hits)"""
    spec, instants = args
    rl = real()
    ev = rl.event(spec)
    results, hits = [], []
    for now_us in instants:
        out = rl.delay(ev, now_us)
        results.append(out)
        if out[0] == 'err':
            if out[1] == 'does-not-terminate':
                hits.append(('C20:delay-hangs', f'_delay does not return for {describe(spec)} at {from_us(now_us)}',
                             {'kind': 'delay', 'spec': spec, 'now': now_us}))
                # every further instant of this specification would cost the watchdog time again
                results += [out] * (len(instants) - len(results))
                break
            hits.append(('C20:delay-raises', f'_delay raised {out[1]} for {describe(spec)} at {from_us(now_us)}',
                         {'kind': 'delay', 'spec': spec, 'now': now_us}))
            continue
        now = from_us(now_us)
        then = now + _dt.timedelta(microseconds=out[1])
        bad = bounds(spec, now)(then)
        if bad:
            sig = 'C20:delay-too-far' if 'beyond' in bad else 'C20:delay-mismatch'
            hits.append((sig, f'_delay for {describe(spec)} at {now} designates {then}: {bad}',
                         {'kind': 'delay', 'spec': spec, 'now': now_us}))
    return results, hits


def describe(spec):
    k = spec['kind']
    t = ':'.join('%02d' % x for x in spec['time']) if spec['time'] else 'no time'
    if k == 'dow':
        return f'day-of-week {spec["n"]} {t}'
    if k == 'dom':
        return f'day-of-month {spec["n"]} {t}'
    if k == 'day':
        return f'date {"-".join(map(str, spec["date"]))} {t}'
    if k == 'boot':
        return 'boot'
    return f'raw moment {spec}'


def pdriver(lines, workers):
    """several Lean drivers side by side (each handles a slice of the lines)"""
    if not lines:
        return []
    k = max(1, min(workers, len(lines)))
    size = (len(lines) + k - 1) // k
    parts = [lines[i:i + size] for i in range(0, len(lines), size)]
    with ThreadPoolExecutor(max_workers=len(parts)) as ex:
        outs = list(ex.map(lambda p: common.driver(p, 'C20'), parts))
    return [o for part in outs for o in part]


def part_delay(ctx, res, r, thorough):
    specs = sweep_specs(r, thorough)
    instants = sweep_instants(r, thorough)
    jobs = [(s, instants) for s in specs]
    if thorough:
        real()
        with multiprocessing.get_context('fork').Pool(min(16, len(jobs))) as pool:
            outs = pool.map(_sweep_chunk, jobs, chunksize=1)
    else:
        outs = [_sweep_chunk(j) for j in jobs]
    for (spec, _i), (results, hits) in zip(jobs, outs):
        for sig, what, rep in hits[:3]:
            res.hit(sig, what, rep)
        res.count('delay:' + spec['kind'], len(results))
        res.evaluations += len(results)
        for (now_us, out) in list(zip(instants, results))[:: max(1, len(results) // 40)]:
            res.case(('delay', describe(spec), now_us, out), nontrivial=out[0] == 'ok',
                     sample={'spec': describe(spec), 'now': str(from_us(now_us)), 'delay_us': out[1]})
    # malformed / out-of-range stream and boot, few instants
    odd = [
        mk_spec('dom', 0), mk_spec('dom', 32), mk_spec('dom', -5), mk_spec('dow', 7), mk_spec('dow', -3),
        mk_spec('dow', 2, time=None), mk_spec('dom', 15, time=None), mk_spec('day', date=(2024, 2, 29), time=None),
        {'kind': 'raw', 'boot': None, 'date': [2026, 5, 5], 'dom': None, 'dow': 3, 'time': [1, 2, 3]},
        {'kind': 'raw', 'boot': None, 'date': None, 'dom': 31, 'dow': 0, 'time': [1, 2, 3]},
        {'kind': 'raw', 'boot': None, 'date': None, 'dom': None, 'dow': None, 'time': [1, 2, 3]},
        {'kind': 'raw', 'boot': None, 'date': None, 'dom': None, 'dow': None, 'time': None},
        {'kind': 'raw', 'boot': False, 'date': None, 'dom': 31, 'dow': None, 'time': None},
    ]
    few = r.sample(instants, 60)
    odd_out = []
    for spec in odd:
        ev = real().event(spec, via_schedule=False)
        odd_out.append([real().delay(ev, t) for t in few])
        res.count('delay:out-of-range', len(few))
    # boot: the event fires once per process
    boot_ev = real().event(mk_spec('boot'), ref=7)
    real().sched.booted[:] = []
    boot_out = []
    for t in few[:6]:
        real().clock.now = from_us(t)
        try:
            boot_out.append(('ok', real().sched._delay(boot_ev) // c18_cal.US))
        except real().sched._DelayNotKnowableError:
            boot_out.append(('err', 'notKnowable'))
    if boot_out[0] != ('ok', 0) or any(o != ('err', 'notKnowable') for o in boot_out[1:]):
        res.hit('C20:boot-refires', f'a boot event evaluated six times gave {boot_out}; expected delay 0 once, '
                'then not-knowable', {'kind': 'boot', 'instants': few[:6]})
    res.count('delay:boot', len(boot_out))
    if not ctx['lean']:
        return
    lines = [common.sx(['timer', 'delays', spec_sx(s), []] + instants) for s in specs]
    lines += [common.sx(['timer', 'delays', spec_sx(s), []] + few) for s in odd]
    lines.append(common.sx(['timer', 'boot', spec_sx(mk_spec('boot'), ref=7)] + few[:6]))
    outs_l = pdriver(lines, 8 if thorough else 4)
    impl_all = [o[0] for o in outs] + odd_out + [boot_out]
    for spec, impl, o in zip(specs + odd + [mk_spec('boot')], impl_all, outs_l):
        model = [(x[0], int(x[1]) if x[0] == 'ok' else x[1]) for x in common.parse_sx(o)]
        src = instants if len(impl) == len(instants) else few
        if spec['kind'] == 'dow' and not accepted(spec) and spec['time'] is not None:
            res.count('delay:dow-out-of-range-not-compared')  # garbage in: no error branch to compare
            continue
        if model != impl:
            k = next(i for i, (a, b) in enumerate(zip(model, impl)) if a != b)
            res.diff('Delay.delay vs schedule._delay', {'spec': spec, 'now': src[k], 'at': str(from_us(src[k]))},
                     list(model[k]), list(impl[k]))
    res.traces += len(lines)


# ------------------------------------------------------------------ part B: accepted shape
def part_shape(ctx, res):
    rl = real()
    d = rl.dawgie
    import dawgie.tools.compliant as compliant

    vals = {'boot': [None, True, False], 'day': [None, _dt.date(2024, 2, 29)], 'dom': [None, 15], 'dow': [None, 0, 3],
            'time': [None, _dt.time(3, 0, 0)]}
    lines, impl = [], []
    for boot in vals['boot']:
        for day in vals['day']:
            for dom in vals['dom']:
                for dow in vals['dow']:
                    for t in vals['time']:
                        try:
                            d.schedule(rl.factories[False], None, boot=boot, day=day, dom=dom, dow=dow, time=t)
                            ok_s = True
                        except ValueError:
                            ok_s = False
                        ev = d.EVENT(d.ALG_REF(rl.factories[False], None), d.MOMENT(boot, day, dom, dow, t))
                        mod = types.ModuleType('c20_fake_events')
                        mod.events = lambda ev=ev: [ev]
                        sys.modules['c20_fake_events'] = mod
                        try:
                            ok_r = bool(compliant.rule_10('c20_fake_events'))
                        finally:
                            del sys.modules['c20_fake_events']
                        impl.append([ok_r, ok_s])
                        lines.append(common.sx(['timer', 'accept', [1, boot, [day.year, day.month, day.day] if day else None,
                                                                    dom, dow, [t.hour, t.minute, t.second] if t else None]]))
                        res.count('shape-grid')
    if ctx['lean']:
        for l, i, o in zip(lines, impl, common.driver(lines, 'C20')):
            m = [x == 'T' for x in common.parse_sx(o)]
            if m != i:
                res.diff('Delay.rule10/scheduleOK vs tools.compliant.rule_10 / dawgie.schedule', {'moment': l}, m, i)


# ------------------------------------------------------------------ part B2: whatever the REAL rules accept must be computable
def _enc(v):
    """json-able picture of a moment field (wrong types included)"""
    if isinstance(v, _dt.datetime):
        return ['datetime', v.year, v.month, v.day, v.hour, v.minute, v.second]
    if isinstance(v, _dt.date):
        return ['date', v.year, v.month, v.day]
    if isinstance(v, _dt.time):
        return ['time', v.hour, v.minute, v.second]
    return v


def _dec(v):
    if isinstance(v, list) and v and v[0] == 'datetime':
        return _dt.datetime(*v[1:], tzinfo=_dt.UTC)
    if isinstance(v, list) and v and v[0] == 'date':
        return _dt.date(*v[1:])
    if isinstance(v, list) and v and v[0] == 'time':
        return _dt.time(*v[1:])
    return v


def really_accepted(rl, fields):
    """asks the real code: (event, accepted) where accepted = dawgie.schedule builds the event and
    tools.compliant.rule_10 passes a package offering exactly this event"""
    import dawgie.tools.compliant as compliant

    d = rl.dawgie
    boot, day, dom, dow, t = (_dec(fields[k]) for k in ('boot', 'day', 'dom', 'dow', 'time'))
    impl = rl.impls.setdefault(99, types.SimpleNamespace(ref=99))
    try:
        ev = d.schedule(rl.factories[False], impl, boot=boot, day=day, dom=dom, dow=dow, time=t)
    except Exception:  # pylint: disable=broad-except
        return None, False
    mod = types.ModuleType('c20_fake_events')
    mod.events = lambda ev=ev: [ev]
    sys.modules['c20_fake_events'] = mod
    try:
        ok = bool(compliant.rule_10('c20_fake_events'))
    except Exception:  # pylint: disable=broad-except
        ok = False
    finally:
        del sys.modules['c20_fake_events']
    return ev, ok


def check_accepted(rl, res, fields, instants):
    """the property itself: a specification the compliance rules accept (day-of-month 1..31, day-of-week 0..6)
    is computable at every instant"""
    dom, dow = fields['dom'], fields['dow']

    def out_of_range(v, lo, hi):
        return isinstance(v, (int, float)) and not isinstance(v, bool) and not lo <= v <= hi

    if out_of_range(dom, 1, 31) or out_of_range(dow, 0, 6):
        return 'outside'
    ev, ok = really_accepted(rl, fields)
    if not ok:
        return 'rejected'
    for now_us in instants:
        out = rl.delay(ev, now_us)
        if out[0] == 'err' and out[1] != 'notKnowable':
            what = 'does not return' if out[1] == 'does-not-terminate' else f'raised {out[1]}'
            res.hit('C20:delay-hangs' if out[1] == 'does-not-terminate' else 'C20:delay-raises',
                    f'rule_10 and dawgie.schedule accept the moment boot={fields["boot"]} day={fields["day"]} '
                    f'dom={fields["dom"]} dow={fields["dow"]} time={fields["time"]}, but _delay {what} at {from_us(now_us)}',
                    {'kind': 'accepted-spec', 'fields': fields, 'now': now_us})
            return 'fails'
    return 'computable'


def part_accepted(res, r):
    rl = real()
    vals = {
        'boot': [None, True, False],
        'day': [None, _dt.date(2024, 2, 29), _dt.date(2026, 12, 31), _dt.datetime(2025, 6, 1, 5, 6, 7), '2024-02-29'],
        'dom': [None, 1, 15, 29, 30, 31, '15', 15.0],
        'dow': [None, 0, 3, 6, 'mon', 2.0],
        'time': [None, _dt.time(0, 0, 0), _dt.time(13, 37, 11), _dt.time(23, 59, 59), '03:00', 3],
    }
    instants = [us(_dt.datetime(y, m, d, hh, 30, 15, 123456, tzinfo=_dt.UTC))
                for (y, m, d, hh) in ((2024, 1, 30, 12), (2024, 1, 31, 23), (2024, 2, 29, 0), (2025, 2, 28, 4),
                                      (2025, 12, 31, 23), (2026, 3, 1, 0), (2027, 6, 15, 12), (2028, 10, 31, 3))]
    for boot in vals['boot']:
        for day in vals['day']:
            for dom in vals['dom']:
                for dow in vals['dow']:
                    # keep the grid small: at most two of the four exclusive fields given
                    if sum(x is not None for x in (boot, day, dom, dow)) > 2:
                        continue
                    for t in vals['time']:
                        fields = {'boot': boot, 'day': _enc(day), 'dom': dom, 'dow': dow, 'time': _enc(t)}
                        verdict = check_accepted(rl, res, fields, instants)
                        res.count('accepted-grid:' + verdict)
                        if verdict in ('computable', 'fails'):
                            res.case(('accepted', str(fields), verdict), nontrivial=True)


# ------------------------------------------------------------------ part C: defer
STATUSES = ['initial', 'delayed', 'waiting', 'running', 'success', 'failure']


def build_sched(rl, sc):
    """installs scenario `sc` into the real module; returns ({tag: node}, {ref: event})"""
    sched, State = rl.sched, rl.State
    nodes, events = {}, {}
    for n in sc['nodes']:
        node = rl.Node(n['tag'])
        node.set('factory', rl.factories[n['asp']])
        node.set('level', n['level'])
        node.set('status', State[n['status']])
        node.set('todo', rl.Unique(n['todo']))
        node.set('doing', rl.Unique(n['doing']))
        node.set('do', rl.Unique())
        node.set('alg', types.SimpleNamespace(asstring=lambda: '1.0.0'))
        per = []
        for e in n['events']:
            ev = rl.event(e['spec'], ref=e['ref'], via_schedule=False)
            events[e['ref']] = ev
            per.append(ev)
        node.set('period', per)
        nodes[n['tag']] = node
    sched.per = [nodes[t] for t in sc['per']]
    sched.que = [nodes[t] for t in sc['que']]
    sched.booted[:] = [events[r] for r in sc['booted']]
    sched.pipeline_paused = sc['paused']
    rl.targets = list(sc['targets'])
    rl.timers = []
    return nodes, events


def sched_sx(sc):
    nodes = [[n['tag'], n['asp'], n['level'], n['status'], list(n['todo']), list(n['doing']),
              [spec_sx(e['spec'], e['ref']) for e in n['events']], None] for n in sc['nodes']]
    by_ref = {e['ref']: e for n in sc['nodes'] for e in n['events']}
    return [nodes, list(sc['per']), list(sc['que']), [spec_sx(by_ref[r]['spec'], r) for r in sc['booted']],
            sc['paused'], list(sc['targets'])]


def observe(rl, sc, nodes, events):
    ref_of = {id(ev): r for r, ev in events.items()}
    return [[[t, n.get('status').name, sorted(n.get('todo')), sorted(n.get('doing')),
              'timer' if n.get('event') == 'Periodic timer' else None] for t, n in
             ((x['tag'], nodes[x['tag']]) for x in sc['nodes'])],
            [q.tag for q in rl.sched.que], [ref_of.get(id(e), -1) for e in rl.sched.booted]]


def run_defer(rl, res, sc, now_us, monitor=True):
    """one real defer() on scenario sc; returns canonical observation"""
    nodes, events = build_sched(rl, sc)
    rl.clock.now = from_us(now_us)
    now = from_us(now_us)
    # what the property demands, from the oracle, before the call:
    #   must  - an occurrence lies between now and now + 300 s (or a boot event has not fired)
    #   may   - today's occurrence already passed (no lower bound is demanded: it may count as due)
    demand = {}
    booted = set(sc['booted'])
    for tag in sc['per']:
        n = next(x for x in sc['nodes'] if x['tag'] == tag)
        if sc['paused'] or n['status'] in ('running', 'waiting') or tag in demand:
            continue
        must, may, pending = [], [], []
        for e in n['events']:
            if not accepted(e['spec']):
                must = None
                break
            if e['spec']['kind'] == 'boot':
                if e['ref'] not in booted:
                    must.append(e['ref'])
                    booted.add(e['ref'])
                continue
            ahead = us(next_at_or_after(e['spec'], now)) - now_us
            if e['spec']['kind'] == 'day' and ahead < 0:
                may.append(e['ref'])
            elif 0 <= ahead <= WINDOW_US:
                must.append(e['ref'])
            elif us(first_occurrence(e['spec'], now)) - now_us <= WINDOW_US:
                may.append(e['ref'])
            else:
                pending.append(ahead)
        demand[tag] = (must, may, pending)
    try:
        with watchdog(5.0):
            rl.sched.defer()
    except Hang:
        HANGS['n'] += 1
        if monitor:
            res.hit('C20:defer-hangs', f'defer() does not return at {now}', {'kind': 'defer', 'scenario': sc, 'now': now_us})
        return ['err', 'does-not-terminate']
    except Exception as e:  # pylint: disable=broad-except
        name = {'ValueError': 'valueError', 'AttributeError': 'attributeError',
                'OverflowError': 'overflow'}.get(type(e).__name__, type(e).__name__)
        if monitor and all(accepted(e['spec']) for n in sc['nodes'] for e in n['events']):
            res.hit('C20:defer-raises', f'defer() raised {type(e).__name__}: {e}',
                    {'kind': 'defer', 'scenario': sc, 'now': now_us})
        return ['err', name]
    obs = observe(rl, sc, nodes, events)
    timer = [t[0] for t in rl.timers]
    obs.append(timer[0] if len(timer) == 1 else (None if not timer else timer))
    if monitor and not sc['paused'] and all(v[0] is not None for v in demand.values()):
        waits = []
        for tag, (must, may, pending) in demand.items():
            n = next(x for x in sc['nodes'] if x['tag'] == tag)
            node = nodes[tag]
            if must:
                want = ['__all__'] if n['asp'] else list(sc['targets'])
                missing = [t for t in want if t not in node.get('todo')]
                queued = any(q is node for q in rl.sched.que)
                if node.get('status') is not rl.State.waiting or missing or (len(node.get('todo')) and not queued):
                    res.hit('C20:due-not-queued',
                            f'at {now} node {tag} has a due timer event (ref {must[0]}) but after defer(): status '
                            f'{node.get("status").name}, todo {sorted(node.get("todo"))}, in queue {queued}; expected '
                            f'waiting, todo ⊇ {want}, queued',
                            {'kind': 'defer', 'scenario': sc, 'now': now_us})
            elif not may:
                if node.get('status') is rl.State.waiting:
                    res.hit('C20:queued-not-due',
                            f'at {now} node {tag} has no timer event within 300 s, yet defer() queued it',
                            {'kind': 'defer', 'scenario': sc, 'now': now_us})
                waits += pending
        if waits:
            if not rl.timers:
                res.hit('C20:no-timer', f'at {now} defer() examined a timer event that is not yet due and armed no '
                        'timer: it can never fire', {'kind': 'defer', 'scenario': sc, 'now': now_us})
            elif rl.timers[0][0] * 10 ** 6 > min(waits) + 10 ** 6:
                res.hit('C20:timer-late', f'at {now} defer() sleeps {rl.timers[0][0]} s although a timer event is due in '
                        f'{min(waits) / 10 ** 6:.0f} s', {'kind': 'defer', 'scenario': sc, 'now': now_us})
    if monitor and sc['paused'] and (not rl.timers):
        res.hit('C20:paused-no-retry', 'defer() on a paused pipeline armed no retry timer',
                {'kind': 'defer', 'scenario': sc, 'now': now_us})
    return ['ok'] + obs


def gen_scenario(r):
    tods = [(0, 0, 0), (3, 0, 0), (12, 30, 15), (23, 59, 59)]
    nn = r.choice([1, 1, 2, 2, 3, 4])
    nodes, ref = [], 0
    for i in range(nn):
        evs = []
        for _ in range(r.choice([1, 1, 1, 2, 3])):
            ref += 1
            kind = r.choice(['dow', 'dow', 'dom', 'dom', 'boot', 'day'])
            if kind == 'dow':
                spec = mk_spec('dow', r.randrange(7), time=r.choice(tods))
            elif kind == 'dom':
                spec = mk_spec('dom', r.choice([1, 15, 28, 29, 30, 31, r.randrange(1, 32)]), time=r.choice(tods))
            elif kind == 'day':
                spec = mk_spec('day', date=r.choice([(2024, 2, 29), (2026, 7, 4), (2023, 1, 1)]), time=r.choice(tods))
            else:
                spec = mk_spec('boot', boot=r.choice([True, True, False]), time=None)
            evs.append({'ref': ref, 'spec': spec})
        status = r.choice(['initial', 'initial', 'initial', 'delayed', 'delayed', 'waiting', 'running', 'success', 'failure'])
        todo = r.choice([[], [], ['T1'], ['T9']]) if status in ('waiting', 'running') else r.choice([[], [], ['T9']])
        doing = r.choice([[], ['T1']]) if status == 'running' else []
        nodes.append({'tag': 'net.a%d' % i, 'asp': r.random() < 0.3, 'level': r.randrange(0, 3), 'status': status,
                      'todo': todo, 'doing': doing, 'events': evs})
    per = []
    for n in nodes:
        per += [n['tag']] * len(n['events'])  # periodics appends the node once per event
    if r.random() < 0.2:
        r.shuffle(per)
    que = [n['tag'] for n in sorted(nodes, key=lambda x: x['level']) if n['status'] in ('waiting', 'running')
           and (n['todo'] or n['doing'] or n['status'] == 'running')]
    boots = [e['ref'] for n in nodes for e in n['events'] if e['spec']['kind'] == 'boot']
    booted = [b for b in boots if r.random() < 0.4]
    sc = {'nodes': nodes, 'per': per, 'que': que, 'booted': booted, 'paused': r.random() < 0.1,
          'targets': r.choice([[], ['T1'], ['T1', 'T2'], ['T1', 'T2', 'T3']])}
    # a clock reading near one of the designated moments
    timed = [e['spec'] for n in nodes for e in n['events'] if e['spec']['kind'] in ('dow', 'dom')]
    base = us(_dt.datetime(r.randrange(2023, 2029), r.randrange(1, 13), r.randrange(1, 29), r.randrange(24),
                           r.randrange(60), r.randrange(60), r.randrange(10 ** 6), tzinfo=_dt.UTC))
    if timed and r.random() < 0.8:
        first = us(first_occurrence(r.choice(timed), from_us(base)))
        base = first - r.choice([-10 * 10 ** 6, -1, 0, 1, 10 ** 6, 299 * 10 ** 6, WINDOW_US, WINDOW_US + 1,
                                 301 * 10 ** 6, 3600 * 10 ** 6, 3 * DAY, 500000, 499999, 1500000])
    return sc, base


def defer_corpus():
    wk = {'ref': 1, 'spec': mk_spec('dow', 0, time=(3, 0, 0))}
    mon = {'ref': 2, 'spec': mk_spec('dom', 31, time=(0, 0, 0))}
    bt = {'ref': 3, 'spec': mk_spec('boot', time=None)}

    def node(tag, evs, status='initial', asp=False, level=0, todo=(), doing=()):
        return {'tag': tag, 'asp': asp, 'level': level, 'status': status, 'todo': list(todo), 'doing': list(doing),
                'events': evs}

    t0 = us(_dt.datetime(2024, 1, 1, 2, 59, tzinfo=_dt.UTC))
    out = []
    out.append(({'nodes': [node('net.alg', [wk])], 'per': ['net.alg'], 'que': [], 'booted': [], 'paused': False,
                 'targets': ['T1', 'T2']}, t0))
    out.append(({'nodes': [node('net.alg', [wk]), node('net.asp', [mon], asp=True, level=1)],
                 'per': ['net.alg', 'net.asp'], 'que': [], 'booted': [], 'paused': False, 'targets': ['T1']}, t0))
    out.append(({'nodes': [node('net.alg', [wk, bt])], 'per': ['net.alg', 'net.alg'], 'que': [], 'booted': [],
                 'paused': False, 'targets': []}, t0))
    out.append(({'nodes': [node('net.alg', [wk], status='waiting')], 'per': ['net.alg'], 'que': [], 'booted': [],
                 'paused': False, 'targets': ['T1']}, t0))
    out.append(({'nodes': [node('net.alg', [wk])], 'per': ['net.alg'], 'que': [], 'booted': [], 'paused': True,
                 'targets': ['T1']}, t0))
    out.append(({'nodes': [node('net.alg', [mon])], 'per': ['net.alg'], 'que': [], 'booted': [], 'paused': False,
                 'targets': ['T1']}, us(_dt.datetime(2024, 1, 31, 12, tzinfo=_dt.UTC))))
    out.append(({'nodes': [node('net.alg', [mon])], 'per': ['net.alg'], 'que': [], 'booted': [], 'paused': False,
                 'targets': ['T1']}, us(_dt.datetime(2024, 2, 1, 0, 0, 1, tzinfo=_dt.UTC))))
    return out


def load_corpus():
    """scenario files of corpus/C20 (replayed before anything generated)"""
    import json
    import os

    d = os.path.join(common.VERIF, 'corpus', 'C20')
    out = []
    if os.path.isdir(d):
        for f in sorted(os.listdir(d)):
            if f.endswith('.json'):
                c = json.load(open(os.path.join(d, f)))
                if c.get('kind') == 'defer':
                    out.append((c['scenario'], c['now']))
    return out


def part_defer(ctx, res, r, thorough):
    rl = real()
    cases = load_corpus() + defer_corpus() + [gen_scenario(r) for _ in range(8000 if thorough else 400)]
    lines, impl = [], []
    for sc, now_us in cases:
        if HANGS['n'] >= MAX_HANGS:
            res.count('defer:skipped-after-hangs')
            impl.append(None)
            lines.append(common.sx(['timer', 'defer', now_us, sched_sx(sc)]))
            continue
        obs = run_defer(rl, res, sc, now_us)
        impl.append(obs)
        lines.append(common.sx(['timer', 'defer', now_us, sched_sx(sc)]))
        res.case(('defer', obs), nontrivial=obs[0] == 'ok' and any(x[1] == 'waiting' for x in obs[1]),
                 sample={'now': str(from_us(now_us)), 'events': [describe(e['spec']) for n in sc['nodes'] for e in n['events']],
                         'after': obs[1:] if obs[0] == 'ok' else obs})
        res.count('defer:' + ('paused' if sc['paused'] else obs[0]))
    if ctx['lean']:
        for (sc, now_us), i, o in zip(cases, impl, pdriver(lines, 4)):
            m = canon_defer(common.parse_sx(o))
            if i is not None and m != i:
                res.diff('Delay.defer vs schedule.defer', {'scenario': sc, 'now': now_us}, m, i)
        res.traces += len(lines)


def canon_defer(x):
    if x[0] == 'err':
        return ['err', x[1]]
    st, timer = x[1], x[2]
    nodes = [[n[0], n[1], sorted(n[2]), sorted(n[3]), None if n[4] == 'N' else 'timer'] for n in st[0]]
    return ['ok', nodes, list(st[1]), [int(b) for b in st[2]], None if timer == 'N' else int(timer)]


# ------------------------------------------------------------------ part D: the pipeline stays up
def run_uptime(rl, res, sc, tag, now_us, horizon_us, monitor=True, late_us=0, paused_near=None, paused_hits=0):
    """boot at now, follow the timers the real defer arms, answer every queued unit through the real
    schedule.complete; returns the instants at which `tag` was queued.  `late_us`: every timer is served that
    much later than requested (busy reactor); `paused_near`/`paused_hits`: the pipeline is found paused by the
    first `paused_hits` wake-ups that fall within a minute of the instant `paused_near`"""
    nodes, _events = build_sched(rl, sc)
    sched, State = rl.sched, rl.State
    fired, t, steps = [], now_us, 0
    call = sched.defer
    while t <= horizon_us and steps < 400:
        steps += 1
        rl.clock.now = from_us(t)
        rl.timers = []
        before = [q.tag for q in sched.que]
        if paused_near is not None and paused_hits > 0 and abs(t - paused_near) <= 60 * 10 ** 6:
            sched.pipeline_paused = True
            paused_hits -= 1
        else:
            sched.pipeline_paused = False
        with watchdog(5.0):
            call()
        newly = [q for q in sched.que if q.tag not in before]
        if any(q.tag == tag for q in newly):
            fired.append(t)
        for node in newly:  # the farm: release every pending target, the worker answers each
            todo = list(node.get('todo'))
            for x in todo:
                node.get('todo').discard(x)
            node.get('doing').update(todo)
            node.set('status', State.running)
            for x in list(node.get('doing')):
                sched.complete(node, 17, x, {'started': from_us(t)}, State.success)
        if len(rl.timers) != 1:
            break
        delay, cb, cb_args = rl.timers[0]
        if delay <= 0:
            break
        call = (lambda cb=cb, cb_args=cb_args: cb(*cb_args))
        t += delay * 10 ** 6 + late_us
    return fired


def part_uptime(ctx, res, r, thorough):
    rl = real()
    tods = [(0, 0, 0), (3, 0, 0), (12, 30, 15), (23, 59, 59)]
    cases = []
    # corpus: the known finding's own history first
    cases.append((mk_spec('dow', 0, time=(3, 0, 0)), False, ['T1'], us(_dt.datetime(2024, 1, 1, 2, 59, tzinfo=_dt.UTC))))
    cases.append((mk_spec('dow', 0, time=(3, 0, 0)), False, ['T1'], us(_dt.datetime(2024, 1, 1, 1, 59, tzinfo=_dt.UTC))))
    cases.append((mk_spec('dom', 15, time=(3, 0, 0)), False, ['T1', 'T2'], us(_dt.datetime(2026, 1, 10, tzinfo=_dt.UTC))))
    cases.append((mk_spec('dom', 31, time=(0, 0, 0)), True, [], us(_dt.datetime(2024, 1, 31, 12, tzinfo=_dt.UTC))))
    cases.append((mk_spec('dom', 30, time=(3, 0, 0)), False, ['T1'], us(_dt.datetime(2026, 1, 30, 2, tzinfo=_dt.UTC))))
    for _ in range(1000 if thorough else 40):
        kind = r.choice(['dow', 'dom'])
        spec = mk_spec(kind, r.randrange(7) if kind == 'dow' else r.choice([1, 15, 29, 30, 31, r.randrange(1, 32)]),
                       time=r.choice(tods))
        now = us(_dt.datetime(r.randrange(2023, 2029), r.randrange(1, 13), r.randrange(1, 29), r.randrange(24),
                              r.randrange(60), r.randrange(60), r.randrange(10 ** 6), tzinfo=_dt.UTC))
        asp = r.random() < 0.3
        cases.append((spec, asp, r.choice([['T1'], ['T1', 'T2']]), now))
    cases = [c + (0, 0) for c in cases]
    # wake-ups served late (busy reactor: 1 s ... minutes) or finding the pipeline paused around the moment; the
    # boot instant is placed so that the event is not yet due at boot and the timer path is taken
    late_specs = [(mk_spec('dom', 15, time=(3, 0, 0)), us(_dt.datetime(2026, 1, 10, tzinfo=_dt.UTC))),
                  (mk_spec('dom', 31, time=(0, 0, 0)), us(_dt.datetime(2024, 1, 30, 22, tzinfo=_dt.UTC))),
                  (mk_spec('dow', 2, time=(12, 30, 15)), us(_dt.datetime(2025, 6, 1, 8, tzinfo=_dt.UTC)))]
    for _ in range(60 if thorough else 8):
        kind = r.choice(['dom', 'dom', 'dow'])
        spec = mk_spec(kind, r.randrange(7) if kind == 'dow' else r.choice([1, 15, 28, 29, 30, 31, r.randrange(1, 32)]),
                       time=r.choice(tods))
        late_specs.append((spec, us(_dt.datetime(r.randrange(2023, 2029), r.randrange(1, 13), r.randrange(1, 29),
                                                 r.randrange(24), r.randrange(60), r.randrange(60), tzinfo=_dt.UTC))))
    for spec, now in late_specs:
        for late, hits in ((10 ** 6, 0), (2 * 10 ** 6, 0), (37 * 10 ** 6, 0), (240 * 10 ** 6, 0), (0, 1), (0, 3),
                           (10 ** 6, 2)):
            nxt = us(next_at_or_after(spec, from_us(now)))
            # the late wake-up must still fall on the day of the moment: past midnight the occurrence is over for
            # the code as it is (reported as an observation, not demanded here)
            if nxt - now > 2 * WINDOW_US and nxt % DAY + late + hits * 10 ** 7 + 2 * 10 ** 6 < DAY:
                cases.append((spec, r.random() < 0.3, ['T1'], now, late, hits))
    lines, impl, compare = [], [], []
    seen_known = False
    for spec, asp, targets, now_us, late_us, paused_hits in cases:
        tag = 'net.alg'
        sc = {'nodes': [{'tag': tag, 'asp': asp, 'level': 0, 'status': 'initial', 'todo': [], 'doing': [],
                         'events': [{'ref': 1, 'spec': spec}]}],
              'per': [tag], 'que': [], 'booted': [], 'paused': False, 'targets': targets}
        first = us(first_occurrence(spec, from_us(now_us)))
        period = 7 * DAY if spec['kind'] == 'dow' else 62 * DAY
        horizon = max(first, now_us) + 2 * period + DAY
        nxt = us(next_at_or_after(spec, from_us(now_us)))
        slack = late_us + paused_hits * 10 * 10 ** 6   # a paused pipeline retries every 10 s
        rep = {'kind': 'uptime', 'scenario': sc, 'tag': tag, 'now': now_us, 'horizon': horizon,
               'late_us': late_us, 'paused_hits': paused_hits}
        exact = late_us == 0 and paused_hits == 0    # only these are the model's runs
        if HANGS['n'] >= MAX_HANGS:
            res.count('uptime:skipped-after-hangs')
            impl.append(None)
            lines.append(common.sx(['timer', 'uptime', tag, horizon, now_us, sched_sx(sc)]))
            continue
        try:
            fired = run_uptime(rl, res, sc, tag, now_us, horizon, late_us=late_us, paused_near=nxt,
                               paused_hits=paused_hits)
        except Hang:
            HANGS['n'] += 1
            res.hit('C20:defer-hangs', f'{describe(spec)}: defer() does not return in a pipeline booted {from_us(now_us)}', rep)
            fired = ['raised']
        except Exception as e:  # pylint: disable=broad-except
            res.hit('C20:uptime-raises', f'the running pipeline raised {type(e).__name__}: {e}', rep)
            fired = ['raised']
        impl.append(fired if exact else None)
        lines.append(common.sx(['timer', 'uptime', tag, horizon, now_us, sched_sx(sc)]))
        res.case(('uptime', describe(spec), now_us, late_us, paused_hits, tuple(fired)), nontrivial=bool(fired),
                 sample={'event': describe(spec), 'boot': str(from_us(now_us)),
                         'queued_at': [str(from_us(f)) for f in fired if isinstance(f, int)]})
        res.count('uptime:firings=%d' % len(fired) + ('' if exact else ':late-or-paused'))
        if fired == ['raised']:
            continue
        how = '' if exact else (f' (timers served {late_us / 10 ** 6:g} s late, pipeline found paused by '
                                f'{paused_hits} wake-up(s) around the moment)')
        if not fired:
            res.hit('C20:never-fires', f'{describe(spec)}: pipeline up from {from_us(now_us)} for '
                    f'{(horizon - now_us) // DAY} days, the event was never queued (first occurrence {from_us(first)})'
                    + how, rep)
        else:
            if fired[0] > nxt + slack + WINDOW_US + 10 ** 6:
                res.hit('C20:first-firing-off', f'{describe(spec)}: booted {from_us(now_us)}, first queued at '
                        f'{from_us(fired[0])}, more than the firing window after the next occurrence {from_us(nxt)}'
                        + how, rep)
            elif len(fired) < 2:
                if not seen_known or len(str(rep)) < 700:
                    res.hit('C20:no-recurrence', f'{describe(spec)}: pipeline up from {from_us(now_us)} for '
                            f'{(horizon - now_us) // DAY} days, queued at {from_us(fired[0])} and never again', rep)
                seen_known = True
    if ctx['lean']:
        for (case, i, o) in zip(cases, impl, common.driver(lines, 'C20')):
            m = [int(x) for x in common.parse_sx(o)]
            if i is not None and m != i:
                res.diff('Delay.uptime vs defer/complete under the recorded reactor',
                         {'event': describe(case[0]), 'now': case[3]}, m, i)
        res.traces += len(lines)


# ------------------------------------------------------------------ part F: a whole algorithm engine (scan, build, periodics, reload)
AE_INIT = """
import dawgie

class Value(dawgie.Value):
    def __init__(self, v=0):
        dawgie.Value.__init__(self)
        self.v = v
        self._version_ = dawgie.VERSION(1, 0, 0)
    def features(self):
        return []

class StateVector(dawgie.StateVector):
    def __init__(self):
        dawgie.StateVector.__init__(self)
        self['x'] = Value()
        self._version_ = dawgie.VERSION(1, 0, 0)
    def name(self):
        return 'sv'
    def view(self, _caller, visitor):
        return
"""
TASK_INIT = """
import dawgie
import dawgie.base

def analysis(prefix: str, ps_hint: int = 0, runid: int = -1
) -> dawgie.FactoryPlaceholder[dawgie.base.Analysis]:
    raise NotImplementedError('placeholder')

def events() -> dawgie.FactoryPlaceholder[list[dawgie.EVENT]]:
    raise NotImplementedError('placeholder')

def regress(prefix: str, ps_hint: int = 0, target: str = '__none__'
) -> dawgie.FactoryPlaceholder[dawgie.base.Regress]:
    raise NotImplementedError('placeholder')

def task(prefix: str, ps_hint: int = 0, runid: int = -1, target: str = '__none__'
) -> dawgie.FactoryPlaceholder[dawgie.base.Task]:
    raise NotImplementedError('placeholder')
"""
ALG_SRC = """
import %(pkg)s
import datetime
import dawgie

class %(cls)s(dawgie.Algorithm):
    DAWGIE_SCHEDULE = [%(when)s]
    def __init__(self):
        dawgie.Algorithm.__init__(self)
        self._sv = %(pkg)s.StateVector()
        self._version_ = dawgie.VERSION(1, %(minor)d, 0)
    def name(self):
        return '%(name)s'
    def previous(self):
        return []
    def run(self, ds, ps):
        ds.update()
    def state_vectors(self):
        return [self._sv]
"""
ASP_SRC = """
import %(pkg)s
import datetime
import dawgie

class %(cls)s(dawgie.Analyzer):
    DAWGIE_SCHEDULE = [%(when)s]
    def __init__(self):
        dawgie.Analyzer.__init__(self)
        self._sv = %(pkg)s.StateVector()
        self._version_ = dawgie.VERSION(1, %(minor)d, 0)
    def name(self):
        return '%(name)s'
    def traits(self):
        return []
    def run(self, aspects):
        aspects.ds().update()
    def state_vectors(self):
        return [self._sv]
"""
ENGINE_N = {'n': 0}


def _when_src(spec):
    t = spec['time']
    tt = ', time=datetime.time(%d, %d, %d)' % tuple(t) if t else ''
    k = spec['kind']
    if k == 'boot':
        return 'dawgie.schedule(None, None, True)'
    if k == 'dow':
        return 'dawgie.schedule(None, None, dow=%d%s)' % (spec['n'], tt)
    if k == 'dom':
        return 'dawgie.schedule(None, None, dom=%d%s)' % (spec['n'], tt)
    return 'dawgie.schedule(None, None, day=datetime.date(%d, %d, %d)%s)' % (tuple(spec['date']) + (tt,))


class Engine:
    """a synthetic new-style algorithm engine on disk, loaded the way FSM._pipeline() does it:
    scan.for_factories -> schedule.build -> schedule.periodics; the farm is next_job_batch + complete"""

    def __init__(self, rl, desc):
        import os
        import tempfile

        import dawgie.pl.scan

        self.rl, self.desc = rl, desc
        dawgie.pl.scan.REGISTRY.clear()   # every engine stands for a fresh process
        ENGINE_N['n'] += 1
        self.pkg = 'c20ae%d_%d' % (os.getpid(), ENGINE_N['n'])
        self.root = tempfile.mkdtemp(prefix='c20_')
        self.path = os.path.join(self.root, self.pkg)
        os.makedirs(os.path.join(self.path, 'alpha'))
        self._write('__init__.py', AE_INIT)
        self._write('alpha/__init__.py', TASK_INIT)
        for i, a in enumerate(desc['algs']):
            src = ASP_SRC if a['asp'] else ALG_SRC
            self._write('alpha/%s.py' % a['module'], src % {'pkg': self.pkg, 'cls': a['cls'], 'minor': i + 1,
                                                            'name': a['name'], 'when': _when_src(a['spec'])},
                        append=True)
        sys.path.insert(0, self.root)
        self.fired = {}   # tag -> [(instant, todo)]

    def _write(self, rel, text, append=False):
        import os

        with open(os.path.join(self.path, rel), 'at' if append else 'wt', encoding='utf-8') as f:
            f.write(text)

    def close(self):
        import shutil

        if self.root in sys.path:
            sys.path.remove(self.root)
        for k in [k for k in sys.modules if k == self.pkg or k.startswith(self.pkg + '.')]:
            del sys.modules[k]
        shutil.rmtree(self.root, ignore_errors=True)
        self.rl.sched.que, self.rl.sched.per = [], []

    def load(self):
        import dawgie.context
        import dawgie.pl.scan

        d = self.rl.dawgie
        dawgie.context.ae_base_package, dawgie.context.ae_base_path = self.pkg, self.path
        facs = dawgie.pl.scan.for_factories(self.path, self.pkg)
        self.rl.timers = []
        self.rl.sched.build(facs, [{}, {}, {}], [{}, {}, {}, {}])
        self.rl.sched.periodics(facs[d.Factories.events])

    def reload(self):
        import importlib

        for name in sorted(n for n in sys.modules if n == self.pkg or n.startswith(self.pkg + '.')):
            importlib.reload(sys.modules[name])

    def farm(self, t):
        """records what is queued, releases it and answers every unit"""
        sched, State = self.rl.sched, self.rl.State
        newly = []
        for _ in range(10):
            for n in sched.que:
                if len(n.get('todo')):
                    self.fired.setdefault(n.tag, []).append((t, sorted(n.get('todo'))))
                    newly.append(n.tag)
            batch = sched.next_job_batch()
            if not batch:
                break
            for job in batch:
                job.set('status', State.running)
                targets = sorted(job.get('do'))
                job.get('do').clear()
                for x in targets:
                    sched.complete(job, 1, x, {'started': from_us(t)}, State.success)
        return newly


def run_engine(rl, res, desc):
    """desc: {'algs': [{'module','cls','name','asp','spec'}], 'targets', 'start', 'days', 'reloads'}"""
    rep = {'kind': 'engine', 'desc': desc}
    start = desc['start']
    rl.targets = list(desc['targets'])
    rl.sched.booted[:] = []
    rl.sched.pipeline_paused = False
    eng = Engine(rl, desc)
    try:
        rl.clock.now = from_us(start)
        with watchdog(20.0):
            eng.load()
        at_boot = eng.farm(start)
        # a boot event fires once per process: also when the engine is loaded again in the same process
        boots = ['alpha.' + a['name'] for a in desc['algs'] if a['spec']['kind'] == 'boot']
        missing = [b for b in boots if b not in at_boot]
        if missing:
            res.hit('C20:boot-never', f'at boot the boot event(s) of {missing} queued nothing (queued: {sorted(set(at_boot))})', rep)
        t = start
        for k in range(desc.get('reloads', 0)):
            t += 3600 * 10 ** 6
            rl.clock.now = from_us(t)
            with watchdog(20.0):
                eng.reload()
                eng.load()
            again = [x for x in eng.farm(t) if x in boots]
            if again:
                res.hit('C20:boot-refires', f'reload #{k + 1} in the same process queued the boot algorithm(s) '
                        f'{sorted(set(again))} again (they ran at boot: {sorted(set(at_boot))})', rep)
                break
        # every declared timed event reaches the scheduler and is queued at its first moment
        horizon = t + desc['days'] * DAY
        steps = 0
        while rl.timers and steps < 300:
            steps += 1
            delay, cb, cb_args = rl.timers[-1]
            rl.timers = []
            if delay <= 0:
                break
            t += delay * 10 ** 6
            if t > horizon:
                break
            rl.clock.now = from_us(t)
            with watchdog(5.0):
                cb(*cb_args)
            eng.farm(t)
        last_load = start + desc.get('reloads', 0) * 3600 * 10 ** 6   # timers are followed from the last load on
        for a in desc['algs']:
            if a['spec']['kind'] not in ('dow', 'dom'):
                continue
            tag = 'alpha.' + a['name']
            nxt = us(next_at_or_after(a['spec'], from_us(last_load)))
            if nxt + DAY > horizon:
                continue
            got = eng.fired.get(tag, [])
            want = ['__all__'] if a['asp'] else sorted(desc['targets'])
            if not got:
                per = sorted({p.tag for p in rl.sched.per})
                res.hit('C20:never-fires', f'{tag} ({a["module"]}.{a["cls"]}) declares {describe(a["spec"])}; its moment '
                        f'{from_us(nxt)} came while the pipeline was up but the algorithm was never queued '
                        f'(nodes with timer events: {per})', rep)
            elif got[0][0] > nxt + WINDOW_US + 10 ** 6:
                res.hit('C20:first-firing-off', f'{tag}: first queued at {from_us(got[0][0])}, more than the firing window '
                        f'after its moment {from_us(nxt)}', rep)
            elif any(x not in got[0][1] for x in want):
                res.hit('C20:due-not-queued', f'{tag}: queued for {got[0][1]}, expected {want}', rep)
        res.case(('engine', str(desc), str(sorted(eng.fired.items()))), nontrivial=bool(eng.fired),
                 sample={'engine': [a['module'] + '.' + a['cls'] + ':' + describe(a['spec']) for a in desc['algs']],
                         'queued': {k: str(from_us(v[0][0])) for k, v in eng.fired.items()}})
        res.count('engine:algs=%d:reloads=%d' % (len(desc['algs']), desc.get('reloads', 0)))
    except Hang:
        HANGS['n'] += 1
        res.hit('C20:defer-hangs', 'loading or running the engine does not return', rep)
    finally:
        eng.close()


def engine_cases(r, thorough):
    def alg(module, cls, name, spec, asp=False):
        return {'module': module, 'cls': cls, 'name': name, 'asp': asp, 'spec': spec}

    mon = us(_dt.datetime(2024, 5, 6, 12, tzinfo=_dt.UTC))
    out = [
        # boot work, then the engine is updated and loaded again in the same process (twice)
        {'algs': [alg('bot', 'Ingest', 'ingest', mk_spec('boot', time=None)),
                  alg('bot', 'Survey', 'survey', mk_spec('boot', time=None), asp=True)],
         'targets': ['A', 'B'], 'start': mon, 'days': 1, 'reloads': 2},
        # a task package split over modules whose classes happen to share a name
        {'algs': [alg('daily', 'Monitor', 'quicklook', mk_spec('dow', 2, time=(3, 0, 0))),
                  alg('monthly', 'Monitor', 'deepcheck', mk_spec('dom', 1, time=(4, 0, 0))),
                  alg('review', 'Summary', 'summary', mk_spec('dow', 4, time=(5, 0, 0)), asp=True)],
         'targets': ['A', 'B'], 'start': mon, 'days': 40, 'reloads': 0},
        # boot and timed events together, several classes in one module
        {'algs': [alg('bot', 'Ingest', 'ingest', mk_spec('boot', time=None)),
                  alg('bot', 'Monitor', 'weekly', mk_spec('dow', 0, time=(12, 30, 15))),
                  alg('other', 'Monitor', 'midmonth', mk_spec('dom', 15, time=(0, 0, 0)))],
         'targets': ['A'], 'start': mon, 'days': 45, 'reloads': 1},
    ]
    tods = [(0, 0, 0), (3, 0, 0), (12, 30, 15), (22, 0, 0)]
    for _ in range(6 if thorough else 1):
        n = r.choice([2, 3, 4])
        names = r.sample(['Monitor', 'Monitor', 'Engine', 'Engine', 'Check'], n)
        algs = []
        for i, cls in enumerate(names):
            kind = r.choice(['dow', 'dom', 'boot'])
            spec = (mk_spec('boot', time=None) if kind == 'boot' else
                    mk_spec(kind, r.randrange(7) if kind == 'dow' else r.choice([1, 15, 28, 29, 30, 31]), time=r.choice(tods)))
            algs.append(alg('m%d' % i, cls, 'alg%d' % i, spec, asp=r.random() < 0.25))
        out.append({'algs': algs, 'targets': ['A', 'B'][: r.choice([1, 2])],
                    'start': us(_dt.datetime(r.randrange(2023, 2029), r.randrange(1, 13), r.randrange(1, 29),
                                             r.randrange(24), 17, 5, tzinfo=_dt.UTC)),
                    'days': 70, 'reloads': r.choice([0, 1])})
    return out


def load_engine_corpus():
    import json
    import os

    d = os.path.join(common.VERIF, 'corpus', 'C20')
    out = []
    if os.path.isdir(d):
        for f in sorted(os.listdir(d)):
            if f.endswith('.json'):
                c = json.load(open(os.path.join(d, f)))
                if c.get('kind') == 'engine':
                    out.append(c['desc'])
    return out


def part_engine(res, r, thorough):
    rl = real()
    seen = []
    for desc in load_engine_corpus() + engine_cases(r, thorough):
        if desc in seen:
            continue
        seen.append(desc)
        if HANGS['n'] >= MAX_HANGS:
            res.count('engine:skipped-after-hangs')
            continue
        try:
            run_engine(rl, res, desc)
        except Exception as e:  # pylint: disable=broad-except
            res.hit('C20:engine-raises', f'loading / running a compliant engine raised {type(e).__name__}: {e}',
                    {'kind': 'engine', 'desc': desc})


# ------------------------------------------------------------------ part E: generated definitions, calendar
def part_generated(ctx, res, r, thorough):
    import ast

    from tools.translate import _tree, find_def

    defer = find_def(_tree(common.REPO, 'pl/schedule.py'), 'defer')
    test = None
    for n in ast.walk(defer):
        if (isinstance(n, ast.If) and isinstance(n.test, ast.Compare) and getattr(n.test.left, 'id', None) == 'ts'):
            test = n.test
    grid = [-10 ** 9, -1, 0, 1, 29999999, 30000000, 30000001, 299999999, 300000000, 300000001, 300000002,
            2999999999, 3000000000, 3000000001, 10 ** 12]
    py = None
    if test is not None:
        code = compile(ast.Expression(test), 'defer.due', 'eval')
        py = [bool(eval(code, {}, {'ts': _dt.timedelta(microseconds=x).total_seconds()})) for x in grid]  # noqa: S307
    if thorough:
        cal = c18_cal.lines_for(_dt.date(1970, 1, 1), _dt.date(2100, 12, 31))
    else:
        cal = c18_cal.lines_for(_dt.date(2023, 12, 1), _dt.date(2025, 3, 31))
    cal += c18_cal.spot_lines(r, 200 if thorough else 40)
    if not ctx['lean']:
        return
    outs = common.driver([common.sx(['timer', 'due'] + grid)] + [l for _z, _n, l in cal], 'C20')
    model = [x == 'T' for x in common.parse_sx(outs[0])]
    if py is not None and model != py:
        res.diff('Generated.Timer.due vs the window test of defer', {'grid_us': grid}, model, py)
    res.count('due-grid', len(grid))
    for (z0, k, _l), o in zip(cal, outs[1:]):
        c18_cal.compare(res, 'C20', z0, k, o)


# ------------------------------------------------------------------ entry points
def run(ctx, res):
    r = common.rng(ctx['seed'], 'C20')
    thorough = ctx['tier'] == 'thorough' or ctx['escalate']
    res.rule = ('_delay at every 7 h 13 min (quick) / every hour (thorough) of 2023-01-01..2029-01-01 plus the micro-seconds '
                'around every month boundary, for every day-of-week, every day-of-month 1..31, four dates, boot and an '
                'out-of-range/malformed stream, against a datetime oracle and the Lean model; a grid of moments (each of '
                'boot/day/dom/dow/time absent, present or of a wrong type) put to the REAL rule_10 and dawgie.schedule, every '
                'accepted one evaluated with the real _delay; defer on generated schedules '
                '(1-4 nodes, 1-3 events each, all statuses, duplicates in per, paused, 0-3 targets) with the clock placed '
                'around a designated moment (±1 µs, ±0.5 s, 299/300/301 s, hours, days); up-time simulations of the real '
                'defer/complete following the timers they arm (also with timers served 1 s ... minutes late and a pipeline '
                'found paused around the moment); whole synthetic engines on disk through scan.for_factories, schedule.build '
                'and schedule.periodics (same-named classes in several modules, boot work followed by reloads in the same '
                'process); non-trivial = a delay was computed / a node was queued / '
                'the event fired; distinct by canonical observation')
    res.assumptions = list(TRUSTED)
    part_uptime(ctx, res, r, thorough)
    part_engine(res, r, thorough)
    part_defer(ctx, res, r, thorough)
    part_shape(ctx, res)
    part_accepted(res, r)
    part_delay(ctx, res, r, thorough)
    part_generated(ctx, res, r, thorough)


def replay(rep, res):
    _replay(rep, res)
    # only the recorded failure counts (an up-time replay also shows the known non-recurrence)
    if rep.get('sig'):
        res.hits = [h for h in res.hits if h['sig'] == rep['sig']]


def _replay(rep, res):
    rl = real()
    inp = rep['input']
    if inp['kind'] == 'delay':
        _res, hits = _sweep_chunk((inp['spec'], [inp['now']]))
        for sig, what, rp in hits:
            res.hit(sig, what, rp)
    elif inp['kind'] == 'engine':
        run_engine(rl, res, inp['desc'])
    elif inp['kind'] == 'accepted-spec':
        check_accepted(rl, res, inp['fields'], [inp['now']])
    elif inp['kind'] == 'defer':
        run_defer(rl, res, inp['scenario'], inp['now'])
    elif inp['kind'] == 'uptime':
        sc, tag = inp['scenario'], inp['tag']
        spec = sc['nodes'][0]['events'][0]['spec']
        nxt = us(next_at_or_after(spec, from_us(inp['now'])))
        late, hits = inp.get('late_us', 0), inp.get('paused_hits', 0)
        fired = run_uptime(rl, res, sc, tag, inp['now'], inp['horizon'], late_us=late, paused_near=nxt, paused_hits=hits)
        if not fired:
            res.hit('C20:never-fires', f'{describe(spec)}: never queued', inp)
        elif fired[0] > nxt + late + hits * 10 ** 7 + WINDOW_US + 10 ** 6:
            res.hit('C20:first-firing-off', f'{describe(spec)}: first queued at {from_us(fired[0])}', inp)
        elif len(fired) < 2:
            res.hit('C20:no-recurrence', f'{describe(spec)}: queued at {from_us(fired[0])} and never again', inp)
    elif inp['kind'] == 'boot':
        ev = rl.event(mk_spec('boot'), ref=7)
        rl.sched.booted[:] = []
        out = []
        for t in inp['instants']:
            rl.clock.now = from_us(t)
            try:
                out.append(('ok', rl.sched._delay(ev) // c18_cal.US))
            except rl.sched._DelayNotKnowableError:
                out.append(('err', 'notKnowable'))
        if out[0] != ('ok', 0) or any(o != ('err', 'notKnowable') for o in out[1:]):
            res.hit('C20:boot-refires', f'a boot event evaluated repeatedly gave {out}', inp)
