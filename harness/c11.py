"""C11 — real farm (Hand._reg/_process/connectionLost/notify, dispatch, notify_all, clear, crew)
with real worker protocol objects on fake transports, against Model/Farm.lean."""
import json
import pickle
import struct
import types

from . import common
from . import sched_env as E

LEAN_TARGETS = ['DawgieVerif.Model.FarmIO']

MANIFEST = dict(
    text='Lean theorems over Model/Farm.lean (Hand._reg, connectionLost, status poll, notify/notify_all, the assignment loop of dispatch, clear) for every valid history of registrations with matching or stale revision, disconnects, status polls, dispatch ticks, revision changes and activity changes: only_eligible (a task message goes only to a connection that was idle-listed, is connected, holds no task and registered with the current revision, and only while active), archive_tick_aborts (the tick in which dispatch itself fires the archive tells every idle worker to leave), one_task_per_worker, inactive_only_abort (while not active every step writes nothing but abort; a dispatch tick writes nothing), unplaced_stay (handed-out messages ++ queue is a permutation of old queue ++ newly queued), handed_xor_queued (its counting form: every message is handed to exactly one worker or still queued, never both or twice), message_fields and fresh_id_drawn_iff (job, target, run id 0 for regressions, the event run id or a fresh one drawn exactly when none) over the scheduler model. Invariant FInv by induction over op lists. Tied by op-by-op correspondence with the real farm on fake transports (bytes written are decoded with the real message.loads); the monitor checks every written message against the registration/connection/holding state it tracks itself, and farm.crew() against the units handed out and not answered.',
    note='Assumed (ValidRun): one register per connection (a repeated registration followed by a disconnect is exercised by scenarios: every idle-list entry of the connection must go); the life-cycle changes git_rev only while inactive and becomes active again only after farm.clear() (established by C10 for update -> ... -> load). _workers_sort (round robin over hosts) is the identity for one host, which is what the harness uses; insights is empty so _cluster_sort is the stable sort by run id. AWS/cloud placement (_agency) is not modelled. That db.next() exceeds every stored run id is C08. Trusted: Lean kernel, harness fakes.',
    technique='Lean 4 proof: invariant by induction over farm operation histories + differential correspondence',
    design='7/C11',
)

TRUSTED = [
    'worker connections are real pl.farm.Hand protocol objects on fake transports; revisions and activity are set through dawgie.context.git_rev and a fake fsm',
    'all workers share one host (so _workers_sort keeps the order); insights is empty',
]

ALL = E.ALL


def decode(chunks):
    out = []
    for m in E.unframe(chunks):
        if m.type.name == 'task':
            out.append(('task', m.jobid, m.target if m.target else ALL, m.runid, tuple(m.factory)))
        elif m.type.name == 'wait':
            out.append(('wait',))
        elif m.type.name == 'response':
            out.append(('proceed',) if m.success else ('abort',))
        else:
            out.append(('other', m.type.name))
    return out


class World:
    def __init__(self, env, res, algs):
        self.env, self.res, self.algs = env, res, algs
        self.hands = {}        # id -> Hand
        self.seen = {}         # id -> number of decoded messages already consumed
        self.reg_rev = {}      # monitor's own bookkeeping
        self.lost = set()
        self.holding = {}
        self.handed = []       # (tag, target) handed to a worker and not answered
        self.trace = []
        self.model_ops = []
        self.impl_obs = []
        self.rev_num = {'rev0': 0}
        self.next_id = 1
        self.fresh = []        # fresh run ids drawn, in order
        self.event_rid = {}    # tag -> run id carried by the last request for it (None = none)
        self.unput = []        # released by the scheduler, message not yet made (database fault in that tick)
        self.faulted = False
        self.seen_rids = set()
        self.tnum = {ALL: 0}
        for i, t in enumerate(env.targets):
            self.tnum[t] = i + 1
        self.idx = {t: i for i, t in enumerate(env.tags)}
        self.put_log = []
        F = env.F
        orig_put = F._put.__wrapped__ if hasattr(F._put, '__wrapped__') else F._put

        def rec_put(job, runid, target, where):
            self.put_log.append((job.tag, target if target else ALL, runid, job.get('runid')))
            return orig_put(job=job, runid=runid, target=target, where=where)

        rec_put.__wrapped__ = orig_put
        F._put = rec_put

    def hit(self, sig, what):
        self.res.hit('C11:' + sig, what, {'engine': self.algs, 'targets': self.env.targets, 'ops': self.trace})

    def revn(self, rev):
        if rev not in self.rev_num:
            self.rev_num[rev] = len(self.rev_num)
        return self.rev_num[rev]

    def new_hand(self):
        w = self.next_id
        self.next_id += 1
        h = self.env.new_worker()
        self.hands[w] = h
        self.seen[w] = 0
        return w, h

    def send(self, h, **kw):
        M = self.env.M
        msg = M.make(**kw)
        data = pickle.dumps(msg, pickle.HIGHEST_PROTOCOL)
        h.dataReceived(struct.pack('>I', len(data)) + data)

    # ------------------------------------------------------------ collect what was written
    def written(self):
        out = []
        for w, h in self.hands.items():
            msgs = decode(h.transport.written)
            for m in msgs[self.seen[w]:]:
                out.append((w, m))
            self.seen[w] = len(msgs)
        return out

    def observe(self, new_written):
        F = self.env.F
        workers = []
        for h in F._workers:
            for w, hh in self.hands.items():
                if hh is h:
                    workers.append(w)
        cluster = [[m.jobid, m.target if m.target else ALL, m.runid] for m in F._cluster]
        self.impl_obs.append({'workers': workers, 'cluster': cluster, 'busy': list(F._busy),
                              'written': new_written, 'active': self.env.fsm.active})

    def monitor_written(self, new_written, active_before, workers_before, rev_before):
        for w, m in new_written:
            if m[0] == 'task':
                why = []
                if not active_before:
                    why.append('pipeline not active')
                if w not in workers_before:
                    why.append('connection not in the idle list')
                if self.reg_rev.get(w) != rev_before:
                    why.append(f'registered with {self.reg_rev.get(w)} but current revision is {rev_before}')
                if w in self.lost:
                    why.append('connection already lost')
                if w in self.holding:
                    why.append(f'already holds {self.holding[w]}')
                if why:
                    self.hit('ineligible-worker', f'task {m[1]}[{m[2]}] sent to connection {w}: ' + '; '.join(why))
                self.holding[w] = (m[1], m[2])
                self.handed.append((m[1], m[2]))
            elif not active_before and m[0] != 'abort':
                self.hit('not-told-to-leave', f'{m[0]} written to connection {w} while the pipeline is not active')

    def check_crew(self):
        busy = sorted(b.split(' duration')[0] for b in self.env.F.crew()['busy'])
        want = sorted(f'{t}[{tg}]' for t, tg in self.handed)
        if busy != want:
            self.hit('crew-view', f'crew busy view {busy} differs from the units handed out and not answered {want}')

    # ------------------------------------------------------------ operations
    def step(self, op):
        env, F = self.env, self.env.F
        d = env.dawgie
        active_before = env.fsm.active
        workers_before = [w for h in F._workers for w, hh in self.hands.items() if hh is h]
        rev_before = d.context.git_rev
        cluster_before = [(m.jobid, m.target if m.target else ALL, m.runid) for m in F._cluster]
        self.put_log.clear()
        kind = op[0]
        if kind == 'reg':
            w, h = self.new_hand()
            rev = rev_before if op[1] else 'stale-' + rev_before
            self.send(h, typ=env.M.Type.register, inc=op[2] if len(op) > 2 else 1, rev=rev)
            if h in F._workers:
                self.reg_rev[w] = rev
            if h.transport.closed:
                self.lost.add(w)
            self.model_ops.append(['reg', w, self.revn(rev)])
        elif kind == 'rereg':
            # outside ValidRun (one register per connection): an idle registered connection repeats its
            # registration.  The code tolerates it (connectionLost removes every entry); the scenarios
            # using it drop the connection before the next tick, so that no clause of the property is
            # in question on conforming code while a partial removal shows as a task to a dead worker.
            idle = [w for h in F._workers for w, hh in self.hands.items() if hh is h and w not in self.lost]
            if not idle:
                return
            w = idle[0]
            self.send(self.hands[w], typ=env.M.Type.register, inc=1, rev=rev_before)
            self.model_ops.append(['reg', w, self.revn(rev_before)])
        elif kind == 'disc':
            live = [w for w in self.hands if w not in self.lost]
            if not live:
                return
            w = live[int(op[1] * len(live)) % len(live)]
            self.hands[w].connectionLost(None)
            self.lost.add(w)
            self.model_ops.append(['disc', w])
        elif kind == 'status':
            w, h = self.new_hand()
            rev = rev_before if op[1] else 'stale-' + rev_before
            self.send(h, typ=env.M.Type.status, rev=rev)
            self.lost.add(w)
            self.model_ops.append(['status', w, self.revn(rev)])
        elif kind == 'org':
            # the run id of a unit: the id its request carried; work that is still pending is merged
            # into one run -- a request for a fresh id (None) wins, else the newer id (never an older run)
            pending = {t: bool(env.nodes[t].get('todo')) for t in op[1] if t in env.nodes}
            env.organize(op[1], op[2], op[3])
            for t in op[1]:
                if pending.get(t):
                    was = self.event_rid.get(t)
                    self.event_rid[t] = None if (was is None or op[2] is None) else max(was, op[2])
                    pending[t] = True
                else:
                    self.event_rid[t] = op[2]
                    pending[t] = True   # a name listed twice meets its own pending work
            self.trace.append(list(op))
            return
        elif kind == 'dbfail':
            # the next db.next() raises (database outage during a tick): monitors only
            env.fail_next_db = True
            self.faulted = True
            self.trace.append(list(op))
            return
        elif kind == 'disp':
            n_rel = len(env.released_log)
            fault_tick = bool(getattr(env, 'fail_next_db', False))
            # what every connection had been sent at the moment the tick itself fired the archive
            mark = {}
            env.fsm.on_archive = lambda: mark.update({w: len(decode(h.transport.written))
                                                     for w, h in self.hands.items()})
            try:
                env.dispatch()
            finally:
                env.fsm.on_archive = None
            if mark:
                for w, h in self.hands.items():
                    for m in decode(h.transport.written)[mark.get(w, 0):]:
                        if m[0] == 'task':
                            self.hit('ineligible-worker',
                                     f'task {m[1]}[{m[2]}] sent to connection {w} after this very tick had fired the '
                                     f'archive: the pipeline was no longer active')
            new = [[self.idx[t], self.tnum[tg], rid] for t, tg, rid, _nr in self.put_log]
            # every task message is made for a unit the scheduler released (this tick, or an earlier tick that a
            # database fault cut short) and every released unit gets its message: nothing is made up, nothing is lost
            released = [(tag, tg) for batch in env.released_log[n_rel:] for tag, do in batch for tg in do]
            puts = [(tag, tg) for tag, tg, _rid, _nr in self.put_log]
            if not fault_tick:
                expect = sorted(released + self.unput)
                if sorted(puts) != expect:
                    extra = sorted(set(puts) - set(expect))
                    lost = sorted(set(expect) - set(puts))
                    if extra:
                        self.hit('message-fields',
                                 f'task messages made for {extra}, which the scheduler did not release (released: '
                                 f'{sorted(released)})')
                    if lost:
                        self.hit('task-lost-or-duplicated',
                                 f'the scheduler released {lost} but no task message was made for them')
                    if not extra and not lost:
                        self.hit('task-lost-or-duplicated', f'task messages {sorted(puts)} for released units {expect}')
                self.unput = []
            else:
                self.unput = sorted(set(released + self.unput) - set(puts))
            # message fields: run id 0 for regressions, else the id the triggering event carried,
            # else ONE fresh id per job and tick, strictly larger than every id used before
            per_job = {}
            for tag, tg, rid, _node_rid in self.put_log:
                per_job.setdefault(tag, set()).add(rid)
            tick_fresh = []
            for tag, rids in per_job.items():
                a = self.algs[self.idx[tag]]
                ev = self.event_rid.get(tag)
                if a['kind'] == 'regress':
                    if rids != {0}:
                        self.hit('message-fields', f'regression {tag} queued with run ids {sorted(rids)} (expected 0)')
                elif ev is not None:
                    if rids != {ev}:
                        self.hit('message-fields', f'{tag} queued with run ids {sorted(rids)}, its event carried {ev}')
                else:
                    if len(rids) != 1:
                        self.hit('message-fields', f'{tag} drew several run ids in one tick: {sorted(rids)}')
                    rid = min(rids)
                    if self.fresh and rid <= max(self.fresh):
                        self.hit('message-fields',
                                 f'the event behind {tag} carried no run id but run id {rid} is not a fresh '
                                 f'draw (ids drawn so far: {self.fresh[-4:]})')
                    if rid in tick_fresh:
                        self.hit('message-fields', f'two jobs drew the same fresh run id {rid} in one tick')
                    tick_fresh.append(rid)
            self.fresh.extend(tick_fresh)
            for _tag, rids in per_job.items():
                self.seen_rids |= {r for r in rids if r}
            self.model_ops.append(['disp', new])
        elif kind == 'notify':
            F.notify_all()
            self.model_ops.append(['notify'])
        elif kind == 'reply':
            if not self.handed:
                return
            tag, tg = self.handed[int(op[1] * len(self.handed)) % len(self.handed)]
            w, h = self.new_hand()
            self.send(h, typ=env.M.Type.response, inc=None if tg == ALL else tg, jid=tag, rid=1,
                      suc=True, tim={'started': 'x'}, val=[])
            self.lost.add(w)
            while (tag, tg) in self.handed:
                self.handed.remove((tag, tg))
            self.model_ops.append(['reply', self.idx[tag], self.tnum[tg]])
        elif kind == 'setrev':
            if env.fsm.active:
                return
            d.context.git_rev = op[1]
            self.model_ops.append(['setrev', self.revn(op[1])])
            self.stale = True
        elif kind == 'clear':
            F.clear()
            self.handed.clear()
            self.model_ops.append(['clear'])
            self.stale = False
        elif kind == 'archive':
            F.ARCHIVE = bool(op[1])
            self.model_ops.append(['archive', bool(op[1])])
        elif kind == 'active':
            if op[1] and getattr(self, 'stale', False):
                return
            env.fsm.active = op[1]
            self.model_ops.append(['active', bool(op[1])])
        self.trace.append(list(op))
        new_written = self.written()
        for w, h in self.hands.items():
            if h.transport.closed:
                self.lost.add(w)
        self.monitor_written(new_written, active_before, workers_before, rev_before)
        # tasks that cannot be placed stay queued
        if kind == 'disp' and active_before:
            placed = [(m[1], m[2], m[3]) for _w, m in new_written if m[0] == 'task']
            new = [(t, tg, rid) for t, tg, rid, _ in self.put_log]
            after = [(m.jobid, m.target if m.target else ALL, m.runid) for m in F._cluster]
            if sorted(placed + after) != sorted(cluster_before + new):
                self.hit('task-lost-or-duplicated',
                         f'queue {cluster_before} + new {new} != placed {placed} + queue after {after}')
            # each message is the one its unit was made for
            for w, m in new_written:
                if m[0] == 'task':
                    a = self.algs[self.idx[m[1]]]
                    fac = (f"{env.pkg}.{a['task']}", a['kind'])
                    if m[4] != fac:
                        self.hit('message-fields', f'{m[1]}[{m[2]}] carries factory {m[4]}, expected {fac}')
        if kind == 'disp' and active_before and not env.fsm.active:
            # this tick itself turned the pipeline inactive (archive): idle workers must be told to leave
            told = {w for w, m in new_written if m[0] == 'abort'}
            for w in workers_before:
                if w not in told and w not in self.holding:
                    self.hit('not-told-to-leave',
                             f'dispatch made the pipeline inactive but idle connection {w} was not told to leave')
            if F._workers:
                self.hit('not-told-to-leave', 'idle workers remain registered after the pipeline became inactive')
        self.check_crew()
        self.observe(new_written)


def gen_ops(r, env, n):
    ops = [('active', True)]
    revs = ['rev0']
    for _ in range(n):
        x = r.random()
        if x < 0.22:
            ops.append(('reg', r.random() < 0.8, r.choice([0, 0, 1, 2])))
        elif x < 0.30:
            ops.append(('disc', r.random()))
        elif x < 0.36:
            ops.append(('status', r.random() < 0.7))
        elif x < 0.52:
            names = r.sample(env.tags, r.choice([1, 1, 2]) if len(env.tags) > 1 else 1)
            tg = r.sample(env.targets, r.randrange(1, len(env.targets) + 1)) if env.targets else []
            ops.append(('org', names, r.choice([None, None, 4, 6]), tg))
        elif x < 0.72:
            ops.append(('disp',))
        elif x < 0.76:
            ops.append(('notify',))
        elif x < 0.88:
            ops.append(('reply', r.random()))
        elif x < 0.92:
            ops.append(('active', False))
            if r.random() < 0.6:
                revs.append(f'rev{len(revs)}')
                ops.append(('setrev', revs[-1]))
                if r.random() < 0.5:
                    ops.append(('reg', True))
                ops.append(('notify',))
                ops.append(('clear',))
            ops.append(('active', True))
        elif x < 0.96:
            ops.append(('archive', r.random() < 0.7))
        else:
            ops.append(('active', r.random() < 0.7))
    return ops


def scenarios(env):
    """deterministic histories (run first)"""
    tags, tg = env.tags, env.targets
    out = []
    # partial availability: the same node is released in two ticks for one request without run id
    out.append([('active', True), ('reg', True, 0), ('reg', True, 1), ('org', list(tags), None, list(tg)),
                ('disp',), ('reply', 0.0), ('disp',), ('reg', True, 2), ('reply', 0.0), ('disp',),
                ('reply', 0.0), ('disp',), ('reply', 0.0), ('disp',)])
    # a worker registered with incarnation 0 drops its connection while idle, then a task arrives
    out.append([('active', True), ('reg', True, 0), ('disc', 0.0), ('org', [tags[0]], None, list(tg)), ('disp',),
                ('reg', True, 0), ('disp',)])
    # the tick that fires the archive: new data armed, nothing queued or busy, workers waiting
    out.append([('active', True), ('reg', True, 1), ('reg', True, 0), ('archive', True), ('disp',), ('disp',),
                ('active', True), ('archive', False), ('reg', True, 1), ('disp',)])
    # new data armed while units still wait for a worker: fewer workers than units on the first tick, the busy
    # worker answers and registers again, the next tick must place the waiting unit, not start the archive
    out.append([('active', True), ('reg', True, 0), ('org', list(tags), None, list(tg)), ('disp',), ('reply', 0.0),
                ('archive', True), ('reg', True, 0), ('disp',), ('reply', 0.0), ('reg', True, 0), ('disp',), ('disp',)])
    out.append([('active', True), ('reg', True, 0), ('reg', True, 1), ('org', list(tags), 3, list(tg)), ('disp',),
                ('archive', True), ('reply', 0.0), ('reg', True, 1), ('disp',), ('reply', 0.0), ('disp',)])
    # a database outage during the tick that hands a job over: the next tick must make its messages
    out.append([('active', True), ('reg', True, 0), ('reg', True, 1), ('org', list(tags), None, list(tg)), ('dbfail',),
                ('disp',), ('disp',), ('reply', 0.0), ('disp',), ('disp',)])
    # the same job is released twice while its first targets are still executing
    if len(tg) > 1:
        out.append([('active', True), ('reg', True, 0), ('reg', True, 1), ('reg', True, 2),
                    ('org', [tags[0]], None, [tg[0]]), ('disp',), ('org', [tags[0]], None, [tg[1]]), ('disp',),
                    ('disp',)])
    # a connection that registered twice drops: every idle-list entry of it must go, the task stays queued
    out.append([('active', True), ('reg', True, 0), ('rereg',), ('disc', 0.0), ('org', [tags[0]], None, list(tg)),
                ('disp',), ('disp',), ('reg', True, 0), ('disp',)])
    out.append([('active', True), ('reg', True, 0), ('rereg',), ('rereg',), ('disc', 0.0), ('reg', True, 1),
                ('org', list(tags), None, list(tg)), ('disp',), ('disp',)])
    # reload: stale workers must not get work after the revision changed
    out.append([('active', True), ('reg', True, 1), ('active', False), ('setrev', 'rev1'), ('notify',), ('clear',),
                ('active', True), ('reg', True, 1), ('reg', False, 1), ('org', [tags[0]], 4, list(tg)), ('disp',)])
    return out


def run_history(env, res, algs, ops, lines, pending):
    env.fresh()
    env.fsm.archive_stops = True
    env.dawgie.context.git_rev = 'rev0'
    wld = World(env, res, algs)
    for op in ops:
        wld.step(op)
    if not wld.faulted:     # a database outage is not in the model: monitors only
        lines.append(common.sx(['farm', 'run', 0, wld.model_ops]))
        pending.append((env, wld))
    nontrivial = any(m[0] == 'task' for o in wld.impl_obs for _w, m in o['written'])
    res.case(json.dumps(wld.trace, default=str), nontrivial=nontrivial,
             sample={'ops': wld.trace[:14]})
    for t in wld.trace:
        res.count('op:' + t[0])


def compare(res, env, wld, out):
    m = common.parse_sx(out)
    if isinstance(m, list) and m and m[0] == 'bad-op':
        res.diff('Farm driver rejected the case', {'ops': wld.trace}, out, None)
        return
    if len(m) != len(wld.impl_obs):
        res.diff('Farm.run length', {'ops': wld.trace}, len(m), len(wld.impl_obs))
        return
    tname = {0: ALL}
    for i, t in enumerate(env.targets):
        tname[i + 1] = t

    def msg(x):
        return [env.tags[int(x[0])], tname[int(x[1])], int(x[2])]

    for k, (mo, io) in enumerate(zip(m, wld.impl_obs)):
        workers, cluster, busy, log, mactive = mo
        mw = [int(w) for w in workers]
        mc = [msg(x) for x in cluster]
        mb = [f'{env.tags[int(j)]}[{tname[int(t)]}]' for j, t in busy]
        ml = []
        for w, x in log:
            if isinstance(x, list):
                ml.append((int(w), ('task', *msg(x[1]))))
            else:
                ml.append((int(w), (x,)))
        il = [(w, mm[:4] if mm[0] == 'task' else mm) for w, mm in io['written']]
        mism = None
        if (mactive == 'T') != bool(io['active']):
            mism = ('pipeline active', mactive, io['active'])
        elif mw != io['workers']:
            mism = ('idle workers', mw, io['workers'])
        elif mc != io['cluster']:
            mism = ('queued messages', mc, io['cluster'])
        elif mb != io['busy']:
            mism = ('busy list', mb, io['busy'])
        elif sorted(ml) != sorted((w, tuple(x)) for w, x in il):
            mism = ('messages written', sorted(ml), sorted(il))
        if mism:
            res.diff(f'Farm.step vs pl.farm at op {k} ({mism[0]})',
                     {'ops': wld.trace, 'op': wld.model_ops[k] if k < len(wld.model_ops) else None},
                     mism[1], mism[2])
            return


def engine(r):
    from . import sched_run
    if r.random() < 0.5:
        name = r.choice(['chain3', 'two-roots', 'short-long-a', 'fork-analysis', 'regress-leaf'])
        return [dict(a) for a in sched_run.SHAPES[name]]
    n = r.choice([1, 2, 3])
    algs = []
    for i in range(n):
        kind = r.choice(['task', 'task', 'task', 'regress', 'analysis']) if i else 'task'
        algs.append({'task': f't{i}', 'name': f'a{i}', 'kind': kind, 'values': ['v0'], 'inputs': [],
                     'feedback': []})
    return algs


def run(ctx, res):
    import io
    import logging
    import sys

    logging.disable(logging.CRITICAL)
    r = common.rng(ctx['seed'], 'C11')
    thorough = ctx['tier'] == 'thorough' or ctx['escalate']
    res.rule = ('engines of 1-3 independent algorithms (task/regress/analysis), 1-4 targets; histories of worker '
                'registrations (matching/stale revision), disconnects, status polls, run requests, dispatch ticks, '
                'notify_all, replies, activity changes and reload sequences (inactive, new revision, notify, clear, '
                'active); every byte written to every fake worker transport is decoded with the real message '
                'loader; non-trivial = at least one task message written; distinct by op trace')
    res.assumptions = list(TRUSTED)
    lines, pending, envs = [], [], []
    for _ in range(250 if thorough else 8):
        algs = engine(r)
        targets = [f'T{i + 1}' for i in range(r.choice([1, 2, 3, 4]))]
        old = sys.stdout
        sys.stdout = io.StringIO()
        try:
            env = E.Env(algs, targets)
        finally:
            sys.stdout = old
        envs.append(env)
        for ops in scenarios(env):
            run_history(env, res, algs, ops, lines, pending)
        for _h in range(16 if thorough else 5):
            run_history(env, res, algs, gen_ops(r, env, r.choice([10, 20, 40])), lines, pending)
    if ctx['lean']:
        outs = common.driver(lines, 'C11')
        for (env, wld), o in zip(pending, outs):
            compare(res, env, wld, o)
        res.traces = len(outs)
    for env in envs:
        env.close()


def replay(rep, res):
    import logging

    logging.disable(logging.CRITICAL)
    inp = rep['input']
    algs = [dict(a, inputs=[tuple(i) for i in a['inputs']], feedback=[]) for a in inp['engine']]
    env = E.Env(algs, inp['targets'])
    try:
        env.fresh()
        env.fsm.archive_stops = True
        env.dawgie.context.git_rev = 'rev0'
        wld = World(env, res, algs)
        for op in inp['ops']:
            wld.step(tuple(op))
    finally:
        env.close()
