"""C05 end to end -- failures and invalid data through the REAL worker.

harness/c02_e2e.py's World (real scanner, Construct, scheduler, farm, shelve store) with the real
`pl.worker.cluster.execute` on in-memory sockets: the task message goes in, the algorithm ends the way
the harness chose (RuntimeError, NoValidInputDataError, NoValidOutputDataError, sys.exit(), KeyboardInterrupt),
the worker's own exception handling decides what it answers, the answer reaches the real
`farm.Hand.dataReceived`, which books it (`schedule.complete`, `schedule.purge`).

Monitor (independent of the Lean model), around the farm's handling of every non-success answer of (X, T):
 * the outcome is recorded: exactly one history entry for (X, T, run id) with status failure / invalid as
   the way the run ended demands (any exception -> failure; the two invalid-data errors -> invalid);
 * T is withdrawn from the pending work of every transitive dependent of X;
 * nothing else changes: other targets of those dependents, every algorithm that does not depend on X,
   and what anybody is executing stay as they were; no pending work appears anywhere.
A run that ends without any answer reaching the farm (the worker died silently) is reported too."""
import collections
import logging
import random
import warnings

from . import c02_e2e, common

SIGS = ('C05:e2e-outcome-not-recorded', 'C05:e2e-not-withdrawn', 'C05:e2e-frame-changed', 'C05:e2e-no-answer',
        'C05:e2e-no-quiescence')
ENDING = {'runtime': 'error', 'exit': 'exit', 'interrupt': 'interrupt', 'invalid-in': 'invalidIn',
          'invalid-out': 'invalidOut'}
KINDS = {'runtime': 'failure', 'exit': 'failure', 'interrupt': 'failure', 'invalid-in': 'invalid',
         'invalid-out': 'invalid'}


def closure_down(algs):
    tags = [c02_e2e.tag_of(a) for a in algs]
    direct = {t: set() for t in tags}
    for a in algs:
        for j, _v in a['inputs']:
            direct[tags[j]].add(c02_e2e.tag_of(a))
    down = {}
    for t in tags:
        seen, stack = set(), [t]
        while stack:
            for c in direct[stack.pop()]:
                if c not in seen:
                    seen.add(c)
                    stack.append(c)
        down[t] = seen
    return down


def run_scenario(store, sc, seed, res, probe=None, want=('C05',)):
    warnings.simplefilter('ignore')
    logging.disable(logging.CRITICAL)
    algs, targets = sc['algs'], sc['targets']
    w = c02_e2e.World(store, algs, targets, random.Random(f'{seed}:c05'))
    w.want = set(want)      # the World's own monitors (C01 / C03 / C04 clauses) report for these
    down = closure_down(algs)
    hits, plan, answers = [], {}, []
    stats = collections.Counter()

    def on_result(world, m, r, before, after, hist):
        unit = (m.jobid, m.target or '__all__')
        kind = plan.pop(unit, None)
        if kind is None:
            return
        tag, t = unit
        want = KINDS[kind]
        stats['ended:' + kind] += 1
        # what the real worker answered for this ending (for the correspondence with Model/Worker)
        real = 'none' if r is None or r.type.name != 'response' else {True: 'success', False: 'failure', None: 'invalid'}[r.success]
        answers.append((ENDING[kind], real))
        if r is None:
            hits.append(('C05:e2e-no-answer',
                         f'{tag}[{t}] ended with {kind} and the worker sent no answer to the farm: nothing is recorded, '
                         f'nothing is withdrawn, the unit stays executing for ever'))
            return
        mine = [e for e in hist if e['task'] == tag and e['target'] == t]
        if len(mine) != 1 or mine[0]['status'] != want or mine[0]['runid'] != m.runid:
            hits.append(('C05:e2e-outcome-not-recorded',
                         f'{tag}[{t}] (run {m.runid}) ended with {kind}: expected one history entry with status {want}, '
                         f'got {[(e["status"], e["runid"]) for e in mine]}'))
        for x, (todo_a, doing_a, _st) in after['nodes'].items():
            todo_b, doing_b, _sb = before['nodes'][x]
            if x in down[tag]:
                if t in todo_a:
                    hits.append(('C05:e2e-not-withdrawn', f'{x} still has {t} pending after {tag}[{t}] ended with {kind}'))
                if sorted(set(todo_b) - {t}) != sorted(set(todo_a) - {t}) or doing_a != doing_b:
                    hits.append(('C05:e2e-frame-changed',
                                 f'dependent {x}: pending {todo_b} -> {todo_a}, executing {doing_b} -> {doing_a} when '
                                 f'{tag}[{t}] ended with {kind} (only {t} may leave the pending work)'))
            elif x == tag:
                # X's own pending T (a request that arrived while T was executing) is withdrawn by the same
                # purge; the property constrains the OTHER targets of X
                if sorted(set(todo_b) - {t}) != sorted(set(todo_a) - {t}) or sorted(set(doing_b) - {t}) != sorted(doing_a):
                    hits.append(('C05:e2e-frame-changed',
                                 f'{x}: pending {todo_b} -> {todo_a}, executing {doing_b} -> {doing_a} when its unit {t} '
                                 f'ended with {kind}'))
            elif (todo_a, doing_a) != (todo_b, doing_b):
                hits.append(('C05:e2e-frame-changed',
                             f'{x} does not depend on {tag} but changed: pending {todo_b} -> {todo_a}, executing '
                             f'{doing_b} -> {doing_a}'))

    w.on_result = on_result
    try:
        w.organize([c02_e2e.tag_of(a) for a in algs], targets)
        if 'script' in sc:
            # explicit interleaving: ('tick',), ('work', tag, target), ('bump', tag, target),
            # ('fail', tag, target, kind) = the next run of that unit ends that way
            for st in sc['script']:
                if st[0] == 'fail':
                    plan[(st[1], st[2])] = st[3]
                    w.ctl.FAIL[(st[1], st[2])] = st[3]
                else:
                    w.script([tuple(st)])
            if probe is not None:
                probe(w, plan)
            if not w.drain():
                for prop in ('C04', 'C05'):
                    hits.append((f'{prop}:e2e-no-quiescence',
                             f'the pipeline does not come to rest: pending {w.pending()}, queued {len(w.tasks)}'))
            else:
                w.check_idle()
            stats['worker-deaths'] += len(w.worker_deaths)
            stats['executions'] = len(w.executed)
            stats['answers'] = answers
            return [h for h in hits if h[0][:3] in w.want] + list(w.problems), stats
        w.drain()
        for tag, t, kind in sc['failures']:
            # the unit and everything below it is requested; the unit itself will end as planned
            below = sorted(down[tag])
            plan[(tag, t)] = kind
            w.ctl.FAIL[(tag, t)] = kind
            w.organize([tag] + below, [t] if t != '__all__' else list(targets))
            w.drain()
            plan.pop((tag, t), None)
            w.ctl.FAIL.pop((tag, t), None)
        w.check_idle()
        stats['worker-deaths'] += len(w.worker_deaths)
        stats['answers'] = answers + [('ok', 'success')] * min(1, len(w.executed))
        return [h for h in hits if h[0][:3] in w.want] + list(w.problems), stats
    finally:
        w.close()
        logging.disable(logging.NOTSET)


def gen(r, small):
    sc = c02_e2e.gen_scenario(r, small=small, aspects=r.random() < 0.4)
    sc['algs'] = [dict(a, checkpoint=False) for a in sc['algs']]
    down = closure_down(sc['algs'])
    inner = [c02_e2e.tag_of(a) for a in sc['algs'] if down[c02_e2e.tag_of(a)]] or [c02_e2e.tag_of(sc['algs'][0])]
    kinds = {c02_e2e.tag_of(a): c02_e2e.kind_of(a) for a in sc['algs']}
    fails = []
    for _ in range(r.choice([2, 3, 4])):
        tag = r.choice(inner)
        t = '__all__' if kinds[tag] == 'analysis' else r.choice(sc['targets'])
        fails.append([tag, t, r.choice(list(KINDS))])
    sc['failures'] = fails
    return sc


def corpus():
    base = c02_e2e.overlap_shape()
    base = {'algs': base['algs'], 'targets': ['T1', 'T2']}
    out = []
    for kind in KINDS:
        out.append(dict(base, failures=[['demo.R', 'T1', kind], ['demo.B', 'T2', kind]]))
    asp = c02_e2e.aspect_shape()
    out.append({'algs': asp['algs'], 'targets': asp['targets'],
                'failures': [['demo.B', 'T1', 'runtime'], ['agg.A', '__all__', 'exit'], ['demo.R', 'T2', 'invalid-in']]})
    return out


def _small_task(args):
    name, prefix, seed, max_bumps, max_fails, want = args
    from .c08_store import Store
    global _SMALL_STORE  # pylint: disable=global-statement
    try:
        store = _SMALL_STORE
    except NameError:
        store = _SMALL_STORE = Store()
        store.install_loopback()
    algs, targets = c02_e2e.SMALL[name]
    sc = {'algs': algs, 'targets': targets, 'script': [list(s) for s in prefix]}
    avail = []

    def probe(w, plan):
        if sum(1 for s in prefix if s[0] == 'bump') < max_bumps:
            for tag in sorted(w.roots):
                for t in targets:
                    avail.append(('bump', tag, t))
        if not prefix or prefix[-1][0] != 'tick':
            avail.append(('tick',))
        for m in sorted(w.tasks, key=lambda m: (m.jobid, m.target or '__all__')):
            a = ('work', m.jobid, m.target or '__all__')
            if a not in avail:
                avail.append(a)
            if sum(1 for s in prefix if s[0] == 'fail') < max_fails and (m.jobid, m.target or '__all__') not in plan:
                for kind in ('runtime', 'invalid-in'):
                    avail.append(('fail', m.jobid, m.target or '__all__', kind))

    hits, stats = run_scenario(store, c02_e2e._norm(sc), seed, None, probe=probe, want=want)  # pylint: disable=protected-access
    return name, prefix, avail, hits, stats.get('executions', 0)


def exhaustive(ctx, res, depth=6, max_bumps=1, max_fails=2, want=('C05',)):
    """every sequence of {new source data, tick, let one waiting unit run, make the next run of a waiting unit
    fail / report invalid data} up to `depth` on the small engines of c02_e2e, then run to rest"""
    import multiprocessing

    frontier = [(name, ()) for name in c02_e2e.SMALL]
    with multiprocessing.Pool(16) as pool:
        for level in range(depth + 1):
            jobs = [(name, prefix, ctx['seed'], max_bumps, max_fails, tuple(want)) for name, prefix in frontier]
            nxt = []
            for name, prefix, avail, hits, execs in pool.imap_unordered(_small_task, jobs, chunksize=8):
                sc = {'algs': c02_e2e.SMALL[name][0], 'targets': c02_e2e.SMALL[name][1],
                      'script': [list(s) for s in prefix]}
                for sig, what in hits:
                    res.hit(sig, what, {'kind': 'e2e', 'scenario': sc, 'seed': ctx['seed']})
                res.case(('c05-small', name, prefix), nontrivial=any(s[0] == 'fail' for s in prefix) and execs > 2)
                res.count('e2e-small:histories')
                res.count(f'e2e-small:depth-{level}')
                if level < depth:
                    nxt.extend((name, prefix + (a,)) for a in avail)
            frontier = nxt


def run(ctx, res, want=('C05',)):
    from .c08_store import Store
    store = Store()
    store.install_loopback()
    r = common.rng(ctx['seed'], 'C05e2e')
    thorough = ctx['tier'] == 'thorough' or ctx.get('escalate')
    scenarios = corpus() + [gen(r, small=not thorough) for _ in range(60 if thorough else 4)]
    observed = []
    for i, sc in enumerate(scenarios):
        hits, stats = run_scenario(store, c02_e2e._norm(sc), ctx['seed'], res, want=want)  # pylint: disable=protected-access
        for sig, what in hits:
            res.hit(sig, what, {'kind': 'e2e-fail', 'scenario': sc, 'seed': ctx['seed'], 'want': sorted(want)})
        res.case(('c05-e2e', repr(sc)), nontrivial=bool(sc['failures']),
                 sample={'e2e': sc} if i == 0 else None)
        res.count('e2e:scenario')
        observed.extend(stats.pop('answers', []))
        for k, v in stats.items():
            res.count('e2e:' + k, v)
    # correspondence: the regenerated clause table of cluster.execute (Model/Worker + Generated/WorkerGen) against
    # what the real worker answered for every ending it was driven into
    if ctx.get('lean') and observed and 'C05' in want:
        pairs = sorted(set(observed))
        outs = common.driver([common.sx(['worker', e]) for e, _r in pairs], 'Sched')
        for (e, real), o in zip(pairs, outs):
            res.traces += 1
            res.count('model:worker-ending:' + e)
            if o.strip() != real:
                res.diff('Worker.answer vs pl.worker.cluster.execute', {'ending': e}, o.strip(), real)
    if 'C05' in want:
        hand_correspondence(ctx, res)
    if thorough:
        import os
        exhaustive(ctx, res, depth=int(os.environ.get('VERIF_C05_DEPTH', '5')) - (0 if 'C05' in want else 1), want=want)
    res.assumptions.append('C05 end to end: the real pl.worker.cluster.execute on in-memory sockets; signal handler, '
                           'context overrides, logging hand-over and db.reopen/close of the worker are stubbed')


WIRE = [('yes', True), ('no', False), ('none', None), ('yes', 1), ('no', 0), ('yes', 'x'), ('no', ''),
        ('yes', [0]), ('no', [])]


def hand_calls(suc, known=True):
    """the REAL farm.Hand._res on an answer with `success=suc`: the state it books and the scheduler calls
    it makes, in order (schedule.find/complete/update/purge replaced by recorders)"""
    import dawgie.pl.farm
    import dawgie.pl.message
    import dawgie.pl.schedule as S
    logging.disable(logging.CRITICAL)
    calls, state = [], []
    orig = {n: getattr(S, n) for n in ('find', 'complete', 'update', 'purge')}
    arch = dawgie.pl.farm.ARCHIVE

    def find(jobid):
        if not known:
            raise IndexError(jobid)
        return ('job', jobid)
    S.find = find
    S.complete = lambda job, runid, inc, timing, st: (calls.append('complete'), state.append(st.name))
    S.update = lambda values, job, runid: calls.append('update')
    S.purge = lambda job, inc: calls.append('purge')
    try:
        m = dawgie.pl.message.make(typ=dawgie.pl.message.Type.response, jid='a.b', inc='T', rid=3, suc=suc,
                                   tim={}, val=[True])
        dawgie.pl.farm.Hand._res(m)  # pylint: disable=protected-access
    finally:
        for n, f in orig.items():
            setattr(S, n, f)
        dawgie.pl.farm.ARCHIVE = arch
    return (state[0] if state else '-'), calls


def hand_correspondence(ctx, res):
    """the regenerated tables of farm.Hand._translate/_res (Model/Hand + Generated/HandGen) against the real
    functions, for every kind of wire value; plus: an answer for a job the scheduler does not know books nothing"""
    real = [(k, repr(v), hand_calls(v)) for k, v in WIRE]
    for k, v, (st, calls) in real:
        if 'complete' not in calls[:1]:
            res.hit('C05:e2e-outcome-not-recorded', f'farm.Hand._res(success={v}) makes the scheduler calls {calls}: '
                    'the outcome is not booked first', {'kind': 'hand', 'success': v})
        if k != 'yes' and ('purge' not in calls or 'update' in calls):
            res.hit('C05:e2e-not-withdrawn', f'farm.Hand._res(success={v}) makes the scheduler calls {calls} with '
                    f'state {st}: a run that did not succeed must purge its dependents and must not trigger them',
                    {'kind': 'hand', 'success': v})
    st, calls = hand_calls(True, known=False)
    res.count('hand:unknown-job')
    if calls:
        res.diff('Hand.res (job unknown to schedule.find) vs farm.Hand._res', {'known': False}, [], calls)
    if ctx.get('lean'):
        outs = common.driver([common.sx(['hand', k]) for k, _v, _r in real], 'Sched')
        for (k, v, (st, calls)), o in zip(real, outs):
            res.traces += 1
            res.count('model:hand-wire:' + k)
            m = common.parse_sx(o)
            got = [st, calls]
            if m != got:
                res.diff('Hand.translate/acts vs farm.Hand._translate/_res', {'success': v}, m, got)


def replay(inp, res, want=('C05',)):
    from .c08_store import Store
    store = Store()
    store.install_loopback()
    inp = inp.get('input', inp)
    if inp.get('kind') == 'hand':
        hand_correspondence({'lean': False}, res)
        return
    hits, _stats = run_scenario(store, c02_e2e._norm(inp['scenario']), inp.get('seed', 0), res, want=want)  # pylint: disable=protected-access
    for sig, what in hits:
        res.hit(sig, what, inp)
