"""C18 — correspondence + monitor for the execution history.

Real code driven in-process: pl.logger.chronicle.append/find on a temporary
`dawgie.context.data_dbs`, fe.api.schedule.failed/succeeded, pl.schedule.complete and
pl.farm.Hand._res (one worker reply -> one history entry).  The monitor is a brute-force filter
of everything that was appended; the correspondence sends the same operations to
lean/Driver/C18.lean (Model/Chronicle.lean)."""
import datetime as _dt
import json
import os
import shutil
import tempfile
import types

from . import c18_cal, common

LEAN_TARGETS = ['DawgieVerif.Model.ChronicleIO', 'DawgieVerif.Model.CalIO']

MANIFEST = dict(
    text='Lean theorems over an executable model of pl/logger/chronicle.py on a proved proleptic '
         'Gregorian calendar (Model/Cal: conversions inverse and monotone for all integers): '
         'append_keeps / append_rejects / history_complete (an accepted append extends exactly the '
         'file of its date and run id, every other file is untouched, the multiset of stored entries '
         'is the multiset of appended messages, for every append sequence, by induction); find_window '
         '(both bounds: exactly the entries of the requested outcome strictly inside the window, '
         'newest first), find_newest (no lower bound: the newest `limit` of the window above the 1980 '
         'floor), find_sound (lower bound + limit: sub-multiset, newest first, at most `limit`), '
         'find_rejects (ValueError iff all three arguments are None), find_offset_invariant (the answer depends on the '
         'instants of the bounds, not on the UTC offsets they are written with), api_hands_on_window — for every '
         'history, window, limit and clock, proved through the real day walk including its year/month '
         'skipping and limit cut-off (well-founded recursion, functional induction). The keep test of '
         '_load, the status words, the key list, the 1980 floor, the walk steps and the API argument '
         'passing are regenerated from the source on every run; the hand-written model is tied to '
         'chronicle.append/find, the two API handlers, schedule.complete and farm.Hand._res by a '
         'differential run with a brute-force monitor on every check.',
    note='Trusted: Lean kernel; axioms propext/Classical.choice/Quot.sound only; tools/gen_c18.py; '
         'the harness (temp store, injected clock in chronicle/schedule, fake job and message objects). '
         'Assumed: completion times are UTC datetimes as the pipeline writes them; query bounds are timezone-aware '
         'datetimes with ANY UTC offset (modelled as instant + offset; find converts them to UTC first, regenerated '
         'flag); naive bounds are outside the model (the code raises TypeError when it compares them); ISO-8601 text of UTC instants sorts like the '
         'instants; run ids are ints; instants stay inside datetime.MINYEAR..MAXYEAR; the store is '
         'written only by chronicle.append (directories exist iff a file lies below them); json and the '
         'file system keep what is written (no crash, no concurrent writer: the pipeline appends from '
         'the single reactor thread). With only a lower bound and a limit the property fixes no '
         'truncation rule: soundness, order and length only. Entries completed before the 1980 floor '
         'are invisible to queries without a lower bound (stated in find_newest). That the farm calls '
         'schedule.complete once per worker reply is exercised (Hand._res) but the uniqueness of '
         'replies belongs to C03.',
    technique='Lean 4 proof (induction over the append sequence; functional induction over the '
              'well-founded day walk; refinement to a sorted filter) + differential correspondence',
    design='7/C18',
)

TRUSTED = [
    'completion times are UTC datetimes (the pipeline stamps them with datetime.now(UTC)); query bounds are timezone-aware datetimes with any UTC offset (naive ones are outside the model: the code raises TypeError when it compares them); ISO-8601 text of UTC instants orders like the instants (the monitor checks the order by instant)',
    'CPython datetime/calendar as the civil calendar (Model/Cal is compared with it on every day 1970-2100 in the thorough tier, sampled in quick)',
    'json round-trip and os.makedirs/open semantics; no crash between read and write of chronicle.append',
    'chronicle.datetime / schedule.datetime replaced by a class / namespace with a controlled now()',
]

fake_datetime = c18_cal.fake_datetime


EPOCH = _dt.datetime(1970, 1, 1, tzinfo=_dt.UTC)
US = _dt.timedelta(microseconds=1)
DAY = 86400 * 10 ** 6
ALLKEYS = ['changeset', 'runid', 'status', 'target', 'task', 'timing', 'version']
EXPECTED_SORTKEY = ['completed', 'runid', 'target', 'task']


def us(dt):
    return (dt - EPOCH) // US


def from_us(n):
    return EPOCH + _dt.timedelta(microseconds=n)


def inst(y, m, d, hh=0, mm=0, ss=0, micro=0):
    return us(_dt.datetime(y, m, d, hh, mm, ss, micro, tzinfo=_dt.UTC))


# ------------------------------------------------------------------ the real code
class Real:
    """chronicle / API / schedule of the working tree with an injected clock and a temp store"""

    def __init__(self):
        import dawgie.context
        import dawgie.pl.logger.chronicle as chron

        self.context = dawgie.context
        self.chron = chron
        self.root = tempfile.mkdtemp(prefix='c18_')
        self.n = 0
        self.clock = types.SimpleNamespace(now=EPOCH)
        chron.datetime = fake_datetime(self.clock)
        self._api = None
        self._sched = None

    def close(self):
        shutil.rmtree(self.root, ignore_errors=True)

    def fresh(self):
        self.n += 1
        d = os.path.join(self.root, str(self.n))
        os.makedirs(d)
        self.context.data_dbs = d
        return d

    def drop(self, d):
        shutil.rmtree(d, ignore_errors=True)

    @property
    def api(self):
        if self._api is None:
            import dawgie.fe.api.schedule as api

            self._api = api
        return self._api

    def tree(self):
        """{(y, m, d, runid): [entries]} as found on disk"""
        out = {}
        base = os.path.join(self.context.data_dbs, 'chronicles')
        if not os.path.isdir(base):
            return out
        for dirpath, _dirs, files in os.walk(base):
            for fn in files:
                rel = os.path.relpath(os.path.join(dirpath, fn), base).split(os.sep)
                with open(os.path.join(dirpath, fn), 'rt', encoding='utf-8') as f:
                    content = json.load(f)
                key = tuple(int(x) for x in rel[:3]) + (rel[3][: -len('.json')],)
                out[key] = content
        return out


def make_entry(op):
    dt = from_us(op['completed'])
    # a slow unit may start first and finish last: `started` is not ordered like `completed`
    started = dt - _dt.timedelta(microseconds=op.get('duration', 5 * 10 ** 6))
    timing = {'scheduled': str(started), 'started': str(started),
              'completed': dt if op.get('as') == 'datetime' else str(dt)}
    full = {'changeset': 'u%d' % op['uid'], 'runid': op['runid'], 'status': op['status'],
            'target': op['target'], 'task': op['task'], 'timing': timing, 'version': '1.0.0'}
    keys = op.get('keys')
    if keys is None:
        return full
    return {k: full[k] for k in keys if k in full}


def entry_json(op):
    """what must be found in the file for an accepted append"""
    e = make_entry(dict(op, keys=None))
    e['timing'] = {k: str(v) for k, v in e['timing'].items()}
    return e


def _canon(entry):
    return json.dumps(entry, sort_keys=True, default=str)


def _minus(a, b):
    """multiset difference a - b of lists of strings"""
    b = list(b)
    out = []
    for x in a:
        if x in b:
            b.remove(x)
        else:
            out.append(x)
    return out


def canon_tree(tree):
    """layout observation: one row per file when the files are named after run ids, else one row per day"""
    try:
        return sorted([list(k[:3]) + [int(k[3])] + [[uid_of(e) for e in v]] for k, v in tree.items()])
    except ValueError:
        days = {}
        for k, v in tree.items():
            days.setdefault(tuple(k[:3]), []).extend(uid_of(e) for e in v)
        return ['by-day'] + sorted([list(k) + [sorted(v)] for k, v in days.items()])


def uid_of(entry):
    try:
        return int(str(entry['changeset'])[1:])
    except (KeyError, ValueError, TypeError):
        return -1


# ------------------------------------------------------------------ the monitor (property text)
def check_find(res, case, op, result, recorded, floor_us):
    """`result`: list of entry dicts returned by the real code for query `op`.
    `recorded`: accepted append ops so far.  Returns nothing; reports hits."""
    status = 'success' if op['succeeded'] else 'failure'
    after, before, limit = op['after'], op['before'], op['limit']
    upper = before if before is not None else op['now']
    lower = after if after is not None else floor_us
    by_uid = {a['uid']: a for a in recorded}
    window = [a for a in recorded if lower < a['completed'] < upper and a['status'] == status]
    # without an upper bound the request is open above: when the injected clock stands before some
    # recorded entry, only the basic checks apply (entries at/after `now` are neither demanded nor forbidden)
    open_above = before is None and any(a['completed'] >= upper for a in recorded)
    win_uids = sorted(a['uid'] for a in window)
    got_uids = [uid_of(e) for e in result]

    def hit(sig, what):
        res.hit(sig, what, dict(case, focus=op))

    # every returned entry is a recorded one, intact, of the requested outcome, inside the window
    seen = {}
    for e, u in zip(result, got_uids):
        a = by_uid.get(u)
        if a is None or e != entry_json(a):
            return hit('C18:find-foreign', f'find returned an entry that was never appended or was altered: {e!r}')
        seen[u] = seen.get(u, 0) + 1
        if seen[u] > 1:
            return hit('C18:find-duplicate', f'find returned entry u{u} more than once')
        if a['status'] != status:
            return hit('C18:find-status', f'find(succeeded={op["succeeded"]}) returned entry u{u} with status {a["status"]}')
        if not (lower < a['completed'] and (open_above or a['completed'] < upper)):
            return hit('C18:find-outside', f'find returned entry u{u} completed {from_us(a["completed"])} outside the window '
                       f'({from_us(lower)}, {from_us(upper)})')
    # newest first
    times = [by_uid[u]['completed'] for u in got_uids]
    if any(x < y for x, y in zip(times, times[1:])):
        return hit('C18:find-order', 'find result is not newest first: ' + ' '.join(str(from_us(t)) for t in times))
    both = after is not None and before is not None
    if open_above:
        return None
    if both or limit is None:
        # exact window (a limit is ignored when both bounds are given)
        if sorted(got_uids) != win_uids:
            missing = sorted(set(win_uids) - set(got_uids))
            return hit('C18:window-missing',
                       f'find(after={_show(after)}, before={_show(before)}, limit={limit}, succeeded={op["succeeded"]}) '
                       f'dropped {len(missing)} recorded entr{"y" if len(missing) == 1 else "ies"} inside the window, e.g. '
                       f'u{missing[0]} completed {from_us(by_uid[missing[0]]["completed"])}')
        return None
    if limit is not None and len(result) > max(limit, 0):
        return hit('C18:find-too-long', f'find(limit={limit}) returned {len(result)} entries')
    if after is None:
        # only an upper bound and/or a limit: the newest `limit` of the window
        want = min(max(limit, 0), len(window))
        if len(result) != want:
            return hit('C18:newest-short', f'find(before={_show(before)}, limit={limit}) returned {len(result)} of '
                       f'{len(window)} matching entries, expected the newest {want}')
        if result:
            oldest = min(times)
            left = [a for a in window if a['uid'] not in seen]
            newer = [a for a in left if a['completed'] > oldest]
            if newer:
                return hit('C18:newest-skipped', f'find(before={_show(before)}, limit={limit}) skipped entry u{newer[0]["uid"]} '
                           f'completed {from_us(newer[0]["completed"])} which is newer than a returned one')
    return None


def _iso(dt, minutes):
    """the instant `dt` written with the UTC offset `minutes` (the same instant, another spelling)"""
    return dt.astimezone(_dt.timezone(_dt.timedelta(minutes=minutes))).isoformat()


def _aware(dt, minutes):
    """the same instant carried with another UTC offset"""
    if dt is None or not minutes:
        return dt
    return dt.astimezone(_dt.timezone(_dt.timedelta(minutes=minutes)))


OFFSETS = [-720, -480, -300, -210, -60, -1, 1, 60, 120, 330, 345, 540, 765, 840]


def same_date_offset(r, instant_us):
    """a non-zero UTC offset under which the instant keeps its UTC calendar date (the day walk of
    chronicle.find reads the date of the bound as written; bounds whose written date differs from their UTC
    date are outside the stated UTC assumption)"""
    if instant_us is None:
        return 0
    for off in r.sample([-300, 330, 60, -480, 345, -210, 120], 7):
        if (from_us(instant_us) + _dt.timedelta(minutes=off)).date() == from_us(instant_us).date():
            return off
    return 0


def _show(x):
    return None if x is None else str(from_us(x))


# ------------------------------------------------------------------ one case on the real code
def run_case(real, res, case, floor_us, want_trace=True):
    """Runs the ops of `case` on a fresh store.  Returns the canonical observations."""
    d = real.fresh()
    chron = real.chron
    recorded, expected, obs = [], [], []
    try:
        for op in case['ops']:
            if op['op'] == 'append':
                entry = make_entry(op)
                try:
                    chron.append(entry)
                    out = 'ok'
                except TypeError:
                    out = 'typeError'
                except Exception as e:  # pylint: disable=broad-except
                    out = 'raised:' + type(e).__name__
                obs.append(out)
                complete = op.get('keys') is None or all(k in op['keys'] for k in ALLKEYS)
                if complete:
                    if out != 'ok':
                        res.hit('C18:append-refused', f'chronicle.append refused a complete execution message ({out})',
                                dict(case, focus=op))
                        continue
                    recorded.append(op)
                    expected.append(_canon(entry_json(op)))
                    # the store, whatever its layout, holds every earlier message and the new one once more
                    have = sorted(_canon(e) for v in real.tree().values() for e in v)
                    if have != sorted(expected):
                        lost = _minus(expected[:-1], have)
                        if lost:
                            res.hit('C18:append-lost',
                                    f'after append of u{op["uid"]} {len(lost)} earlier entr{"y is" if len(lost) == 1 else "ies are"} '
                                    f'gone from the history, e.g. {lost[0][:160]}', dict(case, focus=op))
                        else:
                            n_new = have.count(expected[-1]) - expected[:-1].count(expected[-1])
                            res.hit('C18:append-count',
                                    f'append of u{op["uid"]} recorded the message {n_new} time(s) instead of once '
                                    f'({len(have)} entries stored, {len(expected)} appended)', dict(case, focus=op))
                elif out == 'ok':
                    res.count('append:incomplete-accepted')
            elif op['op'] == 'find':
                real.clock.now = from_us(op['now'])
                a = None if op['after'] is None else from_us(op['after'])
                b = None if op['before'] is None else from_us(op['before'])
                try:
                    if op.get('via') == 'api':
                        fn = real.api.succeeded if op['succeeded'] else real.api.failed
                        raw = fn(after=[_iso(a, op.get('after_off', 0))] if a is not None else None,
                                 before=[_iso(b, op.get('before_off', 0))] if b is not None else None,
                                 limit=[str(op['limit'])] if op['limit'] is not None else None)
                        body = json.loads(raw.decode())
                        if body.get('status') != 'success':
                            raise RuntimeError('api status ' + str(body.get('status')))
                        result = body['content']
                    else:
                        result = chron.find(after=_aware(a, op.get('after_off', 0)), before=_aware(b, op.get('before_off', 0)),
                                            limit=op['limit'], succeeded=op['succeeded'])
                except ValueError:
                    obs.append('valueError')
                    if not (a is None and b is None and op['limit'] is None):
                        res.hit('C18:find-raised', 'chronicle.find raised ValueError although an argument was given',
                                dict(case, focus=op))
                    continue
                except Exception as e:  # pylint: disable=broad-except
                    obs.append('raised:' + type(e).__name__)
                    res.hit('C18:find-raised', f'chronicle.find raised {type(e).__name__}: {e}', dict(case, focus=op))
                    continue
                obs.append(['ok'] + [uid_of(e) for e in result])
                check_find(res, case, op, result, recorded, floor_us)
        # nothing lost anywhere, nothing invented
        tree = real.tree()
        have = sorted(_canon(e) for v in tree.values() for e in v)
        if have != sorted(expected):
            lost, extra = _minus(expected, have), _minus(have, expected)
            res.hit('C18:store-differs',
                    f'the history holds {len(have)} entries, {len(expected)} were appended: {len(lost)} missing, '
                    f'{len(extra)} not appended' + (f', e.g. missing {lost[0][:160]}' if lost else ''), dict(case))
        obs.append(canon_tree(tree))
    finally:
        real.drop(d)
    return obs


def case_line(case):
    ops = []
    for op in case['ops']:
        if op['op'] == 'append':
            keys = ALLKEYS if op.get('keys') is None else op['keys']
            ops.append(['append', list(keys), op['completed'], op['runid'], op['target'], op['task'],
                        op['status'], op['uid']])
        else:
            ops.append(['find', op['now'], op['after'], op['before'], op['limit'], op['succeeded'],
                        op.get('after_off', 0), op.get('before_off', 0)])
    ops.append(['files'])
    return common.sx(['chron'] + ops)


def canon_model(reply, tie_insensitive, by_uid):
    out = []
    for x in common.parse_sx(reply):
        if isinstance(x, str):
            out.append(x)
        elif x and x[0] == 'ok':
            out.append(['ok'] + [int(u) for u in x[1:]])
        else:  # files
            out.append(sorted([[int(f[0]), int(f[1]), int(f[2]), int(f[3]), [int(u) for u in f[4]]] for f in x]))
    return out


def _ties(obs, by_uid):
    """when the tie-break of equal instants is not the modelled one: compare the sequence of completion
    instants only (which entry of several equal ones survives a limit is then not determined)"""
    out = []
    for x in obs:
        if isinstance(x, list) and x and x[0] == 'ok':
            out.append(['ok'] + [by_uid[u]['completed'] if u in by_uid else u for u in x[1:]])
        else:
            out.append(x)
    return out


# ------------------------------------------------------------------ generators
ANCHORS = [
    (1999, 12, 31), (2000, 1, 1), (2000, 2, 28), (2000, 2, 29), (2000, 3, 1), (2019, 12, 31),
    (2020, 1, 1), (2023, 12, 31), (2024, 1, 1), (2024, 1, 31), (2024, 2, 1), (2024, 2, 28), (2024, 2, 29),
    (2024, 3, 1), (2024, 3, 9), (2024, 3, 10), (2024, 3, 11), (2024, 3, 31), (2024, 4, 1), (2024, 4, 30),
    (2024, 5, 1), (2024, 12, 31), (2025, 1, 1), (2025, 2, 28), (2025, 3, 1), (2026, 7, 15), (2030, 6, 1),
    (1985, 5, 5), (1980, 1, 2),
]
TODS = [0, 1, 10 ** 6, 3 * 3600 * 10 ** 6, 10 * 3600 * 10 ** 6, 12 * 3600 * 10 ** 6, 15 * 3600 * 10 ** 6,
        15 * 3600 * 10 ** 6 + 1, 20 * 3600 * 10 ** 6, DAY - 10 ** 6, DAY - 1]
TARGETS = ['T1', 'T2', 'Kepler-9', '__all__', 'T10']
TASKS = ['net.alg', 'net.beta', 'zeta.x', 'Net.alg']


def gen_history(r, uid0=1):
    n = r.choice([0, 1, 2, 2, 3, 3, 5, 5, 8, 8, 13, 20, 30])
    base = r.sample(ANCHORS, r.choice([1, 2, 2, 3, 4]))
    days = []
    for (y, m, d) in base:
        z = inst(y, m, d) // DAY
        days.append(z)
        if r.random() < 0.6:
            days.append(z + r.choice([-1, 1, 1, 2, -2, 7, 30, 31, 365, 366]))
    ops = []
    for i in range(n):
        x = r.random()
        if ops and x < 0.15:
            prev = r.choice(ops)
            comp, runid = prev['completed'], prev['runid'] if r.random() < 0.7 else r.randrange(1, 5)
        else:
            z = r.choice(days) if x < 0.9 else r.randrange(inst(1985, 1, 1) // DAY, inst(2035, 1, 1) // DAY)
            tod = r.choice(TODS) if r.random() < 0.7 else r.randrange(DAY)
            comp, runid = z * DAY + tod, r.choice([1, 2, 2, 3, 7, 10])
        ops.append({'op': 'append', 'completed': comp, 'runid': runid, 'target': r.choice(TARGETS),
                    'task': r.choice(TASKS), 'status': r.choice(['success'] * 5 + ['failure'] * 4 + ['invalid']),
                    'uid': uid0 + i, 'as': 'datetime' if r.random() < 0.2 else 'str',
                    'duration': r.choice([10 ** 6, 5 * 10 ** 6, 5 * 10 ** 6, 3600 * 10 ** 6, 10 * 3600 * 10 ** 6,
                                          r.randrange(1, 20 * 3600 * 10 ** 6)])})
    return ops


def gen_bound(r, appends):
    if appends and r.random() < 0.8:
        t = r.choice(appends)['completed']
        x = r.random()
        if x < 0.45:
            return t + r.choice([0, 0, 1, -1, 10 ** 6, -10 ** 6, DAY, -DAY, DAY // 2, -DAY // 2])
        if x < 0.55:  # within hours of a midnight next to the entry: an offset moves the written date across it
            return (t // DAY + r.choice([0, 1])) * DAY + r.choice([-5, -3, -1, 1, 3, 5]) * 3600 * 10 ** 6 + r.choice([0, 1, -1])
        if x < 0.8:  # some time of day on that day or a neighbouring one
            return (t // DAY + r.choice([-1, 0, 0, 1, 1, 2])) * DAY + r.choice(TODS)
        return t + r.randrange(-40 * DAY, 40 * DAY)
    y, m, d = r.choice(ANCHORS)
    return inst(y, m, d) + r.choice(TODS)


def gen_query(r, appends):
    mode = r.choice(['both'] * 7 + ['both+limit', 'before', 'before', 'limit', 'limit', 'before+limit',
                                    'before+limit', 'after', 'after', 'after+limit', 'after+limit',
                                    'after+limit', 'none'])
    after = before = limit = None
    if 'both' in mode or 'after' in mode:
        after = gen_bound(r, appends)
    if 'both' in mode or 'before' in mode:
        before = gen_bound(r, appends)
    if mode == 'both' and after is not None and before < after and r.random() < 0.8:
        after, before = before, after
    if 'limit' in mode:
        limit = r.choice([0, 1, 1, 2, 2, 3, 5, 100, -1])
    latest = max([a['completed'] for a in appends], default=inst(2024, 1, 1))
    now = latest + r.choice([1, DAY, 400 * DAY]) if r.random() < 0.85 else gen_bound(r, appends)
    q = {'op': 'find', 'now': now, 'after': after, 'before': before, 'limit': limit,
         'succeeded': r.random() < 0.6, 'via': 'api' if r.random() < 0.25 else 'find'}
    if r.random() < (0.5 if q['via'] == 'api' else 0.3):
        # bounds written with any UTC offset, also when the written calendar date differs from the UTC date
        q['after_off'] = r.choice(OFFSETS) if after is not None else 0
        q['before_off'] = r.choice(OFFSETS) if before is not None else 0
    return q


def gen_case(r):
    appends = gen_history(r)
    ops = list(appends)
    # interleave a few queries between appends, most at the end
    for _ in range(r.choice([0, 0, 1, 2])):
        if appends:
            k = r.randrange(len(ops) + 1)
            seen = [o for o in ops[:k] if o['op'] == 'append']
            ops.insert(k, gen_query(r, seen or appends))
    for _ in range(r.choice([2, 3, 4, 6])):
        ops.append(gen_query(r, appends))
    if r.random() < 0.15:  # malformed stream: messages lacking keys
        k = r.randrange(len(ops) + 1)
        keys = [x for x in ALLKEYS if r.random() < 0.8]
        ops.insert(k, {'op': 'append', 'completed': gen_bound(r, appends), 'runid': 2, 'target': 'T1',
                       'task': 'net.alg', 'status': 'success', 'uid': 900 + k, 'keys': keys, 'as': 'str'})
    return {'kind': 'history', 'ops': ops}


def corpus():
    """shapes that historically break such code"""
    def ap(uid, t, runid=7, status='success', target='T1', task='net.alg'):
        return {'op': 'append', 'completed': t, 'runid': runid, 'target': target, 'task': task,
                'status': status, 'uid': uid, 'as': 'str'}

    def q(now, after, before, limit, succ=True, via='find'):
        return {'op': 'find', 'now': now, 'after': after, 'before': before, 'limit': limit,
                'succeeded': succ, 'via': via}

    far = inst(2031, 1, 1)
    out = []
    # repaired finding (cc584e5): a bound written 22:00-05:00 on the 10th is 03:00 UTC on the 11th; month end,
    # year end and leap day in the same shape, through find and through the API
    out.append([ap(1, inst(2024, 3, 11, 1)),
                dict(q(far, inst(2024, 3, 1), inst(2024, 3, 11, 3), None), before_off=-300),
                dict(q(far, inst(2024, 3, 1), inst(2024, 3, 11, 3), None, via='api'), before_off=-300)])
    out.append([ap(1, inst(2024, 2, 29, 23, 30)), ap(2, inst(2024, 3, 1, 0, 30)), ap(3, inst(2023, 12, 31, 23, 30)),
                ap(4, inst(2024, 1, 1, 0, 30)), ap(5, inst(2024, 2, 28, 23, 30)),
                dict(q(far, inst(2024, 2, 29, 22), inst(2024, 3, 1, 2), None), after_off=330, before_off=-300),
                dict(q(far, inst(2023, 12, 31, 22), inst(2024, 1, 1, 2), None, via='api'), after_off=840, before_off=-720),
                dict(q(far, inst(2024, 2, 28, 23), None, 2), after_off=120),
                dict(q(far, None, inst(2024, 3, 1, 1), 2, via='api'), before_off=-480),
                dict(q(far, inst(2024, 2, 29, 23), inst(2024, 2, 29, 23, 45), None), after_off=60, before_off=60)])
    # F-C18a: upper bound earlier in its day than an entry of an earlier day
    out.append([ap(1, inst(2024, 3, 9, 20)), ap(2, inst(2024, 3, 10, 10)),
                q(far, inst(2024, 3, 1), inst(2024, 3, 10, 15), None),
                q(far, inst(2024, 3, 1), inst(2024, 3, 10, 15), None, via='api'),
                q(far, None, inst(2024, 3, 10, 15), 5), q(far, None, None, 1), q(far, None, None, 2)])
    # F-C18b: the handlers must hand `after` on
    out.append([ap(1, inst(2024, 1, 1, 12)), ap(2, inst(2024, 6, 1, 12), status='failure'),
                ap(3, inst(2023, 6, 1, 12), status='failure'), ap(4, inst(2023, 1, 1, 12)),
                q(far, inst(2024, 1, 1), None, None, succ=False, via='api'),
                q(far, inst(2023, 12, 1), None, None, succ=True, via='api'),
                q(far, inst(2024, 1, 1), inst(2024, 12, 1), 1, succ=False, via='api')])
    # bounds exactly on entries (strictness), same instant twice, same run id on several days
    t = inst(2024, 2, 29, 23, 59, 59, 999999)
    out.append([ap(1, t), ap(2, t, runid=7, target='T2'), ap(3, t + 1, runid=8), ap(4, t - 1, runid=7),
                ap(5, t, status='failure'),
                q(far, t - 1, t + 1, None), q(far, t, t + 2, None), q(far, t - 2, t, None),
                q(far, t - 1, t + 1, None, succ=False), q(far, None, t + 1, 2), q(far, None, None, 3),
                q(far, t - 2, None, 2), q(far, None, None, 0), q(far, None, None, -1), q(far, None, None, None)])
    # month and year gaps, leap day, year end; the walk has to skip missing directories
    out.append([ap(1, inst(1999, 12, 31, 23, 59, 59)), ap(2, inst(2000, 1, 1)), ap(3, inst(2000, 2, 29, 12)),
                ap(4, inst(2000, 3, 1)), ap(5, inst(2024, 12, 31, 23)), ap(6, inst(2025, 1, 1, 0, 0, 1)),
                q(far, None, None, 6), q(far, None, None, 4), q(far, inst(1999, 1, 1), inst(2025, 6, 1), None),
                q(far, inst(2000, 1, 1), None, 3), q(far, inst(2000, 1, 1), None, None),
                q(inst(2000, 2, 29, 13), None, None, 10), q(far, None, inst(2000, 3, 1), None)])
    # appends after queries, several statuses in one file, datetimes instead of text
    out.append([ap(1, inst(2024, 3, 10, 10)), q(far, None, None, 5), ap(2, inst(2024, 3, 10, 9), status='failure'),
                dict(ap(3, inst(2024, 3, 10, 11)), **{'as': 'datetime'}), ap(4, inst(2024, 3, 11, 0)),
                dict(ap(5, inst(2024, 3, 10, 10)), keys=['runid', 'status', 'target', 'task', 'timing']),
                q(far, inst(2024, 3, 10), inst(2024, 3, 11), None), q(far, inst(2024, 3, 10), inst(2024, 3, 11, 0, 0, 1), 1),
                q(far, None, None, 2, succ=False)])
    # the 1980 floor and very old / far entries
    out.append([ap(1, inst(1980, 1, 1, 0, 0, 1)), ap(2, inst(1980, 1, 2)), ap(3, inst(2035, 7, 1)),
                q(inst(2036, 1, 1), None, None, 3), q(inst(2036, 1, 1), inst(1980, 1, 1), None, 2),
                q(inst(2036, 1, 1), inst(1980, 1, 1, 0, 0, 1), None, 2), q(inst(2036, 1, 1), None, inst(1981, 1, 1), None)])
    # a slow unit starts first and finishes last; limits cut inside that day (newest COMPLETED first)
    out.append([dict(ap(1, inst(2024, 5, 6, 23), runid=3), duration=22 * 3600 * 10 ** 6),
                dict(ap(2, inst(2024, 5, 6, 10, 5), runid=3), duration=300 * 10 ** 6),
                dict(ap(3, inst(2024, 5, 6, 12, 1), runid=4), duration=60 * 10 ** 6),
                dict(ap(4, inst(2024, 5, 5, 9), runid=4), duration=8 * 3600 * 10 ** 6),
                q(far, None, None, 1), q(far, None, None, 2), q(far, None, inst(2024, 5, 7), 3),
                q(far, inst(2024, 5, 1), inst(2024, 5, 7), None), q(far, inst(2024, 5, 6), None, 1)])
    # `after` not at midnight, an entry of the requested outcome earlier on that same day; same for `before`
    out.append([ap(1, inst(2024, 7, 9, 8)), ap(2, inst(2024, 7, 9, 14)), ap(3, inst(2024, 7, 10, 6)),
                ap(4, inst(2024, 7, 11, 20)), ap(5, inst(2024, 7, 11, 9)),
                q(far, inst(2024, 7, 9, 12), inst(2024, 7, 11, 12), None), q(far, inst(2024, 7, 9, 12), None, None),
                q(far, inst(2024, 7, 9, 12), None, 2), q(far, None, inst(2024, 7, 11, 12), None),
                q(far, inst(2024, 7, 9, 12), inst(2024, 7, 9, 15), None)])
    # API bounds written with non-zero offsets: entries between the written wall-clock time and the real instant
    t_b = inst(2024, 3, 10, 9, 30)    # = 15:00+05:30
    t_a = inst(2024, 3, 8, 17)        # = 12:00-05:00
    out.append([ap(1, inst(2024, 3, 10, 12)), ap(2, inst(2024, 3, 10, 9)), ap(3, inst(2024, 3, 8, 14)),
                ap(4, inst(2024, 3, 8, 18)), ap(5, inst(2024, 3, 10, 12), status='failure'),
                dict(q(far, t_a, t_b, None, via='api'), after_off=-300, before_off=330),
                dict(q(far, None, t_b, 5, via='api'), before_off=330),
                dict(q(far, t_a, None, None, via='api'), after_off=-300),
                dict(q(far, t_a, t_b, None, succ=False, via='api'), after_off=-300, before_off=330)])
    return [{'kind': 'history', 'ops': ops} for ops in out]


def load_corpus():
    """minimised past failures / scenario files of corpus/C18 (replayed before anything generated)"""
    d = os.path.join(common.VERIF, 'corpus', 'C18')
    out = []
    if os.path.isdir(d):
        for f in sorted(os.listdir(d)):
            if f.endswith('.json'):
                c = json.load(open(os.path.join(d, f)))
                if c.get('kind') == 'history':
                    out.append({'kind': 'history', 'ops': c['ops']})
    return out


# ------------------------------------------------------------------ shrinking
def shrink(real, case, sig, floor_us):
    """drop operations one at a time while the same signature still fires"""
    def fires(c):
        tmp = common.Result()
        try:
            run_case(real, tmp, c, floor_us)
        except Exception:  # pylint: disable=broad-except
            return False
        return any(h['sig'] == sig for h in tmp.hits)

    ops = list(case['ops'])
    changed = True
    rounds = 0
    while changed and rounds < 6:
        changed = False
        rounds += 1
        i = 0
        while i < len(ops):
            cand = ops[:i] + ops[i + 1:]
            if cand and fires({'kind': 'history', 'ops': cand}):
                ops = cand
                changed = True
            else:
                i += 1
    return {'kind': 'history', 'ops': ops}


# ------------------------------------------------------------------ schedule.complete / farm.Hand._res
class FakeJob:
    def __init__(self, tag, todo=(), doing=()):
        self.tag = tag
        self._d = {'todo': set(todo), 'doing': set(doing), 'do': set(), 'status': None,
                   'alg': types.SimpleNamespace(asstring=lambda: '1.2.3')}

    def get(self, k, default=None):
        return self._d.get(k, default)

    def set(self, k, v):
        self._d[k] = v

    def __iter__(self):
        return iter(())


class CompleteEnv:
    """schedule.complete / farm.Hand._res with an injected clock on a fresh store"""

    def __init__(self, real):
        import dawgie.pl.farm as farm
        import dawgie.pl.message as message
        import dawgie.pl.schedule as sched
        from dawgie.pl.jobinfo import State

        self.real, self.farm, self.message, self.sched, self.State = real, farm, message, sched, State
        self.clock = types.SimpleNamespace(now=EPOCH)
        self.saved = sched.datetime
        sched.log.disabled = True  # 'did not update its state vector' for the empty value lists used here
        sched.datetime = c18_cal.fake_datetime_module(self.clock)
        real.context.git_rev = 'rev0'
        self.dir = real.fresh()

    def close(self):
        self.sched.datetime = self.saved
        self.sched.log.disabled = False
        self.sched.que = []
        self.real.drop(self.dir)

    def once(self, res, what):
        """one completion (`what`) -> exactly one history entry with that outcome"""
        real, sched, State = self.real, self.sched, self.State
        t, target, runid, outcome = what['now'], what['target'], what['runid'], what['outcome']
        self.clock.now = from_us(t)
        # `doing` of the node found in the queue when the report arrives: normally it lists the target; after a
        # rebuild / re-organize of the same tag (fresh node), a purge, or a second report it does not
        held = what.get('doing', 'has')
        doing = {'has': [target] if target != '__all__' else ['T1', 'T2'], 'empty': [],
                 'other': ['T9']}[held]
        job = FakeJob(what['task'], todo=['T1'] if held != 'has' else (), doing=doing)
        sched.que = [job]
        del sched.err[:], sched.suc[:]
        state = {True: State.success, False: State.failure, None: State.invalid}[outcome]
        timing = {'scheduled': from_us(t - 10 ** 7), 'started': from_us(t - 10 ** 6)}
        before = sum(len(v) for v in real.tree().values())
        try:
            if what['via'] == 'complete':
                sched.complete(job, runid, target, timing, state)
            else:
                saved_archive = self.farm.ARCHIVE
                msg = self.message.make(jid=job.tag, inc=None if target == '__all__' else target, rid=runid,
                                        suc=outcome, tim=timing, typ=self.message.Type.response, val=[])
                self.farm.Hand._res(msg)
                self.farm.ARCHIVE = saved_archive
        except Exception as e:  # pylint: disable=broad-except
            res.hit('C18:complete-raised', f'completion of {job.tag}[{target}] raised {type(e).__name__}: {e}', what)
            return
        tree = real.tree()
        after = sum(len(v) for v in tree.values())
        dt = from_us(t)
        mine = [e for v in tree.values() for e in v
                if e.get('runid') == runid and e.get('timing', {}).get('completed') == str(dt) and e.get('target') == target
                and e.get('task') == job.tag and e.get('status') == state.name]
        if after != before + 1 or len(mine) < 1:
            res.hit('C18:complete-not-recorded',
                    f'completion of {job.tag}[{target}] ({state.name}, run {runid}) added {after - before} '
                    f'history entries, {len(mine)} of them matching it; expected exactly one', what)
            return
        if outcome is not None:
            real.clock.now = from_us(t + 1)
            got = real.chron.find(after=from_us(t - 1), before=from_us(t + 1), succeeded=outcome)
            if len([e for e in got if e in mine]) != 1:
                res.hit('C18:complete-not-found',
                        f'the entry recorded for {job.tag}[{target}] ({state.name}) is not returned by '
                        f'find(succeeded={outcome}) around its completion time', what)
        res.count('complete:' + what['via'] + ':' + state.name + ('' if held == 'has' else ':not-doing'))
        res.case(('complete', what['via'], state.name, target, held), nontrivial=True)


def run_complete(real, res, r, n):
    env = CompleteEnv(real)
    try:
        t = inst(2024, 2, 28, 22)
        for via in ('complete', 'reply'):
            for held in ('has', 'empty', 'other'):
                for target in ('T1', '__all__'):
                    for outcome in (True, False, None):
                        t += 3600 * 10 ** 6
                        env.once(res, {'kind': 'complete', 'via': via, 'now': t, 'target': target, 'task': 'net.alg',
                                       'outcome': outcome, 'runid': 7, 'doing': held})
        for _ in range(n):
            t += r.choice([1, 10 ** 6, 3600 * 10 ** 6, DAY // 2, DAY, 29 * DAY])
            env.once(res, {'kind': 'complete', 'via': r.choice(['complete', 'reply']), 'now': t,
                           'target': r.choice(['T1', 'T2', '__all__']), 'task': r.choice(['net.alg', 'net.beta']),
                           'outcome': r.choice([True, True, False, None]), 'runid': r.randrange(1, 50),
                           'doing': r.choice(['has', 'has', 'empty', 'other'])})
    finally:
        env.close()


# ------------------------------------------------------------------ generated definitions
def keep_grid(repo):
    """(args, python value) of the keep test of `_load`, evaluated from its AST on a small grid"""
    import ast

    from tools.translate import _tree, find_def

    load = find_def(_tree(repo, 'pl/logger/chronicle.py'), '_load')
    keep = None
    for n in ast.walk(load):
        if isinstance(n, ast.If) and any(
            isinstance(c, ast.Expr) and isinstance(c.value, ast.Call)
            and getattr(c.value.func, 'attr', None) == 'append' for c in n.body
        ):
            keep = n.test
    if keep is None:
        return []  # the keep test is no longer a single `if <test>: entries.append(entry)`: nothing to compare
    code = compile(ast.Expression(keep), '_load.keep', 'eval')
    out = []
    for a in (-1, 0, 1, 2):
        for c in (-1, 0, 1, 2, 3):
            for b in (0, 1, 2, 3):
                for es in ('success', 'failure', 'invalid'):
                    for s in ('success', 'failure'):
                        v = bool(eval(code, {}, {'after': a, 'completed': c, 'before': b,  # noqa: S307
                                                 'entry': {'status': es}, 'status': s}))
                        out.append(((a, c, b, es, s), v))
    return out


# ------------------------------------------------------------------ entry points
def run(ctx, res):
    real = Real()
    try:
        _run(ctx, res, real)
    finally:
        real.close()


def _run(ctx, res, real):
    r = common.rng(ctx['seed'], 'C18')
    thorough = ctx['tier'] == 'thorough' or ctx['escalate']
    res.rule = ('append/find histories: 0-30 completion instants clustered on month ends, year ends, leap days and '
                'neighbouring days (any time of day incl. first/last micro-second, duplicates, same run id on several '
                'days, three outcomes), windows with bounds on/next to entries and at other times of day, limits '
                '{-1,0,1,2,3,5,100,None}, via chronicle.find and via the API handlers; scenario corpus first; each case '
                'runs on the real code in a fresh temp store (brute-force monitor) and on the Lean model; non-trivial = '
                'a query returned at least one entry; distinct by canonical observation')
    res.assumptions = list(TRUSTED)
    floor_us = inst(1980, 1, 1)
    cases = load_corpus() + corpus()
    n = 5000 if thorough else 600
    for _ in range(n):
        cases.append(gen_case(r))
    lines, pending = [], []
    first_hits = {}
    for case in cases:
        before_sigs = {h['sig'] for h in res.hits}
        obs = run_case(real, res, case, floor_us)
        for h in res.hits:
            if h['sig'] not in before_sigs and h['sig'] not in first_hits:
                first_hits[h['sig']] = case
        nontrivial = any(isinstance(o, list) and o and o[0] == 'ok' and len(o) > 1 for o in obs)
        res.case(obs, nontrivial=nontrivial,
                 sample={'appends': sum(1 for o in case['ops'] if o['op'] == 'append'),
                         'queries': [[_show(o['after']), _show(o['before']), o['limit'], o['succeeded']]
                                     for o in case['ops'] if o['op'] == 'find'][:3],
                         'answers': [o for o in obs if isinstance(o, list) and o and o[0] == 'ok'][:3]})
        for o in case['ops']:
            if o['op'] == 'find':
                mode = ('A' if o['after'] is not None else '-') + ('B' if o['before'] is not None else '-') \
                    + ('L' if o['limit'] is not None else '-')
                res.count('find:' + mode + (':api' if o.get('via') == 'api' else ''))
            else:
                res.count('append' + (':malformed' if o.get('keys') is not None else ''))
        lines.append(case_line(case))
        pending.append((case, obs))
    # shrink what the monitor found (smaller replay per signature)
    for sig, case in first_hits.items():
        if sig.startswith('C18:complete'):
            continue
        small = shrink(real, case, sig, floor_us)
        tmp = common.Result()
        run_case(real, tmp, small, floor_us)
        for h in tmp.hits:
            if h['sig'] == sig:
                res.hit(sig, h['what'], h['replay'])
    run_complete(real, res, r, 400 if thorough else 40)
    # generated definitions on a grid + calendar
    try:
        grid = keep_grid(common.REPO)
    except Exception as e:  # pylint: disable=broad-except
        grid = []
        res.count('keep-grid:not-evaluable:' + type(e).__name__)
    gl = [common.sx(['chron', ['keep', a, c, b, es, s]]) for (a, c, b, es, s), _v in grid]
    if thorough:
        cal = c18_cal.lines_for(_dt.date(1970, 1, 1), _dt.date(2100, 12, 31))
    else:
        cal = c18_cal.lines_for(_dt.date(1999, 12, 1), _dt.date(2001, 3, 31)) \
            + c18_cal.lines_for(_dt.date(2023, 12, 1), _dt.date(2025, 3, 31))
    cal += c18_cal.spot_lines(r, 200 if thorough else 40)
    if not ctx['lean']:
        return
    tie_insensitive = False
    outs = common.driver(lines + gl + [l for _z, _n, l in cal] + [common.sx(['chron-consts'])], 'C18')
    consts = common.parse_sx(outs[-1])
    if list(consts[4]) != EXPECTED_SORTKEY:
        tie_insensitive = True  # the tie-break of equal instants changed: not part of the property
        res.count('sort-key-changed')
    for (case, obs), o in zip(pending, outs):
        by_uid = {a['uid']: a for a in case['ops'] if a['op'] == 'append'}
        model = canon_model(o, tie_insensitive, by_uid)
        impl = [x for x in obs]
        if impl and isinstance(impl[-1], list) and impl[-1][:1] == ['by-day']:
            days = {}
            for f in model[-1]:
                days.setdefault(tuple(f[:3]), []).extend(f[4])
            model[-1] = ['by-day'] + sorted([list(k) + [sorted(v)] for k, v in days.items()])
            res.count('layout-changed')
        if tie_insensitive:
            model, impl = _ties(model, by_uid), _ties(impl, by_uid)
        if model != impl:
            k = next(i for i, (m, x) in enumerate(zip(model + [None], impl + [None])) if m != x)
            res.diff('Chronicle model vs chronicle.append/find',
                     {'case': case, 'first_differing_observation': k}, model[k] if k < len(model) else None,
                     impl[k] if k < len(impl) else None)
    for ((args, v), o) in zip(grid, outs[len(lines):]):
        if (common.parse_sx(o)[0] == 'T') != v:
            res.diff('Generated.Chronicle.keep vs the test in _load', {'args': list(args)}, o, v)
    res.count('keep-grid', len(grid))
    for (z0, k, _l), o in zip(cal, outs[len(lines) + len(gl):]):
        c18_cal.compare(res, 'C18', z0, k, o)
    if int(consts[3]) != floor_us:
        res.count('floor-changed')
    res.traces = len(pending)


def replay(rep, res):
    _replay(rep, res)
    if rep.get('sig'):  # only the recorded failure counts
        res.hits = [h for h in res.hits if h['sig'] == rep['sig']]


def _replay(rep, res):
    real = Real()
    try:
        inp = rep['input']
        if inp.get('kind') == 'complete':
            env = CompleteEnv(real)
            try:
                env.once(res, inp)
            finally:
                env.close()
            return
        case = {'kind': 'history', 'ops': inp['ops']}
        run_case(real, res, case, inst(1980, 1, 1))
    finally:
        real.close()
