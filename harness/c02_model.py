"""Correspondence between `Model/Reprocess.lean` (the world of theorem `C02.quiescent_fresh`) and the
real code path driven by harness/c02_e2e.py.

The e2e World records, in the order the REAL code performed them, the ops of the model -- requests,
source-data changes, dispatches, and for every executed unit `read` (what the real `Task.do` loaded),
`write` (what the real algorithm handed to `ds.update()`), `reply` (`farm.Hand._res`) -- together with
what the real code showed after each: the scheduler's queue and node sets, the contents the unit
found in its inputs, the values the real store reported new (digest novelty decided by the real
shelve backend), and at every quiescence the contents read back through the real load path.

The Lean driver replays the ops on the model and prints the same observations plus the hypotheses
of the theorem as Booleans (`okRead/okWrite/okReply` = the worker protocol and the load hypothesis, `novel` = the premise
"changed values have content never stored before").  Any difference is a correspondence diff."""
import types

from . import common


def case_of(w, sc):
    """called while the World is alive: model line + the observations of the real run"""
    from . import sched_env
    algs = w.algs
    tags = [f"{a['task']}.{a['name']}" for a in algs]
    vals = [f"{tag}.sv.{vn}" for tag, a in zip(tags, algs) for vn in a['values']]
    proxy = types.SimpleNamespace(S=w.S, dawgie=w.d, tags=tags, vals=vals, nodes=w.nodes)
    kinds, children, desc, ancestry, consumes, fb, levels, ranks = sched_env.Env.graph(proxy)
    kinds = [{'task': 'task', 'analysis': 'analysis', 'regress': 'regress'}.get(k, 'task') for k in kinds]
    idx = {t: i for i, t in enumerate(tags)}
    vidx = {v: i for i, v in enumerate(vals)}
    tnum = {t: i + 1 for i, t in enumerate(w.targets)}
    tnum['__all__'] = 0
    is_an = [k == 'analysis' for k in kinds]
    avals = [vidx[f'{tag}.sv.{vn}'] for tag, a, an in zip(tags, algs, is_an) if an for vn in a['values']]

    def cells(x, u):
        """Reprocess.readCells: per declared input (graph order), the targets it is read at"""
        out = []
        for v in consumes[x]:
            if v in avals:
                out.append((v, 0))
            elif is_an[x]:
                out.extend((v, i + 1) for i in range(len(w.targets)))
            else:
                out.append((v, u))
        return out
    outs = []
    for tag, a in zip(tags, algs):
        outs.append([vidx[f'{tag}.sv.{vn}'] for vn in a['values']])
    intern = {None: 0}

    def cid(c):
        if c not in intern:
            intern[c] = len(intern)
        return intern[c]

    ops, obs = [], []
    for op, ob in zip(w.trace, w.obs):
        k = op[0]
        o = {'snap': ob['snap']}
        if k == 'org':
            ops.append(['s', ['org', [idx[t] for t in op[1]], 'N', [tnum[t] for t in op[2]]]])
        elif k == 'disp':
            ops.append(['s', ['disp']])
        elif k == 'poke':
            ops.append(['poke', idx[op[1]], tnum[op[2]], op[3]])
        elif k == 'read':
            o['epoch'] = ob['epoch']
            x, u = idx[op[1]], tnum[op[2]]
            if is_an[x]:   # (source tag, value, target, content): what the real Aspect held
                o['ins'] = {(vidx[f'{st}.sv.{vn}'], tnum[tn]): cid(c) for st, vn, tn, c in ob['ins']}
            else:          # (source tag, value, content): what the real Task.do loaded
                o['ins'] = {(vidx[f'{st}.sv.{vn}'], 0 if vidx[f'{st}.sv.{vn}'] in avals else u): cid(c)
                            for st, vn, c in ob['ins']}
            o['cells'] = cells(x, u)
            # cells without data (nothing stored yet for that target) hold no content
            ops.append(['read', x, u, [o['ins'].get(c, 0) for c in o['cells']]])
        elif k == 'write':
            ops.append(['write', idx[op[1]], tnum[op[2]], [cid(c) for c in op[3]]])
            o['new'] = sorted(vidx['.'.join(n.split('.')[2:])] for n in ob['new'])
        elif k == 'reply':
            ops.append(['reply', idx[op[1]], tnum[op[2]], op[3]])
        elif k == 'check':
            ops.append(['check'])
            rows = list(w.targets) + ['__all__']
            o['stored'] = [[cid(ob['stored'].get((t, '.'.join(v.split('.')[:2]), v.split('.')[3]))) for v in vals]
                           for t in rows]
            o['want'] = [[cid(ob['want'].get((t, '.'.join(v.split('.')[:2]), v.split('.')[3]))) for v in vals]
                         for t in rows]
        else:
            raise ValueError(op)
        o['op'] = ops[-1]
        obs.append(o)
    graph = [kinds, children, desc, ancestry, consumes, fb, levels, ranks]
    line = common.sx(['repro', 'run', len(tags), graph, [tnum[t] for t in w.targets], outs, avals, ops])
    return {'line': line, 'obs': obs, 'tags': tags, 'targets': list(w.targets), 'consumes': consumes,
            'scenario': sc, 'outside': w.outside}


def compare(res, case, out):
    m = common.parse_sx(out)
    sc = {'kind': 'e2e', 'scenario': case['scenario']}
    if isinstance(m, list) and m and m[0] == 'bad-op':
        res.diff('Reprocess driver rejected the case', sc, out, None)
        return
    if len(m) != len(case['obs']):
        res.diff('Reprocess.run length', sc, len(m), len(case['obs']))
        return
    tags, targets = case['tags'], case['targets']
    tname = {i + 1: t for i, t in enumerate(targets)}
    tname[0] = '__all__'

    def snap_of(ob):
        que, nodes = ob[0], ob[1]
        return {'que': sorted({tags[int(i)] for i in que}),
                'nodes': {tags[i]: (sorted(tname[int(t)] for t in nd[0]), sorted(tname[int(t)] for t in nd[1]), nd[3])
                          for i, nd in enumerate(nodes)}}

    premise = True
    for k, (mo, io) in enumerate(zip(m, case['obs'])):
        kind, mism = mo[0], None
        if kind == 's':
            ms = snap_of(mo[1])
            if ms != io['snap']:
                mism = ('scheduler state', ms, io['snap'])
        elif kind == 'read':
            x = io['op'][1]
            if not set(io['ins']) <= set(io['cells']):
                mism = ('the real unit loaded something that is not a declared input at a target it reads',
                        sorted(io['cells']), sorted(io['ins']))
            elif mo[1] != 'T' and not premise:
                # the load hypothesis rests on "changed => reported new"; once a changed value had content
                # stored before (premise of the clause not met) the clause and its hypotheses do not apply
                res.count('model:load-hypothesis-fails-outside-the-premise')
            elif mo[1] != 'T':
                latest = {str(c): int(k) for c, k in zip(io['cells'], mo[4])}
                mism = ('hypothesis WOk(read) fails on the real code: the unit is not one the model has in flight, '
                        'or its load found an older version of an input although it is not pending again',
                        {'latest stored': latest}, {'loaded': {str(c): k for c, k in io['ins'].items()}})
            elif io['epoch'] is not None and int(mo[3]) != io['epoch']:
                mism = ('source data', int(mo[3]), io['epoch'])
            if mo[2] != 'T':
                res.count('model:loads-of-an-older-version(unit pending again)')
        elif kind == 'write':
            if mo[1] != 'T':
                mism = ('write without a load', mo[1], 'T')
            elif sorted(int(v) for v in mo[3]) != io['new']:
                mism = ('values reported new (digest novelty)', sorted(int(v) for v in mo[3]), io['new'])
            if mo[2] != 'T':
                premise = False
        elif kind == 'reply':
            if mo[1] != 'T':
                mism = ('reply for a unit that has not stored', mo[1], 'T')
            else:
                ms = snap_of(mo[2])
                if ms != io['snap']:
                    mism = ('scheduler state after the result', ms, io['snap'])
        elif kind == 'check':
            mst = [[int(c) for c in row] for row in mo[2]]
            if mst != io['stored']:
                mism = ('latest stored contents at quiescence', mst, io['stored'])
            elif mo[1] != 'T':
                mism = ('quiescence', mo[1], 'T')
            elif premise and mst != io['want']:
                # model, real store and the theorem's hypotheses agree, yet the conclusion fails
                mism = ('C02.quiescent_fresh: hypotheses hold on this history but the store differs from a '
                        'from-scratch run', mst, io['want'])
            res.count('model:quiescence-states-compared')
        if mism:
            res.diff(f'Reprocess.stepW vs scheduler/worker/store at op {k} {io["op"]} ({mism[0]})', sc, mism[1], mism[2])
            return
        res.count('model:op:' + kind)
    res.count('model:histories' + ('' if premise else '-premise-not-met'))
